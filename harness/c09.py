"""C09 - a value written through a property is the value read back, siblings unaffected.

Theorems: coq/theories/properties/C09.v (models Cost.v, Txn.v; proofs CostProofs.v).
Correspondence (CostRun.v): the real Parser parses postings with every initial cost form, random
assignment sequences run on the real CostSpec / Transaction and on the model; component kinds and
order, brace kind, the getters and the exception class are compared after every assignment.
Monitors: the record-of-optionals reference in Python, atomic refusal, print + re-parse, sibling
properties, and get-after-set on every value property of every model class of sample documents.
"""
from __future__ import annotations

import datetime
import decimal
import io
import json

from harness import common
from harness.common import coq_bool, coq_list, coq_opt, coq_z

D = decimal.Decimal
PREAMBLE = 'From AB Require Import Prelude Cost Txn CostRun.'

NUMS = [D('0'), D('1'), D('2.5'), D('-3'), D('12.34'), D('100'), D('7'),
        D('123456789012345678901234567890.123456789'), D('-98765432109876543210987654321098765.5')]   # > 28 digits, negative
CURS = ['USD', 'CAD', 'EUR', 'AB', 'X.Y-Z9']
DATES = [datetime.date(2000, 1, 1), datetime.date(1999, 12, 31), datetime.date(2024, 2, 29)]
LABELS = ['', 'foo', 'a "q" \\ b', 'lot 1']
STRS = ['', 'foo', 'bar baz', 'q"uote\\', 'p']          # STRS[0] must be '' (Txn.EMPTY = 0)
UNKNOWN = 999

SIG_D11 = 'C09:cost:currency-onto-bare-number'
SIG_COST = 'C09:cost:record-model'
SIG_COST_ATOMIC = 'C09:cost:refusal-not-atomic'
SIG_COST_REPARSE = 'C09:cost:reparse'
SIG_COST_RAW_ATOMIC = 'C09:cost:raw-refusal-not-atomic'
SIG_COST_WHOLE = 'C09:cost:whole-cost-assignment'
SIG_SEPARATE = 'C09:cost:separate-number-currency-components'
SIG_DUP = 'C09:cost:duplicate-components'
SIG_NORMAL_LOST = 'C09:cost:normal-form-lost'
SIG_SLOTS = 'slots-correspondence'
SIG_TXN = 'C09:txn:pair-model'
SIG_TXN_REPARSE = 'C09:txn:reparse'
SIG_TXN_FRAME = 'C09:txn:siblings'
SIG_GEN_GET = 'C09:generic:get-after-set'
SIG_GEN_FRAME = 'C09:generic:siblings'
SIG_GEN_REPARSE = 'C09:generic:reparse'

_state = {}


def impl():
    """Import the implementation lazily (so that VERIF_REPO is honoured) and cache a parser."""
    if not _state:
        from autobean_refactor import models, parser, printer
        _state.update(models=models, parser=parser.Parser(), printer=printer)
    return _state['models'], _state['parser'], _state['printer']


def text_of(model) -> str:
    _, _, printer = impl()
    return printer.print_model(model, io.StringIO()).getvalue()


def code(table, v):
    if v is None:
        return None
    for i, x in enumerate(table):
        if x == v and type(x) is type(v):
            return i
    return UNKNOWN


# =============================================================================================
# cost group
# =============================================================================================
COST_PROPS = ('number_per', 'number_total', 'currency', 'date', 'label', 'merge')
COST_TABLE = {'number_per': NUMS, 'number_total': NUMS, 'currency': CURS, 'date': DATES, 'label': LABELS}
COQ_OP = {'number_per': 'OPer', 'number_total': 'OTotal', 'currency': 'OCur', 'date': 'ODate', 'label': 'OLabel',
          'merge': 'OMerge'}

# (text, listed): the amount-like piece of an initial form.  `1 + 1.5` has the value 2.5.
AMOUNT_PIECES = [('', True), ('1', True), ('USD', True), ('1 USD', True), ('12.34 CAD', True),
                 ('1 # 2.5 USD', True), ('# 2.5 USD', True), ('1 # USD', True), ('# USD', True),
                 ('(1 + 1.5) EUR', True), ('-3', True), ('1+1.5 # 7 USD', True)]
# forms outside the property's quantifier (two amount-like components, repeated date...): correspondence only
ODD_PIECES = ['1, USD', 'USD, 1', '1, 2.5', '1 USD, CAD', 'USD, 1 # 2.5 EUR', '1, 1 USD', 'CAD, USD']


def gen_cost_text(rng) -> tuple[str, bool]:
    listed = rng.random() >= 0.2
    pieces = []
    if listed:
        a = rng.choice(AMOUNT_PIECES)[0]
        if a:
            pieces.append(a)
    elif rng.random() < 0.5:
        # number and currency as two components, anywhere among the others (known finding; monitored)
        pieces += [rng.choice(['12.34', '1', '(1 + 1.5)']), rng.choice(['USD', 'CAD'])]
    elif rng.random() < 0.5:
        pieces.append(rng.choice(ODD_PIECES))
    else:
        # a repeated date / label / asterisk next to any amount-like piece (known finding; monitored)
        a = rng.choice(AMOUNT_PIECES)[0]
        pieces += ([a] if a else []) + rng.choice([['2000-01-01', '1999-12-31'], ['"foo"', '"lot 1"'], ['*', '*'],
                                                   ['2024-02-29', '2024-02-29']])
    if rng.random() < 0.5:
        pieces.append(rng.choice(['2000-01-01', '1999-12-31']))
    if rng.random() < 0.5:
        pieces.append(rng.choice(['"foo"', '""', '"lot 1"']))
    if rng.random() < 0.4:
        pieces.append('*')
    if not listed and rng.random() < 0.3:
        pieces.append(rng.choice(['2024-02-29', '*', '"foo"']))
    rng.shuffle(pieces)
    sp = lambda: rng.choice(['', '', ' ', '  '])
    inner = (sp() + ',' + rng.choice([' ', ' ', '  '])).join(pieces)   # `1,2000` would lex as one number
    total = rng.random() < 0.4
    body = ('{{' if total else '{') + sp() + inner + sp() + ('}}' if total else '}')
    return f'    Assets:Foo  100.00 GBP {body}', listed


RAW = {'raw_number_per': 'number_per', 'raw_number_total': 'number_total', 'raw_currency': 'currency'}
COQ_ROP = {'raw_number_per': 'RPer', 'raw_number_total': 'RTotal', 'raw_currency': 'RCur'}
DONOR_TEXT = '    Assets:Don  1 GBP {7 # 100 AB}'
DONOR_CODE = {'raw_number_per': 6, 'raw_number_total': 5, 'raw_currency': 3}     # NUMS[6]=7, NUMS[5]=100, CURS[3]='AB'


def gen_cost_ops(rng, n):
    """[prop, value code] (value level) or [raw prop, value code, mode] with mode in none/fresh/copy/attached:
    a fresh node, a deep copy of a node of another posting, or that node itself (must be refused)."""
    ops = []
    for _ in range(n):
        if rng.random() < 0.08:
            mode = rng.choice(['copy', 'copy', 'built', 'attached'])
            ops.append(['raw_cost', rng.randrange(3 if mode == 'built' else len(COST_DONORS)), mode])
            continue
        if rng.random() < 0.3:
            p = rng.choice(list(RAW))
            mode = rng.choice(['none', 'fresh', 'copy', 'equal', 'equal', 'attached', 'attached'])
            vc = None if mode in ('none', 'equal') else (rng.randrange(len(COST_TABLE[RAW[p]])) if mode == 'fresh' else DONOR_CODE[p])
            ops.append([p, vc, mode])
            continue
        p = rng.choice(COST_PROPS + ('number_per', 'number_total', 'currency'))
        if p == 'merge':
            ops.append([p, rng.random() < 0.5])
        else:
            ops.append([p, None if rng.random() < 0.35 else rng.randrange(len(COST_TABLE[p]))])
    return ops


def enc_comp(c):
    models, _, _ = impl()
    if isinstance(c, models.CompoundAmount):
        return ('KCompound', code(NUMS, c.number_per), code(NUMS, c.number_total), code(CURS, c.currency))
    if isinstance(c, models.Amount):
        return ('KAmount', code(NUMS, c.number), code(CURS, c.currency))
    if isinstance(c, models.NumberExpr):
        return ('KNumber', code(NUMS, c.value))
    if isinstance(c, models.Currency):
        return ('KCurrency', code(CURS, c.value))
    if isinstance(c, models.Date):
        return ('KDate', code(DATES, c.value))
    if isinstance(c, models.EscapedString):
        return ('KLabel', code(LABELS, c.value))
    if isinstance(c, models.Asterisk):
        return ('KAsterisk',)
    return ('KUnknown', type(c).__name__)


def cost_getters(cs):
    return (code(NUMS, cs.number_per), code(NUMS, cs.number_total), code(CURS, cs.currency),
            code(DATES, cs.date), code(LABELS, cs.label), bool(cs.merge))


def observe_cost(cs):
    models, _, _ = impl()
    brace = 'Total' if isinstance(cs.raw_cost, models.TotalCost) else 'Unit'
    return {'brace': brace, 'comps': [enc_comp(c) for c in cs.raw_cost.raw_components], 'getters': cost_getters(cs)}


def ref_apply(ref: dict, prop: str, v):
    """The record-of-optionals reference: assign, refuse when both numbers would lack a currency."""
    new = dict(ref)
    new[prop] = v
    if new['number_per'] is not None and new['number_total'] is not None and new['currency'] is None:
        return ref, 1
    return new, 0


def ref_tuple(ref):
    return tuple(ref[p] for p in COST_PROPS)


def raw_node(prop, vc, mode, donor):
    import copy
    models, _, _ = impl()
    if mode == 'none':
        return None
    if mode == 'fresh':
        v = COST_TABLE[RAW[prop]][vc]
        return models.Currency.from_value(v) if prop == 'raw_currency' else models.NumberExpr.from_value(v)
    node = getattr(donor.cost, prop)
    return copy.deepcopy(node) if mode == 'copy' else node


# whole-field assignment `cost_spec.raw_cost = cost`: the assigned cost is a deep copy of the cost of a
# freshly parsed posting ('copy'), that cost itself ('attached': must be refused) or built with from_children
COST_DONORS = ['{1 USD}', '{{2.5 CAD, 2000-01-01}}', '{7 # 100 AB, "foo", *}', '{}', '{{12.34}}', '{"lot 1", EUR}']


def built_cost(idx):
    """(cost node, the getters it denotes) built with from_children from fresh components."""
    models, _, _ = impl()
    if idx % 3 == 0:
        return models.UnitCost.from_children([models.NumberExpr.from_value(NUMS[6])]), (6, None, None, None, None, False)
    if idx % 3 == 1:
        return (models.TotalCost.from_children([models.Amount.from_value(NUMS[2], CURS[1]),
                                                models.Date.from_value(DATES[0]), models.Asterisk.from_default()]),
                (None, 2, 1, 0, None, True))
    return models.UnitCost.from_children([]), (None, None, None, None, None, False)


def observe_rawcost(node):
    models, _, _ = impl()
    return {'brace': 'Total' if isinstance(node, models.TotalCost) else 'Unit',
            'comps': [enc_comp(c) for c in node.raw_components]}


def normal_obs(obs) -> bool:
    """Cost.normal_b on an observed implementation state (cross-checked against normal_b in check_ccase)."""
    kinds = [c[0] for c in obs['comps']]
    return (sum(kinds.count(k) for k in ('KCompound', 'KAmount', 'KNumber', 'KCurrency')) <= 1
            and kinds.count('KDate') <= 1 and kinds.count('KLabel') <= 1 and kinds.count('KAsterisk') <= 1)


def is_separate(obs) -> bool:
    """A bare number and a bare currency as two components, no amount, no compound, nothing else repeated."""
    kinds = [c[0] for c in obs['comps']]
    return (kinds.count('KNumber') == 1 and kinds.count('KCurrency') == 1
            and 'KAmount' not in kinds and 'KCompound' not in kinds
            and kinds.count('KDate') <= 1 and kinds.count('KLabel') <= 1 and kinds.count('KAsterisk') <= 1)


def shape_signature(obs):
    """None for a normal state; else the known-finding class of the parsed shape."""
    if normal_obs(obs):
        return None
    return SIG_SEPARATE if is_separate(obs) else SIG_DUP


def run_cost_walk(text: str, ops, listed=None):
    """Run one assignment sequence on the real CostSpec.  Returns (init observation, steps, failure|None).
    The record-model monitor runs from every initial form.  Whether the walk is inside the property's
    quantifier is computed from the *observed* state (normal_obs), never from how the text was generated:
    a walk whose origin (the parsed state, or the last accepted whole-cost assignment) is not normal reports
    every failure under the known-finding class of that shape; from a normal origin every observed state must
    be normal again and agree with the record model."""
    import copy
    models, parser, _ = impl()
    posting = parser.parse(text, models.Posting)
    donor = parser.parse(DONOR_TEXT, models.Posting)
    donor_snap = (text_of(donor), observe_cost(donor.cost))
    cs = posting.cost
    init = observe_cost(cs)
    ref = dict(zip(COST_PROPS, init['getters']))
    steps, failure = [], None
    origin_sig = shape_signature(init)
    for k, op in enumerate(ops):
        prop, vc = op[0], op[1]
        mode = op[2] if len(op) > 2 else None
        before_text = text_of(posting)
        before_obs = observe_cost(cs)
        if mode == 'equal':
            # a fresh node EQUAL to the current one through the raw property (a later different value must
            # still reach the document: a replace that skips equal nodes leaves an orphan behind)
            vc = before_obs['getters'][COST_PROPS.index(RAW[prop])]
            mode = 'none' if vc is None else 'fresh'
        res = 0
        donor2 = donor2_snap = assigned = assigned_getters = None
        try:
            if prop == 'raw_cost':
                if mode == 'built':
                    node, assigned_getters = built_cost(vc)
                else:
                    donor2 = parser.parse('    Assets:Don2  1 GBP ' + COST_DONORS[vc], models.Posting)
                    assigned_getters = cost_getters(donor2.cost)
                    node = donor2.cost.raw_cost if mode == 'attached' else copy.deepcopy(donor2.cost.raw_cost)
                    donor2_snap = (text_of(donor2), observe_cost(donor2.cost))
                assigned = observe_rawcost(node)
                cs.raw_cost = node
            elif mode is not None:
                setattr(cs, prop, raw_node(prop, vc, mode, donor))
            else:
                setattr(cs, prop, vc if prop == 'merge' or vc is None else COST_TABLE[prop][vc])
        except Exception as e:  # the class is all that is compared
            res = EXN_NUM.get(common.exn_name(e), 8)
        obs = observe_cost(cs)
        obs['res'] = res
        obs['assigned'] = assigned
        obs['op'] = [prop, vc] + ([mode] if mode is not None else [])
        steps.append(obs)
        kinds = [c[0] for c in obs['comps']]
        where = {'kind': 'cost', 'text': text, 'ops': ops[:k + 1]}
        unchanged = (text_of(posting) == before_text and
                     (obs['brace'], obs['comps']) == (before_obs['brace'], before_obs['comps']))
        donor_same = (text_of(donor), observe_cost(donor.cost)) == donor_snap and \
            (donor2 is None or (text_of(donor2), observe_cost(donor2.cost)) == donor2_snap)
        if failure:
            continue
        if mode == 'attached':
            # C19 for the raw setters: an attached node is refused and nothing (target, donor) has changed;
            # demanded from every state, normal or not
            if res != 1 or not unchanged or not donor_same:
                failure = (SIG_COST_RAW_ATOMIC,
                           f'{prop} = <node attached to another posting> on {before_text.strip()!r}: result code {res} '
                           f'(1 = ValueError expected), target now {text_of(posting).strip()!r}, donor '
                           f'{"unchanged" if donor_same else "changed"}', where)
            continue
        if not donor_same:
            failure = (SIG_COST_RAW_ATOMIC, f'{prop} ({mode}) changed the donor posting', where)
            continue
        if prop == 'raw_cost':
            if res == 0:
                # from here on the group is what the assigned cost denotes, whatever the form was before
                ref = dict(zip(COST_PROPS, assigned_getters))
                origin_sig = shape_signature(assigned)
            want_res = 0
        else:
            ref, want_res = ref_apply(ref, RAW.get(prop, prop), vc)
        # one stable class for everything that goes wrong on / after a non-normal origin; from a normal
        # origin a non-normal state is itself a failure (the invariant of C09_cost_refines)
        shape_sig = origin_sig
        if shape_sig is None and not normal_obs(obs):
            shape_sig = SIG_D11 if ('KCurrency' in kinds and 'KNumber' in kinds) else SIG_NORMAL_LOST
        if res != want_res or obs['getters'] != ref_tuple(ref):
            failure = (shape_sig or (SIG_COST_WHOLE if prop == 'raw_cost' else SIG_COST),
                       f'after {fmt_ops(ops[:k + 1])} on {text.strip()!r}: getters/result '
                       f'{obs["getters"]}/{res}, record model says {ref_tuple(ref)}/{want_res} '
                       f'(printed: {text_of(posting).strip()!r})', where)
        elif origin_sig is None and shape_sig is not None:
            failure = (shape_sig, f'after {fmt_ops(ops[:k + 1])} on {text.strip()!r} the cost has more than one '
                                  f'component of a kind: {text_of(posting).strip()!r}', where)
        elif res != 0 and not unchanged:
            failure = (shape_sig or SIG_COST_ATOMIC,
                       f'refused {prop} assignment changed the model: {before_text.strip()!r} -> '
                       f'{text_of(posting).strip()!r}', where)
        else:
            try:
                again = parser.parse(text_of(posting), models.Posting)
                got = cost_getters(again.cost) if again.cost is not None else None
                sib = (again.account, again.number, again.currency) == (posting.account, posting.number, posting.currency)
            except Exception as e:
                got, sib = f'{type(e).__name__}', True
            if got != obs['getters'] or not sib:
                failure = (shape_sig or SIG_COST_REPARSE,
                           f'print + parse after {fmt_ops(ops[:k + 1])} on {text.strip()!r} reads '
                           f'{got}, the model read {obs["getters"]} (printed: {text_of(posting).strip()!r})', where)
    return init, steps, failure


# run on every check: the whole-cost assignment between two uses of the value properties, and the
# separate number + currency forms (known finding C09:cost:separate-number-currency-components)
P_ = '    Assets:Foo  100.00 GBP '
DIRECTED = [
    (P_ + '{1 USD}', True, [['number_per', 6], ['raw_cost', 1, 'copy'], ['number_per', 1], ['currency', None]]),
    (P_ + '{{USD}}', True, [['currency', 1], ['raw_cost', 0, 'built'], ['number_total', 5], ['label', 1]]),
    (P_ + '{2000-01-01}', True, [['merge', True], ['raw_cost', 2, 'copy'], ['merge', False], ['date', None],
                                 ['raw_cost', 4, 'attached'], ['number_per', None]]),
    (P_ + '{1, CAD}', False, [['label', 1], ['raw_cost', 1, 'built'], ['number_total', None], ['currency', 0]]),
    (P_ + '{12.34, USD}', False, [['number_total', 5]]),
    (P_ + '{{USD, 2000-01-01, 12.34}}', False, [['number_per', 5]]),
    (P_ + '{"foo", 12.34, *, USD}', False, [['raw_currency', 2, 'fresh'], ['currency', None]]),
    # other repeated components (known finding C09:cost:duplicate-components)
    (P_ + '{2000-01-01, 1999-12-31}', False, [['date', None]]),
    (P_ + '{*, *}', False, [['merge', False]]),
    (P_ + '{1, 2.5}', False, [['number_per', None]]),
    (P_ + '{{"foo", 1 USD, "lot 1"}}', False, [['label', None]]),
]


def systematic_walks():
    """Every listed initial form ({} and {{}} x every amount-like piece, incl. compound amounts with only the
    per-unit / only the total number) x every ordered pair of the six number/currency assignments (None and a
    value), x every single date/label/merge assignment, x 'equal node then different value' on each property."""
    amt = [['number_per', None], ['number_per', 6], ['number_total', None], ['number_total', 5],
           ['currency', None], ['currency', 1]]
    other = [['date', None], ['date', 2], ['label', None], ['label', 3], ['merge', True], ['merge', False]]
    for piece, _ in AMOUNT_PIECES:
        for lb, rb in (('{', '}'), ('{{', '}}')):
            text = P_ + lb + piece + rb
            for a in amt:
                for b in amt:
                    yield text, True, [list(a), list(b)]
            for a in other:
                yield text, True, [list(a)]
            for rp, p, v in (('raw_number_per', 'number_per', 2), ('raw_number_total', 'number_total', 2),
                             ('raw_currency', 'currency', 2)):
                yield text, True, [[rp, None, 'equal'], [p, v], [rp, None, 'equal'], [p, None]]


EXN_NUM = {'ValueError': 1, 'IndexError': 2, 'KeyError': 3, 'AssertionError': 4, 'TypeError': 5,
           'NotImplementedErr': 6, 'OutOfFuel': 7, 'ModelStuck': 8}


def fmt_ops(ops):
    out = []
    for op in ops:
        p, vc = op[0], op[1]
        if p == 'raw_cost':
            out.append(f'raw_cost = <{op[2]} ' + (f'#{vc}' if op[2] == 'built' else COST_DONORS[vc]) + '>')
            continue
        tab = COST_TABLE.get(RAW.get(p, p)) or TXN_TABLE.get(p)
        v = vc if (p == 'merge' or vc is None or tab is None) else tab[vc]
        txt = f'{p} = {v!r}' if not isinstance(v, D) else f'{p} = {v}'
        if len(op) > 2 and op[2] == 'equal':
            txt = f'{p} = <fresh node equal to the current one>'
        out.append(txt + (f' <{op[2]} node>' if len(op) > 2 and op[2] not in ('none', 'equal') else ''))
    return '; '.join(out)


def oz(x):
    return coq_opt(None if x is None else coq_z(x))


def coq_comp(c):
    if c[0] == 'KCompound':
        return f'KCompound {oz(c[1])} {oz(c[2])} {coq_z(c[3])}'
    if c[0] == 'KAsterisk':
        return 'KAsterisk'
    if c[0] == 'KUnknown':
        return 'KLabel 424242'
    return c[0] + ' ' + ' '.join(coq_z(x) for x in c[1:])


def coq_cost(o):
    return f'(mkcost {o["brace"]} {coq_list(coq_comp(c) for c in o["comps"])})'


def coq_spec(g):
    return f'(mkspec {oz(g[0])} {oz(g[1])} {oz(g[2])} {oz(g[3])} {oz(g[4])} {coq_bool(g[5])})'


def coq_cstep(op, obs=None):
    if obs is not None and obs.get('op'):
        op = obs['op']            # 'equal' resolved to the value the property had
    prop, vc = op[0], op[1]
    if prop == 'raw_cost':
        return f'SCost {coq_cost(obs["assigned"])} {coq_bool(op[2] == "attached")}'
    if len(op) > 2:
        return f'SRaw {COQ_ROP[prop]} {oz(vc)} {coq_bool(op[2] == "attached")}'
    return f'SVal ({COQ_OP[prop]} {coq_bool(vc) if prop == "merge" else oz(vc)})'


def coq_ccase(fixed, listed, init, ops, steps):
    body = coq_list(f'({coq_cstep(op, s)}, mkcobs {coq_z(s["res"])} {coq_cost(s)} {coq_spec(s["getters"])})'
                    for op, s in zip(ops, steps))
    fx, late = fixed
    return (f'mkccase {coq_bool(fx)} {coq_bool(late)} {coq_bool(normal_obs(init))} {coq_cost(init)} '
            f'{coq_spec(init["getters"])} {body}')


def probe_fixed() -> tuple[bool, bool]:
    """Does the tree under test merge a currency assigned onto a bare number into an Amount (D11 repair)?"""
    models, parser, _ = impl()
    p = parser.parse('    Assets:Foo  1 GBP {1}', models.Posting)
    p.cost.currency = 'CAD'
    d11 = [enc_comp(c)[0] for c in p.cost.raw_cost.raw_components] == ['KAmount']
    # does a refused raw assignment (attached node) still flip the braces first?
    a = parser.parse('    Assets:Foo  1 GBP {{}}', models.Posting)
    b = parser.parse(DONOR_TEXT, models.Posting)
    try:
        a.cost.raw_number_per = b.cost.raw_number_per
    except Exception:
        pass
    late = not isinstance(a.cost.raw_cost, models.TotalCost)
    return d11, late


def shrink_ops(fails, ops, budget=40):
    """Greedy: shortest failing prefix, then drop single assignments, keeping the same signature."""
    sig = fails(ops)
    cur, n = list(ops), 0
    for k in range(1, len(cur) + 1):
        n += 1
        if fails(cur[:k]) == sig:
            cur = cur[:k]
            break
    i = 0
    while i < len(cur) - 1 and n < budget:
        cand = cur[:i] + cur[i + 1:]
        n += 1
        if fails(cand) == sig:
            cur = cand
        else:
            i += 1
    return cur


def check_cost(ctx: common.Ctx, fixed: bool):
    n_walks = ctx.scale(500, 6000)
    cases, metas = [], []
    reported = set()
    def walks():
        for t, l, o in DIRECTED:
            yield t, l, [list(x) for x in o]
        yield from systematic_walks()
        for _ in range(n_walks):
            t, l = gen_cost_text(ctx.rng)
            yield t, l, gen_cost_ops(ctx.rng, ctx.rng.choice([1, 2, 3, 5, 8] if ctx.quick else [2, 4, 8, 16]))

    for text, listed, ops in walks():
        try:
            init, steps, failure = run_cost_walk(text, ops, listed)
        except Exception as e:
            ctx.fail('tie', 'cost-walk-crashed', f'{type(e).__name__}: {e} on {text!r} {ops}')
            continue
        al = [c[0][1:] for c in init['comps'] if c[0] in ('KCompound', 'KAmount', 'KNumber', 'KCurrency')]
        ctx.case({'cost': text.strip(), 'ops': fmt_ops(ops[:6])},
                 nontrivial=any(s['res'] for s in steps) or any(s['brace'] != init['brace'] for s in steps)
                 or any([c[0] for c in s['comps']] != [c[0] for c in init['comps']] for s in steps))
        ctx.dist('cost_init=' + init['brace'] + ':' + ('+'.join(al) or 'none') +
                 (':normal' if normal_obs(init) else (':separate' if is_separate(init) else ':duplicates')))
        ctx.dist(f'cost_init_other_components={len(init["comps"]) - len(al)}')
        for op, s in zip(ops, steps):
            ctx.dist(f'cost_op={op[0]}:{(op[2] if len(op) > 2 else ("None" if op[1] is None else "value"))}')
            if s['res']:
                ctx.dist('cost_refused')
        ctx.count('impl_steps', len(steps))
        if failure and failure[0] not in reported:
            reported.add(failure[0])
            sig, what, where = failure

            def fails(o, _t=text, _l=listed):
                try:
                    f = run_cost_walk(_t, o, _l)[2]
                except Exception:
                    return None
                return f[0] if f else None
            small = shrink_ops(fails, where['ops'])
            f2 = run_cost_walk(text, small, listed)[2] or failure
            ctx.monitor_failure(f2[0], f2[1], f2[2])
        elif failure:
            ctx.count('failures_monitor_suppressed_duplicates')
        cases.append(coq_ccase(fixed, listed, init, ops, steps))
        metas.append((text, listed, ops))
    bad = ctx.run_coq_cases('cost', PREAMBLE, 'ccase', 'check_ccase', cases, chunk=80)
    ctx.count('traces_validated_against_impl', len(cases) - len(bad))
    for i in bad[:2]:
        text, listed, ops = metas[i]

        def disagrees(o, _t=text, _l=listed):
            init, steps, _ = run_cost_walk(_t, o, _l)
            return 'x' if ctx.run_coq_cases('shrink', PREAMBLE, 'ccase', 'check_ccase',
                                            [coq_ccase(fixed, _l, init, o, steps)]) else None
        small = shrink_ops(disagrees, ops, budget=20) if disagrees(ops) else ops
        ctx.fail('corr', 'cost-correspondence',
                 f'Cost.v and cost_spec.py disagree after {fmt_ops(small)} on {text.strip()!r} (model fixed={fixed})',
                 {'kind': 'cost', 'text': text, 'ops': small, 'listed': listed})


def check_from_value(ctx: common.Ctx):
    models, _, _ = impl()
    cases = []
    n = ctx.scale(120, 600)
    for _ in range(n):
        pick = lambda tab: None if ctx.rng.random() < 0.45 else ctx.rng.randrange(len(tab))
        a = [pick(NUMS), pick(NUMS), pick(CURS), pick(DATES), pick(LABELS)]
        merge = ctx.rng.random() < 0.3
        vals = [None if c is None else tab[c] for c, tab in zip(a, (NUMS, NUMS, CURS, DATES, LABELS))]
        res, st = 0, None
        try:
            cs = models.CostSpec.from_value(*vals, merge)
            st = observe_cost(cs)
        except Exception as e:
            res = EXN_NUM.get(common.exn_name(e), 8)
        ctx.case({'from_value': [str(v) for v in vals] + [merge]}, nontrivial=True)
        ctx.dist('from_value=' + ('refused' if res else 'ok'))
        if st is not None:
            want = tuple(a) + (merge,)
            ok = st['getters'] == want
            if ok:
                try:
                    again = impl()[1].parse('    Assets:Foo  1 GBP ' + text_of(cs), models.Posting)
                    ok = cost_getters(again.cost) == want
                except Exception:
                    ok = False
            if not ok:
                ctx.monitor_failure('C09:cost:from_value', f'CostSpec.from_value{tuple(map(str, vals))} reads back '
                                    f'{st["getters"]} (printed {text_of(cs)!r})', {'kind': 'from_value', 'args': a + [merge]})
        elif not (a[0] is not None and a[1] is not None and a[2] is None):
            ctx.monitor_failure('C09:cost:from_value', f'CostSpec.from_value{tuple(map(str, vals))} refused a valid record',
                                {'kind': 'from_value', 'args': a + [merge]})
        cases.append(f'mkfvcase {oz(a[0])} {oz(a[1])} {oz(a[2])} {oz(a[3])} {oz(a[4])} {coq_bool(merge)} '
                     f'{coq_z(res)} {coq_opt(coq_cost(st) if st else None)}')
    bad = ctx.run_coq_cases('fv', PREAMBLE, 'fvcase', 'check_fvcase', cases, chunk=300)
    ctx.count('traces_validated_against_impl', len(cases) - len(bad))
    for i in bad[:2]:
        ctx.fail('corr', 'from-value-correspondence', 'Cost.from_value and CostSpec.from_value disagree',
                 {'kind': 'from_value', 'case': cases[i]})


# =============================================================================================
# payee / narration
# =============================================================================================
TXN_TABLE = {'payee': STRS, 'narration': STRS, 'payee_eq': STRS, 'narration_eq': STRS}


def esc(s):
    return '"' + s.replace('\\', '\\\\').replace('"', '\\"') + '"'


def gen_txn_text(rng):
    n = rng.choice([0, 1, 1, 2, 2])
    strs = [rng.randrange(len(STRS)) for _ in range(n)]
    head = '2000-01-01 ' + rng.choice(['*', '!', 'txn'])
    for c in strs:
        head += rng.choice([' ', '  ']) + esc(STRS[c])
    if rng.random() < 0.4:
        head += rng.choice([' #tag', ' ^link', ' #a ^b'])
    if rng.random() < 0.3:
        head += ' ; note'
    body = ''
    if rng.random() < 0.5:
        body += '\n    kk: "v"'
    if rng.random() < 0.7:
        body += '\n    Assets:Foo  1 USD\n    Assets:Bar'
    return head + body, strs


def gen_txn_ops(rng, n):
    return [[rng.choice(['payee_eq', 'narration_eq']), None] if rng.random() < 0.2 else
            [rng.choice(['payee', 'narration']), None if rng.random() < 0.4 else rng.randrange(len(STRS))]
            for _ in range(n)]


def txn_tri(t):
    return tuple(code(STRS, x) for x in (t.string0, t.string1, t.string2))


def txn_siblings(t):
    return (t.date, t.flag, list(t.tags), list(t.links), len(t.postings), len(t.raw_meta), t.inline_comment)


def run_txn_walk(text: str, ops):
    models, parser, _ = impl()
    seen = []
    orig = models.Transaction.__dict__['from_parsed_children']

    def spy(cls, token_store, *children):
        seen.append(tuple(None if c is None else code(STRS, c.value) for c in children[3:6]))
        return orig.__func__(cls, token_store, *children)
    models.Transaction.from_parsed_children = classmethod(spy)
    try:
        t = parser.parse(text, models.Transaction)
    finally:
        models.Transaction.from_parsed_children = orig
    children = seen[-1]
    init = txn_tri(t)
    ref = [init[1], init[2]]
    sib0 = txn_siblings(t)
    steps, failure = [], None
    for k, (prop, vc) in enumerate(ops):
        if prop.endswith('_eq'):
            # assign, through the raw property, a fresh node EQUAL to the current one (then later a different
            # value): a replace that skips equal nodes would leave the model pointing at an orphan
            prop = prop[:-3]
            cur = getattr(t, prop)
            vc = code(STRS, cur)
            if cur is None:
                setattr(t, prop, None)
            else:
                setattr(t, 'raw_' + prop, models.EscapedString.from_value(cur))
            ops[k] = [prop + '_eq', vc]
        else:
            value = None if vc is None else STRS[vc]
            setattr(t, prop, value)
        tri = txn_tri(t)
        printed = text_of(t)
        try:
            again = parser.parse(printed, models.Transaction)
            tri2 = txn_tri(again)
            sib2 = txn_siblings(again)
        except Exception as e:
            tri2, sib2 = (UNKNOWN, UNKNOWN, UNKNOWN), type(e).__name__
        steps.append((tri, tri2))
        if failure:
            continue
        # the pair-of-optionals reference with the payee-implies-narration rule
        if prop == 'payee':
            ref[0] = vc
            if vc is not None and ref[1] is None:
                ref[1] = 0
        else:
            ref[1] = vc if vc is not None else (0 if ref[0] is not None else None)
        where = {'kind': 'txn', 'text': text, 'ops': ops[:k + 1]}
        got = (code(STRS, t.payee), code(STRS, t.narration))
        if got != tuple(ref):
            failure = (SIG_TXN, f'after {fmt_ops(ops[:k + 1])} on {text.splitlines()[0]!r}: (payee, narration) = '
                                f'{(t.payee, t.narration)!r}, pair model says '
                                f'{tuple(None if c is None else STRS[c] for c in ref)!r}', where)
        elif txn_siblings(t) != sib0:
            failure = (SIG_TXN_FRAME, f'{prop} assignment changed a sibling property of {text.splitlines()[0]!r}', where)
        elif (tri2[1], tri2[2]) != got or sib2 != sib0:
            failure = (SIG_TXN_REPARSE, f'print + parse after {fmt_ops(ops[:k + 1])} on {text.splitlines()[0]!r} reads '
                                        f'{tri2}/{sib2 if sib2 != sib0 else "siblings ok"}, the model read {got} '
                                        f'(printed {printed.splitlines()[0]!r})', where)
    return children, init, steps, failure


def coq_tri(t):
    return f'({oz(t[0])}, {oz(t[1])}, {oz(t[2])})'


def coq_tcase(children, init, ops, steps):
    body = coq_list(f'({"OPayee" if p.startswith("payee") else "ONarration"} {oz(vc)}, {coq_tri(a)}, {coq_tri(b)})'
                    for (p, vc), (a, b) in zip(ops, steps))
    return f'mktcase {coq_tri(children)} {coq_tri(init)} {body}'


def check_txn(ctx: common.Ctx):
    n = ctx.scale(150, 1500)
    cases, metas, reported = [], [], set()
    for _ in range(n):
        text, strs = gen_txn_text(ctx.rng)
        ops = gen_txn_ops(ctx.rng, ctx.rng.choice([1, 2, 4, 6]))
        try:
            ops = [list(o) for o in ops]
            children, init, steps, failure = run_txn_walk(text, ops)
        except Exception as e:
            ctx.fail('tie', 'txn-walk-crashed', f'{type(e).__name__}: {e} on {text!r} {ops}')
            continue
        ctx.case({'txn': text.splitlines()[0], 'ops': fmt_ops(ops)}, nontrivial=len(ops) >= 2 or len(strs) == 1)
        ctx.dist(f'txn_strings={len(strs)}')
        ctx.count('impl_steps', len(steps))
        if failure and failure[0] not in reported:
            reported.add(failure[0])

            def fails(o, _t=text):
                try:
                    f = run_txn_walk(_t, [list(x) for x in o])[3]
                except Exception:
                    return None
                return f[0] if f else None
            small = shrink_ops(fails, failure[2]['ops'])
            f2 = run_txn_walk(text, [list(x) for x in small])[3] or failure
            ctx.monitor_failure(f2[0], f2[1], f2[2])
        cases.append(coq_tcase(children, init, ops, steps))
        metas.append((text, ops))
    bad = ctx.run_coq_cases('txn', PREAMBLE, 'tcase', 'check_tcase', cases, chunk=300)
    ctx.count('traces_validated_against_impl', len(cases) - len(bad))
    for i in bad[:2]:
        text, ops = metas[i]
        ctx.fail('corr', 'txn-correspondence',
                 f'Txn.v and transaction.py disagree after {fmt_ops(ops)} on {text.splitlines()[0]!r}',
                 {'kind': 'txn', 'text': text, 'ops': ops})


# =============================================================================================
# every value property of every model class (get-after-set, frame, print + re-parse)
# =============================================================================================
SAMPLES = [
    '; lead\n2000-01-01 open Assets:Foo USD, EUR "STRICT" ; c\n    kk: "v"\n    nn: 1 USD\n; trail\n',
    '2000-01-01 open Assets:Foo\n',
    '2000-01-02 close Assets:Foo\n    aa: TRUE\n',
    '2000-01-03 commodity USD\n    name: "dollar"\n',
    '2000-01-04 balance Assets:Foo 1.5 ~ 0.01 USD ; c\n',
    '2000-01-04 balance Assets:Foo 10 USD\n',
    '2000-01-05 pad Assets:Foo Equity:Bar\n',
    '2000-01-06 price USD 1.1 EUR\n',
    '2000-01-07 note Assets:Foo "hello" #t ^l\n',
    '2000-01-08 document Assets:Foo "/tmp/x.pdf"\n',
    '2000-01-09 event "loc" "here"\n',
    '2000-01-10 query "q" "select 1"\n',
    '2000-01-11 custom "budget" "x" 1 USD TRUE Assets:Foo 2000-01-01\n',
    'option "title" "T"\n',
    'include "other.bean"\n',
    'plugin "a.b" "cfg"\n',
    'plugin "a.b"\n',
    'pushtag #x\n',
    'poptag #x\n',
    'pushmeta kk: 1\n',
    'popmeta kk:\n',
    ('2000-02-01 * "p" "n" #t ^l ; ic\n    dd: 2001-02-03\n    tt: #tg\n    cc: USD\n    ee:\n    xx: Assets:Foo\n'
     '    ! Assets:Foo  1.0 USD {1.1 EUR, 2000-01-01, "lbl"} @ 1.2 EUR ; pc\n        pk: "pv"\n'
     '    Assets:Bar  -2 USD {{3 EUR}} @@ 3 EUR\n    Assets:Baz  3 USD {1 # 2 EUR}\n    Assets:Qux\n'),
    '2000-02-02 ! "n"\n    Assets:Foo  USD\n    Assets:Bar  1\n',
    # numbers written as expressions (products, quotients, sums, signs, parentheses): a number property overwrites the WHOLE expression
    ('2000-02-03 * "e"\n    ee: 2 * 3\n    Assets:Foo  2 * 3 USD {10 / 4 EUR} @ 6 / 3 EUR\n    Assets:Bar  1 + 2 USD {{2 * 2 EUR}} @@ -(1 + 1) EUR\n'
     '    Assets:Baz  -3 * 2 USD {1 * 1 # 2 / 1 EUR}\n'),
    '2000-02-04 balance Assets:Foo 2 * 5 ~ 1 / 100 USD\n',
    '2000-02-05 price USD 11 / 10 EUR\n',
]

DEPENDENT = {('Transaction', 'payee'): {'narration', 'string1', 'string2'},
             ('Transaction', 'narration'): {'payee', 'string1', 'string2'}}
# string0..2 are the raw slots behind payee/narration; payee/narration have their own monitor (check_txn)
SKIP = {('Transaction', 'string0'), ('Transaction', 'string1'), ('Transaction', 'string2')}
SKIP_SET = SKIP | {('Transaction', 'payee'), ('Transaction', 'narration')}
# which model owns a comment after print + parse is C04/C14's subject (a trailing comment followed by a
# sibling is re-claimed as that sibling's leading comment): read-back and frame only for these
NO_REPARSE = {'leading_comment', 'trailing_comment'}


def domain(cls_name: str):
    d = {
        'Date': [datetime.date(2012, 12, 31), datetime.date(1987, 6, 5)],
        'Account': ['Assets:New', 'Expenses:A1:B-c'],
        'Currency': ['CAD', 'X.Y-Z9'],
        # more than 28 significant digits (no rounding to the decimal context) and negative values
        'NumberExpr': [D('42'), D('-1.25'), D('0'), D('123456789012345678901234567890.123456789'), D('-98765432109876543210987654321098765.5')],
        'Tolerance': [D('0.5'), D('0'), D('123456789012345678901234567890.123456789')],
        'MetaValue': ['text', D('4.5'), D('-98765432109876543210987654321098765.5'), datetime.date(2001, 2, 3), True, False],
        'EscapedString': ['', 'new "s" \\', 'two\nlines'],
        'BlockComment': ['fresh', 'two\nlines', ''],
        'InlineComment': ['fresh', ''],
        'TransactionFlag': ['!', '*', '?'],   # 'txn' is a spelling of the value '*', not a value
        'PostingFlag': ['!', '*'],
        'MetaKey': ['newkey', 'k2-x_y'],
        'Tag': ['nt', 'a-b_c/1.2'],
        'Link': ['nl'],
        'Indent': ['  ', '\t', '      '],
        'Bool': [True, False],
    }
    return d.get(cls_name)


def value_props(inst):
    """(name, descriptor, kind, inner class name) for every public value property of the instance's class."""
    from autobean_refactor.models.internal import value_properties as vp
    out, seen = [], set()
    for klass in type(inst).__mro__:
        for name, desc in vars(klass).items():
            if name in seen or name.startswith('_') or name.startswith('raw_'):
                continue
            seen.add(name)
            if isinstance(desc, vp.required_value_property):
                raw = desc._inner_property.__get__(inst)
                out.append((name, 'required', type(raw).__name__))
            elif isinstance(desc, (vp.optional_string_property, vp.optional_indented_string_property,
                                   vp.optional_decimal_property, vp.optional_date_property)):
                out.append((name, 'optional', desc._inner_type.__name__))
            elif type(desc).__name__ == 'optional_meta_value_property':
                out.append((name, 'optional', 'MetaValue'))
    return out


def tree_children(inst):
    """Sub-models reachable through raw_* properties: (path element, child)."""
    from autobean_refactor.models import base
    seen_names = set()
    for klass in type(inst).__mro__:
        for name in vars(klass):
            if not name.startswith('raw_') or name in seen_names:
                continue
            seen_names.add(name)
            try:
                v = getattr(inst, name)
            except Exception:
                continue
            if isinstance(v, base.RawTreeModel):
                yield (name, None), v
            elif hasattr(v, '__len__') and hasattr(v, '__getitem__') and not isinstance(v, (str, bytes, dict)):
                try:
                    items = list(v)
                except Exception:
                    continue
                for i, x in enumerate(items):
                    if isinstance(x, base.RawTreeModel):
                        yield (name, i), x


def locate(root, path):
    cur = root
    for name, i in path:
        cur = getattr(cur, name)
        if i is not None:
            cur = cur[i]
    return cur


def all_instances(root, limit=400):
    out, seen, todo = [], set(), [((), root)]
    while todo and len(out) < limit:
        path, inst = todo.pop(0)
        if id(inst) in seen:
            continue
        seen.add(id(inst))
        out.append((path, inst))
        for elt, child in tree_children(inst):
            if id(child) not in seen:
                todo.append((path + (elt,), child))
    return out


def snapshot(inst):
    snap = {}
    for name, _, _ in value_props(inst):
        try:
            snap[name] = getattr(inst, name)
        except Exception as e:
            snap[name] = ('raises', type(e).__name__)
    return snap


def generic_one(sample: str, path, prop: str, value):
    """Returns (signature, what) or None."""
    models, parser, _ = impl()
    f = parser.parse(sample, models.File)
    inst = locate(f, path)
    cls = type(inst).__name__
    before = snapshot(inst)
    try:
        setattr(inst, prop, value)
    except ValueError:
        return None       # a documented rejection (cost group); covered by the cost monitor
    after = snapshot(inst)
    dep = DEPENDENT.get((cls, prop), set())
    if cls == 'CostSpec' and prop in ('number_per', 'number_total', 'currency'):
        dep = set()
    if after.get(prop) != value:
        return SIG_GEN_GET, f'{cls}.{prop} = {value!r} reads back {after.get(prop)!r}'
    for name in before:
        if name != prop and name not in dep and (cls, name) not in SKIP and before[name] != after[name]:
            return SIG_GEN_FRAME, f'{cls}.{prop} = {value!r} changed {name}: {before[name]!r} -> {after[name]!r}'
    printed = text_of(f)
    try:
        f2 = parser.parse(printed, models.File)
        inst2 = locate(f2, path)
        again = snapshot(inst2) if type(inst2) is type(inst) else {'<class>': type(inst2).__name__}
    except Exception as e:
        return SIG_GEN_REPARSE, f'{cls}.{prop} = {value!r}: printed text {printed!r} does not parse back ({type(e).__name__})'
    for name in after:
        if (cls, name) in SKIP or name in NO_REPARSE:
            continue
        if again.get(name) != after[name]:
            return SIG_GEN_REPARSE, (f'{cls}.{prop} = {value!r}: after print + parse {name} reads {again.get(name)!r}, '
                                     f'was {after[name]!r} (printed {printed!r})')
    return None


SIG_GEN_EQUAL = 'C09:generic:equal-node-then-value'


def equal_then_different(sample: str, path, prop: str, value):
    """Assign, through the raw property, a fresh node EQUAL to the current one, then a different value through
    the value property; the value must be read back, in memory and after print + parse."""
    import copy
    from autobean_refactor.models import meta_value_internal
    from autobean_refactor.models.internal import value_properties as vp
    models, parser, _ = impl()
    f = parser.parse(sample, models.File)
    inst = locate(f, path)
    cls = type(inst).__name__
    desc = next(vars(k)[prop] for k in type(inst).__mro__ if prop in vars(k))
    cur = getattr(inst, prop)
    if cur is None or cur == value:
        return None
    if type(desc).__name__ == 'optional_meta_value_property':
        inner_prop = desc.inner_property
        node = meta_value_internal.from_value(cur) if isinstance(cur, (str, D, datetime.date, bool)) else copy.deepcopy(cur)
    else:
        inner_prop = desc._inner_property
        raw = inner_prop.__get__(inst)
        inner = getattr(desc, '_inner_type', type(raw))
        if isinstance(desc, vp.optional_indented_string_property):
            node = inner.from_value(cur, indent=desc._indent_property.__get__(inst).value)
        else:
            node = inner.from_value(cur)
    if not hasattr(inner_prop, '__set__'):
        return None
    if not isinstance(cur, (str, D, datetime.date, bool)):
        cur = copy.deepcopy(cur)      # the node about to be replaced cannot be compared afterwards
    inner_prop.__set__(inst, node)
    if getattr(inst, prop) != cur:
        return SIG_GEN_EQUAL, f'{cls}.raw {prop} = <node equal to the current one> reads back {getattr(inst, prop)!r}, was {cur!r}'
    setattr(inst, prop, value)
    if getattr(inst, prop) != value:
        return SIG_GEN_EQUAL, f'{cls}.{prop} = {value!r} after an equal-node assignment reads back {getattr(inst, prop)!r}'
    if prop in NO_REPARSE:
        return None
    printed = text_of(f)
    try:
        got = getattr(locate(parser.parse(printed, models.File), path), prop)
    except Exception as e:
        got = f'<{type(e).__name__}>'
    if got != value:
        return SIG_GEN_EQUAL, (f'{cls}.{prop} = {value!r} after an equal-node assignment: print + parse reads {got!r} '
                               f'(printed {printed!r})')
    return None


def check_generic(ctx: common.Ctx):
    models, parser, _ = impl()
    reported = set()
    classes = set()
    for sample in SAMPLES:
        f = parser.parse(sample, models.File)
        for path, inst in all_instances(f):
            if isinstance(inst, models.File):
                continue
            cls = type(inst).__name__
            for prop, kind, inner in value_props(inst):
                if (cls, prop) in SKIP_SET:
                    continue
                dom = domain(inner)
                if dom is None:
                    ctx.count('generic_properties_without_domain')
                    ctx.dist(f'generic_no_domain={inner}')
                    continue
                values = list(dom)
                if ctx.quick:
                    values = [values[ctx.rng.randrange(len(values))]]
                if kind == 'optional':
                    values.append(None)
                if kind == 'optional' and getattr(inst, prop) is None:
                    pass  # creation from None is exercised by the non-None values
                for v in values:
                    classes.add(cls)
                    ctx.case({'generic': f'{cls}.{prop}', 'value': repr(v), 'sample': sample[:30]},
                             nontrivial=True)
                    ctx.dist(f'generic_kind={kind}:{inner}')
                    try:
                        r = generic_one(sample, path, prop, v)
                    except Exception as e:
                        r = (SIG_GEN_GET, f'{cls}.{prop} = {v!r} raised {type(e).__name__}: {e}')
                    if not r and v is not None:
                        try:
                            r = equal_then_different(sample, path, prop, v)
                            ctx.count('generic_equal_node_cases')
                        except Exception as e:
                            r = (SIG_GEN_EQUAL, f'{cls}.{prop}: equal node then {v!r} raised {type(e).__name__}: {e}')
                    if r and (r[0], cls, prop) not in reported:
                        reported.add((r[0], cls, prop))
                        ctx.monitor_failure(r[0], r[1] + f' [sample {sample!r}]',
                                            {'kind': 'generic', 'sample': sample, 'path': [list(p) for p in path],
                                             'prop': prop, 'value': enc_value(v)})
    ctx.count('generic_classes', len(classes))


# ---- correspondence of the value-property model (Txn.v, Section ValueProps) ---------------------------
def slot_descs(inst):
    """The independent value properties of an instance that the slot model covers: (name, kind, descriptor,
    domain).  Dependent groups (cost, payee/narration) and the type-switching meta value are not slots."""
    from autobean_refactor.models.internal import value_properties as vp
    cls = type(inst).__name__
    if cls == 'CostSpec':
        return []
    out, seen = [], set()
    for klass in type(inst).__mro__:
        for name, desc in vars(klass).items():
            if name in seen or name.startswith('_') or name.startswith('raw_') or (cls, name) in SKIP_SET:
                continue
            seen.add(name)
            if name == 'indent':
                continue   # documented dependency: the codec of the indented comment slots takes the indent
            if isinstance(desc, vp.required_value_property):
                kind, inner = 'required', type(desc._inner_property.__get__(inst))
            elif isinstance(desc, (vp.optional_string_property, vp.optional_indented_string_property,
                                   vp.optional_decimal_property, vp.optional_date_property)):
                kind, inner = 'optional', desc._inner_type
            else:
                continue
            dom = domain(inner.__name__)
            if dom:
                out.append((name, kind, desc, dom, inner))
    return out


def fresh_text(inst, desc, inner, v):
    """Text of inner_type.from_value(v) as the property would build it (the slot's fmt)."""
    from autobean_refactor.models.internal import value_properties as vp
    if isinstance(desc, vp.optional_indented_string_property):
        return text_of(inner.from_value(v, indent=desc._indent_property.__get__(inst).value))
    return text_of(inner.from_value(v))


def run_slot_walk(sample, path, steps_spec):
    """steps_spec: list of (slot index, value index | None).  Returns the Coq case or None."""
    models, parser, _ = impl()
    f = parser.parse(sample, models.File)
    inst = locate(f, path)
    descs = slot_descs(inst)
    if not descs:
        return None
    ids, keep = {}, []

    def node_id(n):
        if id(n) not in ids:
            ids[id(n)] = len(ids)
            keep.append(n)          # keep it alive: identities must not be recycled
        return ids[id(n)]

    def observe():
        slots, getters = [], []
        for name, kind, desc, dom, inner in descs:
            raw = desc._inner_property.__get__(inst)
            slots.append(None if raw is None else (node_id(raw), text_of(raw)))
            getters.append(code(dom, getattr(inst, name)))
        return slots, getters
    ndom = [len(d[3]) for d in descs]           # assignments draw from the original domain only
    table = []
    for i, (name, kind, desc, dom, inner) in enumerate(descs):
        # the value the document starts with gets a code of its own, with the text it has in the document
        raw, v0 = desc._inner_property.__get__(inst), getattr(inst, name)
        if raw is not None and code(dom, v0) == UNKNOWN:
            descs[i] = (name, kind, desc, list(dom) + [v0], inner)
            table.append((i, len(dom), text_of(raw)))
        for c, v in enumerate(dom):
            table.append((i, c, fresh_text(inst, desc, inner, v)))
    init, _ = observe()
    n0 = len(ids)
    out = []
    for si, vi in steps_spec:
        si %= len(descs)
        name, kind, desc, dom, inner = descs[si]
        if vi is None and kind == 'required':
            vi = 0
        v = None if vi is None else dom[vi % ndom[si]]
        setattr(inst, name, v)
        slots, getters = observe()
        out.append((kind == 'required', si, None if vi is None else vi % ndom[si], slots, getters))
    return coq_vcase(table, init, n0, out), [d[0] for d in descs]


def coq_oslot(x):
    return coq_opt(None if x is None else f'({coq_z(x[0])}, {common.coq_str(x[1])})')


def coq_vcase(table, init, n0, steps):
    tb = coq_list(f'({i}%nat, {coq_z(c)}, {common.coq_str(t)})' for i, c, t in table)
    st = coq_list(f'mkvstep {coq_bool(req)} {si}%nat {oz(vi)} {coq_list(coq_oslot(x) for x in slots)} '
                  f'{coq_list(oz(g) for g in getters)}' for req, si, vi, slots, getters in steps)
    return f'mkvcase {tb} {coq_list(coq_oslot(x) for x in init)} {coq_z(n0)} {st}'


def check_slots(ctx: common.Ctx):
    models, parser, _ = impl()
    cases, metas = [], []
    for sample in SAMPLES:
        f = parser.parse(sample, models.File)
        for path, inst in all_instances(f):
            if isinstance(inst, models.File) or not slot_descs(inst):
                continue
            for _ in range(ctx.scale(2, 6)):
                spec = [(ctx.rng.randrange(64), None if ctx.rng.random() < 0.3 else ctx.rng.randrange(64))
                        for _ in range(ctx.rng.choice([2, 4, 6]))]
                try:
                    r = run_slot_walk(sample, path, spec)
                except Exception as e:
                    ctx.fail('tie', 'slot-walk-crashed', f'{type(e).__name__}: {e} on {type(inst).__name__} {spec}')
                    continue
                if r is None:
                    continue
                ctx.case({'slots': type(inst).__name__, 'props': r[1], 'steps': spec}, nontrivial=True)
                ctx.dist(f'slot_class={type(inst).__name__}')
                cases.append(r[0])
                metas.append((sample, path, spec, type(inst).__name__))
    bad = ctx.run_coq_cases('slots', PREAMBLE, 'vcase', 'check_vcase', cases, chunk=60)
    ctx.count('traces_validated_against_impl', len(cases) - len(bad))
    for i in bad[:3]:
        sample, path, spec, cls = metas[i]
        ctx.fail('corr', SIG_SLOTS, f'the value-property slot model and {cls} disagree (node identity, text or getter) '
                                    f'after the assignments {spec}',
                 {'kind': 'slots', 'sample': sample, 'path': [list(p) for p in path], 'spec': spec})


def enc_value(v):
    if isinstance(v, D):
        return {'decimal': str(v)}
    if isinstance(v, datetime.date):
        return {'date': v.isoformat()}
    return {'plain': v}


def dec_value(e):
    if 'decimal' in e:
        return D(e['decimal'])
    if 'date' in e:
        return datetime.date.fromisoformat(e['date'])
    return e['plain']


# =============================================================================================
def body(ctx: common.Ctx):
    fixed = probe_fixed()
    ctx.notes.append(f'(D11 repair present, raw setters flip braces before consuming the node) in the tree under test: {fixed}')
    check_cost(ctx, fixed)
    check_from_value(ctx)
    check_txn(ctx)
    check_generic(ctx)
    check_slots(ctx)


def run(ctx: common.Ctx):
    ctx.rule = ('cost: postings parsed by the real Parser with every initial cost form ({} / {{}} x none, number, '
                'currency, amount, compound with either number missing, expression numbers) x subsets of date, label, * '
                'in random order and spacing, plus 15% forms outside the quantifier (two amount-like components) for '
                'the correspondence only; 1-8 (thorough: 2-16) random assignments incl. None and values that must be '
                'refused; non-trivial = a refusal, a brace flip or a change of component kinds happened. '
                'txn: headers with 0/1/2 strings, tags, comment, meta, postings x 1-6 payee/narration assignments. '
                'directed walks run first, then systematically every listed initial form x every ordered pair of number/currency assignments x equal-node-then-different-value; txn and cost walks include raw assignments of a fresh node EQUAL to the current one. 7+ directed walks (whole-cost assignment between uses of the value properties; number and currency as separate components); 10% of the random forms have number and currency as separate components (monitored; known finding), 10% other forms outside the quantifier (correspondence only, monitored after a whole-cost assignment); 8% of the steps assign a whole cost to cost_spec.raw_cost (deep copy of a parsed cost, from_children-built, or attached = must be refused). cost walks mix in 30% raw-level assignments (raw_number_per/raw_number_total/raw_currency) with None, a fresh node, a deep copy of another posting\'s node, or that attached node itself (must be refused, target and donor unchanged). generic: every public required/optional value property of every tree model reachable in the sample '
                'documents x values of its domain incl. None. from_value: random argument records.')
    ctx.assumptions += [
        'RepeatedNodeWrapper.insert/append/pop/__setitem__ on the cost components are the plain list operations '
        '(C03/C07); the model sees only component kinds, order and values',
        'value codecs (Decimal/str/date <-> token text) are C12/C13; values are opaque codes in the model',
        'the record-model monitor decides normality on the observed implementation state at every step (cross-checked '
        'with Cost.normal_b); origins with repeated components report under the two known-finding signatures',
        'lark gives a lone transaction string to the first _optional_string (observed on every parsed case)',
        'Cost.v transcribes cost_spec.py with fixes/costspec-currency-onto-number.patch applied; against a tree '
        'without the patch the correspondence uses the unrepaired variant (apply_gen false), which '
        'C09_cost_unrepaired_refuted shows not to satisfy the property; likewise the statement order of the raw '
        'setters is that of fixes/costspec-raw-setter-atomic.patch (probed; rapply_gen .. late=true otherwise)',
        'an attached node is refused by from_children / child and component assignment before they write '
        '(replace_node, _check_detachable: C19/C05); observed on every attached-donor step',
    ]
    ctx.require_coq(['properties/C09'], extra_targets=['CostRun'])
    body(ctx)


def search(ctx: common.Ctx):
    body(ctx)


def replay(ctx, path):
    data = json.loads(open(path).read())
    f = data.get('failure') or (data.get('what_no_longer_checks') or [{}])[0]
    w = f.get('witness') or {}
    kind = w.get('kind')
    if kind == 'cost':
        ops = [list(o) for o in w['ops']]
        init, steps, failure = run_cost_walk(w['text'], ops, w.get('listed', True))
        print('initial:', init)
        for o, s in zip(ops, steps):
            print(fmt_ops([o]), '->', s)
        fixed = probe_fixed()
        bad = ctx.run_coq_cases('replay', PREAMBLE, 'ccase', 'check_ccase',
                                [coq_ccase(fixed, w.get('listed', True), init, ops, steps)])
        print('model/implementation agree' if not bad else 'model/implementation DISAGREE', f'(fixed={fixed})')
        if failure:
            print('monitor:', failure[0], failure[1])
        return 1 if (failure or bad) else 0
    if kind == 'txn':
        ops = [list(o) for o in w['ops']]
        children, init, steps, failure = run_txn_walk(w['text'], ops)
        print('children:', children, 'initial:', init)
        for o, s in zip(ops, steps):
            print(fmt_ops([o]), '->', s)
        bad = ctx.run_coq_cases('replay', PREAMBLE, 'tcase', 'check_tcase', [coq_tcase(children, init, ops, steps)])
        print('model/implementation agree' if not bad else 'model/implementation DISAGREE')
        if failure:
            print('monitor:', failure[0], failure[1])
        return 1 if (failure or bad) else 0
    if kind == 'generic':
        r = generic_one(w['sample'], tuple(tuple(p) for p in w['path']), w['prop'], dec_value(w['value']))
        print('monitor:', r)
        return 1 if r else 0
    if kind == 'slots':
        r = run_slot_walk(w['sample'], tuple(tuple(p) for p in w['path']), [tuple(x) for x in w['spec']])
        bad = ctx.run_coq_cases('replay', PREAMBLE, 'vcase', 'check_vcase', [r[0]])
        print(r[1], 'model/implementation agree' if not bad else 'model/implementation DISAGREE')
        return 1 if bad else 0
    if kind == 'from_value':
        models, _, _ = impl()
        a = w['args']
        vals = [None if c is None else tab[c] for c, tab in zip(a[:5], (NUMS, NUMS, CURS, DATES, LABELS))]
        try:
            cs = models.CostSpec.from_value(*vals, a[5])
            print(text_of(cs), observe_cost(cs))
        except Exception as e:
            print(type(e).__name__, e)
        return 1
    print(json.dumps(f, indent=1))
    return 1


# =============================================================================================
# meta_value_internal.py: the `value` property of MetaItem (model MetaValue.v, theorems C09_meta_value_*,
# case checkers MetaValueRun.v)
# =============================================================================================
import importlib as _importlib

from harness.common import coq_str

META_PREAMBLE = 'From AB Require Import Prelude NumExpr NumExprRun MetaValue MetaValueRun.'
SIG_META_GET = 'C09:meta-value:get-after-set'
SIG_META_REPARSE = 'C09:meta-value:reparse'
META_DOC = '2000-01-01 open Assets:A\n  aa:{}\n  bb: "keep"\n'
# current content of the slot: every raw kind of `meta_value`, and absent
META_CURRENT = [('absent', ''), ('string', ' "s"'), ('date', ' 2001-02-03'), ('number', ' 1 + 2'), ('number', ' -4'),
                ('bool', ' TRUE'), ('account', ' Assets:B'), ('currency', ' USD'), ('tag', ' #tag'), ('null', ' NULL'),
                ('amount', ' 3 USD'),
                # values that compare equal across types in Python (True == Decimal(1), False == Decimal(0)): an
                # assignment of the OTHER type must still change type and text
                ('number', ' 1'), ('number', ' 0'), ('number', ' (2 - 1)'), ('bool', ' FALSE')]
META_RAW_TEXT = {'string': '"r"', 'date': '1999-12-31', 'number': '5 * 6', 'bool': 'FALSE', 'account': 'Assets:R',
                 'currency': 'EUR', 'tag': '#rr', 'null': 'NULL', 'amount': '-7 CAD'}
# new value: [kind, payload]
META_NEW = ([['none', None], ['str', 'x"y'], ['str', ''], ['date', [2024, 2, 29]], ['datetime', [2001, 2, 3, 4, 5]],
             ['dec', '-3.5'], ['dec', '4'], ['dec', '1E+3'], ['bool', True], ['bool', False], ['same', None],
             ['dec', '1'], ['dec', '0'], ['dec', '1.0']]
            + [['raw', k] for k in META_RAW_TEXT] + [['attached', k] for k in ('string', 'number', 'account', 'amount')])
_MV = {}


def _mv():
    if not _MV:
        from harness import c13
        _MV.update(c13=c13, mvi=_importlib.import_module('autobean_refactor.models.meta_value_internal'))
    return _MV


class _MetaOdd(Exception):
    pass


def meta_content(r) -> str:
    models, _, _ = impl()
    c13 = _mv()['c13']
    try:
        if isinstance(r, models.NumberExpr):
            return f'(RNumber {c13.coq_tree(c13.observe(r)[1])})'
        if isinstance(r, models.Amount):
            return f'(RAmount {c13.coq_tree(c13.observe(r.raw_number)[1])} {coq_str(r.raw_currency.raw_text)})'
    except c13.Malformed as e:
        raise _MetaOdd(f'malformed number expression: {e}')
    for cls, con in (('EscapedString', 'RString'), ('Date', 'RDate'), ('Bool', 'RBool'), ('Account', 'RAccount'),
                     ('Currency', 'RCurrency'), ('Tag', 'RTag'), ('Null', 'RNull')):
        if isinstance(r, getattr(models, cls)):
            return f'({con} {coq_str(r.raw_text)})'
    raise _MetaOdd(f'unexpected raw meta value {type(r).__name__}')


def meta_rawm(r, ids: dict) -> str:
    """option rawm; identities: known objects by their number, anything else is `new` (1000000)"""
    if r is None:
        return 'None'
    return f'(Some (RM {ids.get(id(r), 1000000)} {meta_content(r)}))'


def meta_norm(x):
    """a Date token built from a datetime.datetime hands that very object back until the text is re-read; the model and
    the re-parse know its date only"""
    return x.date() if isinstance(x, datetime.datetime) else x


def meta_mval(x, ids: dict, raw=None) -> str:
    models, _, _ = impl()
    c13 = _mv()['c13']
    if x is None:
        return 'MNone'
    if isinstance(x, str):
        return f'(MStr {coq_str(x)})'
    if isinstance(x, bool):
        return f'(MBool {coq_bool(x)})'
    if isinstance(x, datetime.datetime):
        return f'(MDateTime ({x.year}, {x.month}, {x.day}) {x.hour * 60 + x.minute})'
    if isinstance(x, datetime.date):
        return f'(MDate ({x.year}, {x.month}, {x.day}))'
    if isinstance(x, D):
        if raw is not None:      # read from a NumberExpr: the evaluation term of its text
            return f'(MDec {c13.coq_term(c13.term_of_text(text_of(raw)))})'
        return f'(MDec (SExt {coq_bool(x < 0)} {coq_str(format(x.copy_abs(), "f"))}))'
    return f'(MRaw (RM {ids.get(id(x), 1000000)} {meta_content(x)}))'


def meta_build_raw(kind: str, attached: bool):
    models, parser, _ = impl()
    if attached:
        f = parser.parse(META_DOC.format(' ' + META_RAW_TEXT[kind]), models.File)
        return f.raw_directives[0].raw_meta[0].raw_value, f
    cls = {'string': 'EscapedString', 'date': 'Date', 'number': 'NumberExpr', 'bool': 'Bool', 'account': 'Account',
           'currency': 'Currency', 'tag': 'Tag', 'null': 'Null', 'amount': 'Amount'}[kind]
    if kind in ('number', 'amount'):
        return parser.parse(META_RAW_TEXT[kind], getattr(models, cls)), None
    return getattr(models, cls).from_raw_text(META_RAW_TEXT[kind]), None


def meta_build_value(new, current_raw):
    """-> (python value, detachable, keep-alive)"""
    k, p = new
    if k == 'none':
        return None, True, None
    if k == 'str':
        return p, True, None
    if k == 'date':
        return datetime.date(*p), True, None
    if k == 'datetime':
        return datetime.datetime(*p), True, None
    if k == 'dec':
        return D(p), True, None
    if k == 'bool':
        return bool(p), True, None
    if k == 'same':
        return current_raw, False, None
    r, keep = meta_build_raw(p, k == 'attached')
    return r, k != 'attached', keep


def meta_one(ci: int, ni: int):
    """item.value = v on a freshly parsed document -> (coq case or None, monitor failures, description)"""
    models, parser, _ = impl()
    c13 = _mv()['c13']
    kind, text = META_CURRENT[ci]
    new = META_NEW[ni]
    f = parser.parse(META_DOC.format(text), models.File)
    item = f.raw_directives[0].raw_meta[0]
    cur = item.raw_value
    v, det, keep = meta_build_value(new, cur)
    if new[0] == 'same' and cur is None:
        return None, [], None
    ids = {}
    if cur is not None:
        ids[id(cur)] = 1
    if v is not None and not isinstance(v, (str, datetime.date, bool, D)):
        ids.setdefault(id(v), 2)
    before = meta_rawm(cur, ids)
    vq = meta_mval(v, ids)
    text_before = text_of(f)
    exc = 0
    try:
        item.value = v
    except ValueError:
        exc = 1
    except Exception as e:      # noqa: BLE001 - any other class disagrees with the model
        exc = 9
    after_raw = item.raw_value
    after = meta_rawm(after_raw, ids)
    fails = []
    try:
        got = c13.safe(lambda: item.value)
    except Exception as e:      # noqa: BLE001
        got = None
        fails.append((SIG_META_GET, f'reading MetaItem.value raises {type(e).__name__}'))
    read = meta_mval(meta_norm(got), ids, raw=after_raw if isinstance(after_raw, models.NumberExpr) else None)
    desc = {'kind': 'meta-value', 'current': ci, 'new': ni}
    # the property's own statement
    if exc == 0:
        simple = isinstance(v, (models.EscapedString, models.Date, models.Bool, models.NumberExpr))
        want = c13.safe(lambda: v.value) if simple else v
        same = (got is want) if (want is not None and not isinstance(want, (str, datetime.date, bool, D))) else \
            (meta_norm(got) == meta_norm(want) and type(meta_norm(got)) is type(meta_norm(want)))
        if not same:
            fails.append((SIG_META_GET, f'MetaItem.value = {v!r} on a {kind} slot; it reads {got!r}'))
        if text_of(f).splitlines()[2:] != text_before.splitlines()[2:] or text_of(f).splitlines()[0] != text_before.splitlines()[0]:
            fails.append((SIG_GEN_FRAME, f'MetaItem.value = {v!r} changed text outside the item: {text_of(f)!r}'))
        try:
            again = parser.parse(text_of(f), models.File).raw_directives[0].raw_meta[0]
            if simple or want is None or isinstance(want, (str, datetime.date, bool, D)):
                ok = c13.safe(lambda: again.value) == meta_norm(want) if want is not None else again.value is None
            else:
                ok = again.raw_value is not None and text_of(again.raw_value) == text_of(want) \
                    and type(again.raw_value) is type(want)
            if not ok:
                fails.append((SIG_META_REPARSE, f'MetaItem.value = {v!r}: {text_of(f)!r} re-parses to value {again.value!r}'))
        except Exception as e:      # noqa: BLE001
            fails.append((SIG_META_REPARSE, f'MetaItem.value = {v!r}: {text_of(f)!r} is refused by the parser ({type(e).__name__})'))
    elif text_of(f) != text_before:
        fails.append((SIG_GEN_FRAME, f'refused MetaItem.value = {v!r} changed the document'))
    coq = f'mkmcase {before} {vq} {coq_bool(det)} {exc} {after} {read}'
    return coq, fails, desc


def meta_module_cases():
    """update_value / from_value called directly on free-standing raw models"""
    models, parser, _ = impl()
    mvi = _mv()['mvi']
    ucases, fcases, errors = [], [], []
    scalars = [n for n in META_NEW if n[0] not in ('same', 'attached')]
    for kind in [None] + list(META_RAW_TEXT):
        for new in scalars:
            r = meta_build_raw(kind, False)[0] if kind else None
            v, _, _ = meta_build_value(new, None)
            ids = {id(r): 1} if r is not None else {}
            if v is not None and not isinstance(v, (str, datetime.date, bool, D)):
                ids[id(v)] = 2
            before, vq = meta_rawm(r, ids), meta_mval(v, ids)
            try:
                ok = bool(mvi.update_value(r, v))
                ucases.append(f'({before}, {vq}, {coq_bool(ok)}, {meta_rawm(r, ids)})')
            except Exception as e:      # noqa: BLE001 - the model never raises here
                errors.append(f'update_value({kind} model, {new}) raises {type(e).__name__}: {e}')
    for new in scalars:
        v, _, _ = meta_build_value(new, None)
        ids = {id(v): 2} if v is not None and not isinstance(v, (str, datetime.date, bool, D)) else {}
        vq = meta_mval(v, ids)
        try:
            fcases.append(f'({vq}, {meta_rawm(mvi.from_value(v), ids)})')
        except Exception as e:      # noqa: BLE001
            errors.append(f'from_value({new}) : {type(e).__name__}: {e}')
    return ucases, fcases, errors


def check_meta_value(ctx: common.Ctx, only=None):
    if not ctx.require_coq([], extra_targets=['MetaValueRun']):
        return
    ctx.assumptions.append('MetaItem.value: the slot edit itself (optional_node_property: create/remove/replace_node) is C03; '
                           'a Date token built from a datetime.datetime caches that object until re-read (compared as its date)')
    pairs = [only] if only else [(ci, ni) for ci in range(len(META_CURRENT)) for ni in range(len(META_NEW))]
    cases = []
    for ci, ni in pairs:
        try:
            coq, fails, desc = meta_one(ci, ni)
        except Exception as e:      # noqa: BLE001 - a shape the model does not have (incl. a document that no longer prints)
            ctx.fail('corr', 'meta-value-unexpected-shape', f'{type(e).__name__}: {e}',
                     {'kind': 'meta-value', 'current': ci, 'new': ni})
            continue
        if coq is None:
            continue
        for sig, what in fails:
            ctx.monitor_failure(sig, what, desc)
        ctx.case(desc, nontrivial=True)
        ctx.dist(f'meta-value:{META_CURRENT[ci][0]}<-{META_NEW[ni][0]}')
        cases.append((coq, desc))
    bad = ctx.run_coq_cases('meta', META_PREAMBLE, 'mcase', 'check_mcase', [c for c, _ in cases], chunk=60)
    ctx.count('traces_validated_against_impl', len(cases) - len(bad))
    for i in bad[:3]:
        ctx.fail('corr', 'meta-value-correspondence', 'MetaItem.value setter and MetaValue.set disagree', cases[i][1])
    if only:
        return
    ucases, fcases, errors = meta_module_cases()
    for what in errors[:3]:
        ctx.fail('corr', 'meta-module-correspondence', what, {'kind': 'meta-module'})
    bad = ctx.run_coq_cases('meta_update', META_PREAMBLE, 'option rawm * mval sym * bool * option rawm', 'check_ucase',
                            ucases, chunk=100)
    ctx.count('traces_validated_against_impl', len(ucases) - len(bad))
    for i in bad[:2]:
        ctx.fail('corr', 'meta-update-value-correspondence', 'update_value and MetaValue.update_value disagree',
                 {'kind': 'meta-update', 'case': ucases[i][:400]})
    bad = ctx.run_coq_cases('meta_from', META_PREAMBLE, 'mval sym * option rawm', 'check_fcase', fcases, chunk=100)
    ctx.count('traces_validated_against_impl', len(fcases) - len(bad))
    for i in bad[:2]:
        ctx.fail('corr', 'meta-from-value-correspondence', 'from_value and MetaValue.from_value disagree',
                 {'kind': 'meta-from', 'case': fcases[i][:400]})


_body0, _replay0 = body, replay


def body(ctx: common.Ctx):      # noqa: F811 - extends the check above
    _body0(ctx)
    check_meta_value(ctx)


def replay(ctx, path):      # noqa: F811
    data = json.loads(open(path).read())
    f = data.get('failure') or (data.get('what_no_longer_checks') or [{}])[0]
    w = f.get('witness') or {}
    if isinstance(w, dict) and w.get('kind') == 'meta-value':
        coq, fails, desc = meta_one(w['current'], w['new'])
        print(META_CURRENT[w['current']], META_NEW[w['new']], fails)
        check_meta_value(ctx, only=(w['current'], w['new']))
        return 1 if (fails or ctx.failures) else 0
    return _replay0(ctx, path)
