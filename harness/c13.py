"""C13 - number expressions evaluate and compose like ordinary arithmetic.

tie            : the six grammar rules and the terminals they use are pinned (fail closed)
correspondence : (a) random expression texts with random spacing are parsed by the real Parser; the tree
                 lark built, the lexemes of the harness' own tokenizer and the evaluation-order term of
                 the harness' own precedence-climbing parser are compared, inside Coq, with
                 NumExpr.parse_top / re / vadd / eval_top;
                 (b) random chains of operator applications (plain / reflected / in-place x int / Decimal /
                 free / attached / aliased expression, unary +/-) are executed on the implementation; the
                 result, self and the operand (tree, text before, text after in their stores) observed
                 after every step are compared with NumExpr.dunder / dunder_unary.
monitors       : the property's own statement, on the implementation: an independent evaluator applied to
                 the printed text of every result = .value = the arithmetic result = value after re-parsing
                 with the real Parser; operands and their documents unchanged by non-in-place forms; every
                 result is a self-contained tree.
"""
from __future__ import annotations

import copy
import decimal
import io
import json
import re
from decimal import Decimal
from typing import Any, Optional

from harness import common
from harness.common import coq_bool, coq_list, coq_opt, coq_str, coq_z

PREAMBLE = 'From AB Require Import Prelude NumExpr NumExprRun.'
SIG_OPERAND = 'C13:operand-changed-or-refused'

# ------------------------------------------------------------------------------------------------
# tie: grammar text the model's parser and tokens were written for
PINNED_GRAMMAR = {
    'number_expr': 'number_add_expr',
    'number_add_expr': 'number_mul_expr (ADD_OP number_mul_expr)*',
    'number_mul_expr': 'number_atom_expr (MUL_OP number_atom_expr)*',
    '?number_atom_expr': 'NUMBER | number_paren_expr | number_unary_expr',
    'number_paren_expr': 'LEFT_PAREN number_add_expr RIGHT_PAREN',
    'number_unary_expr': 'UNARY_OP number_atom_expr',
    'UNARY_OP': '"+" | "-"',
    'ADD_OP': '"+" | "-"',
    'MUL_OP': '"*" | "/"',
    'LEFT_PAREN': '"("',
    'RIGHT_PAREN': '")"',
    'NUMBER': r'(/([0-9]{1,3})(,[0-9]{3})+/ | /[0-9]+/) [/\.[0-9]*/]',
    'WHITESPACE': r'/[ \t]+/',
}


def check_tie(ctx) -> None:
    path = common.REPO / 'autobean_refactor' / 'beancount.lark'
    try:
        src = path.read_text()
    except OSError as e:
        ctx.fail('tie', 'grammar-unreadable', f'cannot read {path}: {e}')
        return
    rules: dict[str, str] = {}
    for line in src.splitlines():
        m = re.match(r'^(\??[A-Za-z_][A-Za-z_0-9]*)\s*:\s*(.*?)\s*$', line)
        if m and not line.startswith('//'):
            rules.setdefault(m.group(1), re.sub(r'\s+', ' ', m.group(2)))
    for name, want in PINNED_GRAMMAR.items():
        got = rules.get(name)
        if got != want:
            ctx.fail('tie', 'grammar-rule-changed',
                     f'beancount.lark rule {name!r} is {got!r}; NumExpr.v was written for {want!r}',
                     {'rule': name, 'found': got, 'expected': want})
    if '%ignore WHITESPACE' not in src:
        ctx.fail('tie', 'grammar-rule-changed', 'beancount.lark no longer ignores WHITESPACE')
    ctx.count('pinned_grammar_rules', len(PINNED_GRAMMAR))


# ------------------------------------------------------------------------------------------------
# the harness' own reading of a text: tokenizer + precedence climbing -> evaluation-order term
TOKEN_RE = re.compile(r'(?P<num>(?:[0-9]{1,3}(?:,[0-9]{3})+|[0-9]+)(?:\.[0-9]*)?)|(?P<ws>[ \t]+)|(?P<op>[-+*/()])')


def tokenize(text: str) -> Optional[list[tuple[str, str]]]:
    out, i = [], 0
    while i < len(text):
        m = TOKEN_RE.match(text, i)
        if not m:
            return None
        if m.lastgroup != 'ws':
            out.append((m.lastgroup, m.group(0)))
        i = m.end()
    return out


class _P:
    def __init__(self, toks):
        self.t, self.i = toks, 0

    def peek(self):
        return self.t[self.i] if self.i < len(self.t) else (None, None)

    def atom(self):
        k, s = self.peek()
        self.i += 1
        if k == 'num':
            return ('lit', s)
        if s == '(':
            e = self.add()
            if self.peek()[1] != ')':
                raise ValueError('expected )')
            self.i += 1
            return e
        if s == '-':
            return ('neg', self.atom())
        if s == '+':
            return self.atom()
        raise ValueError('unexpected ' + repr(s))

    def mul(self):
        v = self.atom()
        while self.peek()[1] in ('*', '/'):
            op = self.peek()[1]
            self.i += 1
            v = ('mul' if op == '*' else 'div', v, self.atom())
        return v

    def add(self):
        v = self.mul()
        while self.peek()[0] == 'op' and self.peek()[1] in ('+', '-'):
            op = self.peek()[1]
            self.i += 1
            v = ('add' if op == '+' else 'sub', v, self.mul())
        return v


def term_of_text(text: str):
    toks = tokenize(text)
    if toks is None:
        raise ValueError('not lexable')
    p = _P(toks)
    t = p.add()
    if p.i != len(toks):
        raise ValueError('trailing input')
    return t


def eval_term(t) -> Decimal:
    k = t[0]
    if k == 'lit':
        return Decimal(t[1].replace(',', ''))
    if k == 'neg':
        return eval_term(t[1]).copy_negate()      # sign application is exact (no context rounding)
    a, b = eval_term(t[1]), eval_term(t[2])
    return {'add': lambda: a + b, 'sub': lambda: a - b, 'mul': lambda: a * b, 'div': lambda: a / b}[k]()


def safe(fn):
    """decimal's own refusals (division by zero, overflow) are 'undefined', not failures"""
    try:
        return fn()
    except decimal.DecimalException:
        return None


def coq_term(t) -> str:
    k = t[0]
    if k == 'lit':
        return f'(SLit {coq_str(t[1])})'
    if k == 'neg':
        return f'(SNeg {coq_term(t[1])})'
    return f'(S{k.capitalize()} {coq_term(t[1])} {coq_term(t[2])})'


def coq_lexemes(text: str) -> str:
    out = []
    for k, s in tokenize(text) or []:
        if k == 'num':
            out.append(f'LNum {coq_str(s)}')
        elif s in '+-':
            out.append(f'LSign {coq_bool(s == "-")}')
        elif s in '*/':
            out.append(f'LStar {coq_bool(s == "/")}')
        else:
            out.append('LLp' if s == '(' else 'LRp')
    return coq_list(out)


# ------------------------------------------------------------------------------------------------
# reading the implementation's objects
_IMPL = {}


def impl():
    if not _IMPL:
        from autobean_refactor import models, parser, printer
        _IMPL.update(models=models, parser=parser.Parser(), printer=printer)
    return _IMPL


def print_model(m) -> str:
    return impl()['printer'].print_model(m, io.StringIO()).getvalue()


class Malformed(Exception):
    pass


def observe(expr) -> tuple[str, Any, str]:
    """(text before first_token in the store, tree with gaps, text after last_token); raises Malformed when
    the object is not a tree over its own store (leaf outside the store, out of order, or something other
    than whitespace between two leaves)."""
    M = impl()['models']
    toks = list(expr.token_store)
    pos = {id(t): i for i, t in enumerate(toks)}
    leaves: list = []

    def leaf(t, allowed):
        if id(t) not in pos:
            raise Malformed("a leaf token of the tree is not in the tree's token store")
        if t.raw_text not in allowed:
            raise Malformed(f'operator/parenthesis token with text {t.raw_text!r}')
        leaves.append(t)
        return t

    # pass 1: same shape as the model's trees, with token references where the gaps will go
    def w_atom(a):
        if isinstance(a, M.Number):
            if id(a) not in pos:
                raise Malformed("a leaf token of the tree is not in the tree's token store")
            leaves.append(a)
            return ['num', a]
        if isinstance(a, M.NumberParenExpr):
            lp = leaf(a._left_paren, ('(',))
            e = w_add(a._inner_expr)
            return ['paren', lp, e, leaf(a._right_paren, (')',))]
        if isinstance(a, M.NumberUnaryExpr):
            op = leaf(a._unary_op, ('+', '-'))
            return ['un', op, w_atom(a._operand)]
        raise Malformed(f'unexpected atom {type(a).__name__}')

    def w_mul(m):
        if type(m).__name__ != 'NumberMulExpr' or len(m.raw_operands) != len(m.raw_ops) + 1:
            raise Malformed('mul node shape')
        cur = ['matom', w_atom(m.raw_operands[0])]
        for op, a in zip(m.raw_ops, m.raw_operands[1:]):
            cur = ['mop', cur, leaf(op, ('*', '/')), w_atom(a)]
        return cur

    def w_add(e):
        if type(e).__name__ != 'NumberAddExpr' or len(e.raw_operands) != len(e.raw_ops) + 1:
            raise Malformed('add node shape')
        cur = ['amul', w_mul(e.raw_operands[0])]
        for op, m in zip(e.raw_ops, e.raw_operands[1:]):
            cur = ['aop', cur, leaf(op, ('+', '-')), w_mul(m)]
        return cur

    tree = w_add(expr.raw_number_add_expr)
    idx = [pos[id(t)] for t in leaves]
    if any(b <= a for a, b in zip(idx, idx[1:])):
        raise Malformed('leaf tokens are not in store order')
    if leaves[0] is not expr.first_token or leaves[-1] is not expr.last_token:
        raise Malformed('first_token/last_token are not the outermost leaves')
    gap_after = {}
    for a, b in zip(idx, idx[1:]):
        between = toks[a + 1:b]
        if any(type(t).__name__ != 'Whitespace' for t in between):
            raise Malformed('a non-whitespace token of the store lies between two leaves of the tree')
        gap_after[a] = ''.join(t.raw_text for t in between)

    def G(t):
        return gap_after.get(pos[id(t)], '')

    # pass 2: (tree with gaps, last leaf token of the subtree)
    def conv(n):
        k = n[0]
        if k == 'num':
            return ('num', n[1].raw_text), n[1]
        if k == 'paren':
            inner, last = conv(n[2])
            return ('paren', G(n[1]), inner, G(last)), n[3]
        if k == 'un':
            sub, last = conv(n[2])
            return ('un', n[1].raw_text == '-', G(n[1]), sub), last
        if k in ('matom', 'amul'):
            sub, last = conv(n[1])
            return (k, sub), last
        left, left_last = conv(n[1])
        right, right_last = conv(n[3])
        return (k, left, G(left_last), n[2].raw_text in ('-', '/'), G(n[2]), right), right_last

    out, _ = conv(tree)
    pre = ''.join(t.raw_text for t in toks[:idx[0]])
    post = ''.join(t.raw_text for t in toks[idx[-1] + 1:])
    return pre, out, post


def coq_tree(t) -> str:
    k = t[0]
    if k == 'num':
        return f'(Num {coq_str(t[1])})'
    if k == 'paren':
        return f'(Paren {coq_str(t[1])} {coq_tree(t[2])} {coq_str(t[3])})'
    if k == 'un':
        return f'(Unary {coq_bool(t[1])} {coq_str(t[2])} {coq_tree(t[3])})'
    if k == 'matom':
        return f'(MAtom {coq_tree(t[1])})'
    if k == 'mop':
        return f'(MOp {coq_tree(t[1])} {coq_str(t[2])} {coq_bool(t[3])} {coq_str(t[4])} {coq_tree(t[5])})'
    if k == 'amul':
        return f'(AMul {coq_tree(t[1])})'
    return f'(AOp {coq_tree(t[1])} {coq_str(t[2])} {coq_bool(t[3])} {coq_str(t[4])} {coq_tree(t[5])})'


def coq_obs(o) -> str:
    return f'({coq_str(o[0])}, {coq_tree(o[1])}, {coq_str(o[2])})'


def tree_stats(t) -> dict:
    s = {'paren': 0, 'un': 0, 'mop': 0, 'aop': 0, 'num': 0}

    def go(x):
        if isinstance(x, tuple) and x and isinstance(x[0], str) and x[0] in ('num', 'paren', 'un', 'matom', 'mop', 'amul', 'aop'):
            if x[0] in s:
                s[x[0]] += 1
            for y in x[1:]:
                go(y)
    go(t)
    return s


# ------------------------------------------------------------------------------------------------
# generators
GAPS = ['', '', '', ' ', ' ', '  ', '\t', ' \t ']
NUMS = ['0', '1', '2', '7', '10', '12', '34', '100', '3.5', '0.25', '12.', '1,234', '1,234,567.89', '999', '42.00', '5']


def gen_expr(rng, depth: int) -> str:
    def g():
        return rng.choice(GAPS)

    def atom(d):
        r = rng.random()
        if d <= 0 or r < 0.5:
            return rng.choice(NUMS)
        if r < 0.75:
            return '(' + g() + add(d - 1) + g() + ')'
        return rng.choice('+-') + g() + atom(d - 1)

    def mul(d):
        s = atom(d)
        for _ in range(rng.choice([0, 0, 0, 1, 1, 2])):
            s += g() + rng.choice('*/') + g() + atom(d)
        return s

    def add(d):
        s = mul(d)
        for _ in range(rng.choice([0, 0, 1, 1, 2, 3])):
            s += g() + rng.choice('+-') + g() + mul(d)
        return s
    return add(depth)


DOCS = [
    ('2000-01-01 *\n  Assets:A  {} USD\n  Assets:B\n', lambda f: f.raw_directives[0].raw_postings[0].raw_number),
    ('2000-01-01 balance Assets:A  {} USD\n', lambda f: f.raw_directives[0].raw_number),
    ('2000-01-01 open Assets:A\n2000-01-02 price USD   {} EUR\n; end\n', lambda f: f.raw_directives[1].raw_amount.raw_number),
]
# the owner's value view of the attached expression (posting.number, balance.number, amount.number)
OWNER_NUMBER = [
    lambda f: f.raw_directives[0].raw_postings[0].number,
    lambda f: f.raw_directives[0].number,
    lambda f: f.raw_directives[1].raw_amount.number,
]

DECS = ['0', '5', '-3', '12.50', '-0.75', '1000000', '2', '-1', '0.1', '7.25', '-120',
        # exponents and trailing zeros: str() of these is scientific, Number._format_value must write plain notation
        '1E+3', '-1E+3', '1E-7', '-2.5E-7', '1.2300E+2', '-1.2300E+2', '0E-5', '-0E-5', '0E+2', '12E+1', '3.40E-3',
        '1E+12', '-7.000', '1.0E-9',
        # longer than the context precision (28 digits): from_value must not round them
        '1.' + '1' * 40, '123456789012345678901234567890.123456789', '0.' + '0' * 30 + '7', '9' * 35,
        '-' + '1.' + '1' * 40, '-' + '9' * 35 + '.5', '-2E-29', '-1.00000000000000000000000000049',
        '-0.' + '0' * 30 + '7', '-123456789012345678901234567890.123456789']
INTS = [0, 1, 2, 3, -1, -7, 10, 12, 100, -250, 4, 5]


def gen_operand(rng) -> dict:
    r = rng.random()
    if r < 0.2:
        return {'t': 'int', 'v': rng.choice(INTS)}
    if r < 0.4:
        return {'t': 'dec', 'v': rng.choice(DECS)}
    if r < 0.45:
        return {'t': 'alias'}
    spec = {'t': 'expr', 'text': gen_expr(rng, rng.choice([0, 1, 1, 2])), 'doc': None}
    if rng.random() < 0.45:
        spec['doc'] = rng.randrange(len(DOCS))
    return spec


def gen_chain(rng) -> dict:
    self_spec = {'t': 'expr', 'text': gen_expr(rng, rng.choice([0, 1, 2])), 'doc': None}
    if rng.random() < 0.3:
        self_spec['doc'] = rng.randrange(len(DOCS))
    steps = []
    for _ in range(rng.choice([1, 1, 2, 3, 4])):
        r = rng.random()
        if r < 0.12:
            steps.append({'op': rng.choice(['neg', 'pos'])})
        elif r < 0.32:
            steps.append({'op': 'edit', 'leaf': rng.randrange(1000), 'new': rng.randrange(1000),
                          'via': rng.choice(['text', 'value'])})
        elif r < 0.37:
            steps.append({'op': 'setvalue', 'v': rng.choice(DECS)})
        else:
            steps.append({'op': rng.choice(['add', 'sub', 'mul', 'div']),
                          'form': rng.choice(['plain', 'plain', 'refl', 'inplace']),
                          'operand': gen_operand(rng)})
    if rng.random() < 0.12:
        steps.append({'op': 'replace_inner', 'which': rng.randrange(1000), 'text': gen_expr(rng, rng.choice([0, 1, 2]))})
    return {'self': self_spec, 'steps': steps}


DECIMAL_LAW_FAILURES: list[str] = []


def scalar_value(d: Decimal) -> Decimal:
    """the value of an int/Decimal operand is d itself.  Also validates, on every scalar used, the three laws
    of decimal that C13_from_value_exact assumes of the carrier (dabs = copy_abs, dneg = copy_negate,
    num_text = format(.,'f'), num_value = Decimal(text))."""
    a = d.copy_abs()
    if not (Decimal(format(a, 'f')) == a and (a.copy_negate() == d if d < 0 else a == d)):
        DECIMAL_LAW_FAILURES.append(str(d))
    return d


def nodes_and_leaves(expr):
    """every node of the tree (for reading .value) and its leaf tokens in order with their kind"""
    M = impl()['models']
    nodes, leaves, parens = [expr], [], []

    def atom(a):
        nodes.append(a)
        if isinstance(a, M.Number):
            leaves.append(('num', a))
        elif isinstance(a, M.NumberParenExpr):
            parens.append(a)
            leaves.append(('lp', a._left_paren))
            add(a._inner_expr)
            leaves.append(('rp', a._right_paren))
        else:
            leaves.append(('un', a._unary_op))
            atom(a._operand)

    def mul(m):
        nodes.append(m)
        atom(m.raw_operands[0])
        for op, a in zip(m.raw_ops, m.raw_operands[1:]):
            leaves.append(('mulop', op))
            atom(a)

    def add(e):
        nodes.append(e)
        mul(e.raw_operands[0])
        for op, m in zip(e.raw_ops, e.raw_operands[1:]):
            leaves.append(('addop', op))
            mul(m)

    add(expr.raw_number_add_expr)
    return nodes, leaves, parens


def touch_values(expr) -> None:
    """read .value of the expression and of every sub-expression (so that anything that remembers a value has
    remembered it before the next edit)"""
    for n in nodes_and_leaves(expr)[0]:
        safe(lambda: n.value)


# ------------------------------------------------------------------------------------------------
# running the implementation
DUNDER = {('add', 'plain'): '__add__', ('add', 'refl'): '__radd__', ('add', 'inplace'): '__iadd__',
          ('sub', 'plain'): '__sub__', ('sub', 'refl'): '__rsub__', ('sub', 'inplace'): '__isub__',
          ('mul', 'plain'): '__mul__', ('mul', 'refl'): '__rmul__', ('mul', 'inplace'): '__imul__',
          ('div', 'plain'): '__truediv__', ('div', 'refl'): '__rtruediv__', ('div', 'inplace'): '__itruediv__'}
ARITH = {'add': lambda a, b: a + b, 'sub': lambda a, b: a - b, 'mul': lambda a, b: a * b, 'div': lambda a, b: a / b}
COQ_OP = {'add': 'OpAdd', 'sub': 'OpSub', 'mul': 'OpMul', 'div': 'OpDiv'}
COQ_FORM = {'plain': 'Plain', 'refl': 'Reflected', 'inplace': 'InPlace'}


def build_expr(spec):
    """-> (NumberExpr, owning File or None)"""
    I = impl()
    if spec.get('doc') is None:
        return I['parser'].parse(spec['text'], I['models'].NumberExpr), None
    tmpl, getter = DOCS[spec['doc']]
    f = I['parser'].parse(tmpl.format(spec['text']), I['models'].File)
    return getter(f), f


def coq_operand(spec, obs_before) -> str:
    if spec['t'] == 'int':
        return f'(OInt {coq_z(spec["v"])})'
    if spec['t'] == 'dec':
        d = Decimal(spec['v'])
        return f'(ODec (SExt {coq_bool(d < 0)} {coq_str(format(d.copy_abs(), 'f'))}))'
    return f'(OExpr (of_obs {coq_obs(obs_before)}))'


class ChainRun:
    """Executes one chain on the implementation; collects monitor failures and the Coq case."""

    def __init__(self, chain: dict):
        self.chain = chain
        self.fails: list[tuple[str, str]] = []     # (signature, what)
        self.coq: Optional[str] = None             # None when the observation itself was impossible
        self.stats = {'wrapped': 0, 'attached': 0, 'steps': 0, 'undefined': 0}

    def fail(self, sig, what):
        self.fails.append((sig, what))

    def run(self):
        try:
            x, xdoc = build_expr(self.chain['self'])
        except Exception as e:   # the real parser refuses a valid expression: not this property's text, note it
            self.fail('C13:parse-refused', f'Parser refused {self.chain["self"]["text"]!r}: {type(e).__name__}')
            return self
        try:
            self_obs0 = observe(x)
        except Malformed as e:
            self.fail('C13:not-self-contained', f'parsed expression: {e}')
            return self
        steps_coq = []
        ok_coq = True
        for n, st in enumerate(self.chain['steps']):
            self.stats['steps'] += 1
            where = f'step {n} ({st["op"]} {st.get("form", "")})'
            x_text0 = print_model(x)
            xdoc_text0 = print_model(xdoc) if xdoc is not None else None
            touch_values(x)
            if xdoc is not None:
                safe(lambda: OWNER_NUMBER[self.chain['self']['doc']](xdoc))
            v_self = safe(lambda: x.value)
            if st['op'] in ('edit', 'setvalue', 'replace_inner'):
                try:
                    coq_step = self.edit_step(where, st, x)
                except Malformed as e:
                    self.fail('C13:not-self-contained', f'{where}: {e}')
                    ok_coq = False
                    break
                except Exception as e:
                    self.fail('C13:op-raised', f'{where}: raised {type(e).__name__}')
                    return self
                self.monitor_owner(where, x, xdoc)
                if st['op'] == 'replace_inner':
                    break           # monitor only (always the last step); the Coq case holds the steps before it
                if coq_step is not None:
                    steps_coq.append(coq_step)
                continue
            if st['op'] in ('neg', 'pos'):
                minus = st['op'] == 'neg'
                try:
                    r = -x if minus else +x
                except Exception as e:
                    self.fail('C13:op-raised', f'{where}: unary operator raised {type(e).__name__}')
                    return self
                expected = None if v_self is None else (v_self.copy_negate() if minus else v_self)
                self.monitor_result(where, r, expected)
                self.monitor_unchanged(where, 'self', x, x_text0, xdoc, xdoc_text0)
                try:
                    ro, so = observe(r), observe(x)
                    steps_coq.append(f'StUn {coq_bool(minus)} 0 {coq_obs(ro)} {coq_obs(so)} '
                                     f'{coq_term(term_of_text(print_model(r)))}')
                except (Malformed, ValueError) as e:
                    self.fail('C13:not-self-contained', f'{where}: {e}')
                    ok_coq = False
                x, xdoc = r, None
                if not ok_coq:
                    break
                continue
            spec = st['operand']
            odoc = None
            other_obs0 = None
            if spec['t'] == 'int':
                o = spec['v']
                v_other = Decimal(o)
            elif spec['t'] == 'dec':
                o = Decimal(spec['v'])
                v_other = scalar_value(o)
            elif spec['t'] == 'alias':
                o, odoc = x, xdoc
                v_other = v_self
            else:
                try:
                    o, odoc = build_expr(spec)
                except Exception as e:
                    self.fail('C13:parse-refused', f'Parser refused {spec["text"]!r}: {type(e).__name__}')
                    return self
                v_other = safe(lambda: o.value)
                if odoc is not None:
                    self.stats['attached'] += 1
            is_expr = spec['t'] in ('expr', 'alias')
            if is_expr:
                other_obs0 = observe(o)
                o_text0 = print_model(o)
                odoc_text0 = print_model(odoc) if odoc is not None else None
            inplace = st['form'] == 'inplace'
            try:
                r = getattr(x, DUNDER[(st['op'], st['form'])])(o)
            except Exception as e:
                changed = (print_model_safe(x) != x_text0 or (xdoc is not None and print_model_safe(xdoc) != xdoc_text0)
                           or (is_expr and (print_model_safe(o) != o_text0
                                            or (odoc is not None and print_model_safe(odoc) != odoc_text0))))
                if isinstance(e, ValueError):
                    self.fail(SIG_OPERAND, f'{where}: the operator refused its operand (ValueError)'
                              + (' after editing an operand or its document' if changed else ''))
                else:
                    self.fail('C13:op-raised', f'{where}: operator raised {type(e).__name__}')
                return self
            if r is NotImplemented:
                self.fail('C13:op-raised', f'{where}: operator returned NotImplemented')
                return self
            if v_self is None or v_other is None:
                expected = None
            elif st['form'] == 'refl':
                expected = safe(lambda: ARITH[st['op']](v_other, v_self))
            else:
                expected = safe(lambda: ARITH[st['op']](v_self, v_other))
            if expected is None:
                self.stats['undefined'] += 1
            self.monitor_result(where, r, expected)
            if inplace:
                if r is not x:
                    self.fail('C13:inplace-identity', f'{where}: in-place operator returned another object')
            else:
                self.monitor_unchanged(where, 'self', x, x_text0, xdoc, xdoc_text0)
                if is_expr:
                    self.monitor_unchanged(where, 'operand', o, o_text0, odoc, odoc_text0)
            try:
                ro, so = observe(r), observe(x)
                oo = None
                if is_expr:
                    try:
                        oo = observe(o)
                    except Malformed:
                        if not inplace:
                            raise
                        # in-place: not the property's business, but the model says "untouched": make it disagree
                        oo = ('', ('amul', ('matom', ('num', ''))), '')
                if print_model(r).count('(') > x_text0.count('(') + (o_text0.count('(') if is_expr else 0):
                    self.stats['wrapped'] += 1
                steps_coq.append(
                    f'StBin {COQ_OP[st["op"]]} {COQ_FORM[st["form"]]} {coq_operand(spec, other_obs0)} '
                    f'{coq_bool(spec["t"] == "alias")} 0 '
                    f'{coq_obs(ro)} {coq_obs(so)} {coq_opt(coq_obs(oo)) if oo is not None else "None"} '
                    f'{coq_term(term_of_text(print_model(r)))}')
            except (Malformed, ValueError) as e:
                if not any(s == SIG_OPERAND for s, _ in self.fails):
                    self.fail('C13:not-self-contained', f'{where}: {e}')
                ok_coq = False
                break
            x = r
            if not inplace:
                xdoc = None
            else:
                self.monitor_owner(where, x, xdoc)
        if ok_coq:
            self.coq = f'mkccase {coq_obs(self_obs0)} {coq_list(steps_coq)}'
        return self

    # -- evaluate - edit - evaluate -------------------------------------------------------------
    def edit_step(self, where, st, x) -> Optional[str]:
        I = impl()
        _, leaves, parens = nodes_and_leaves(x)
        if st['op'] == 'setvalue':
            d = Decimal(st['v'])
            x.value = d
            self.monitor_result(where, x, safe(lambda: scalar_value(d)))
            return (f'StSetValue (SExt {coq_bool(d < 0)} {coq_str(format(d.copy_abs(), "f"))}) 0 {coq_obs(observe(x))} '
                    f'{coq_term(term_of_text(print_model(x)))}')
        if st['op'] == 'replace_inner':
            if not parens:
                return None
            p = parens[st['which'] % len(parens)]
            p.raw_inner_expr = I['parser'].parse(st['text'], I['models'].NumberExpr).raw_number_add_expr
            self.monitor_result(where, x, None)
            return None
        editable = [i for i, (k, _) in enumerate(leaves) if k not in ('lp', 'rp')]
        i = editable[st['leaf'] % len(editable)]
        kind, tok = leaves[i]
        if kind == 'num':
            new = NUMS[st['new'] % len(NUMS)]
            if st['via'] == 'value':
                d = Decimal(new.replace(',', ''))
                tok.value = d
                new = format(d, 'f')
            else:
                tok.raw_text = new
            coq_tok = f'(TNum {coq_str(new)})'
        elif kind == 'mulop':
            new = '*/'[st['new'] % 2]
            tok.raw_text = new
            coq_tok = f'(TMulOp {coq_bool(new == "/")})'
        else:
            new = '+-'[st['new'] % 2]
            tok.raw_text = new
            coq_tok = f'({"TUn" if kind == "un" else "TAddOp"} {coq_bool(new == "-")})'
        self.stats['edits'] = self.stats.get('edits', 0) + 1
        self.monitor_result(where, x, None)
        return f'StEdit {i} {coq_tok} 0 {coq_obs(observe(x))} {coq_term(term_of_text(print_model(x)))}'

    def monitor_owner(self, where, x, xdoc):
        """posting.number / balance.number / amount.number of the owner = evaluation of the printed expression"""
        if xdoc is None:
            return
        try:
            v_text = safe(lambda: eval_term(term_of_text(print_model(x))))
        except Exception:
            return      # reported by monitor_result
        v_owner = safe(lambda: OWNER_NUMBER[self.chain['self']['doc']](xdoc))
        if v_text is not None and v_owner is not None and v_owner != v_text:
            self.fail('C13:printed-text-other-value',
                      f'{where}: the owner\'s .number is {v_owner} but the expression prints {print_model(x)!r} = {v_text}')

    # -- monitors -------------------------------------------------------------------------------
    def monitor_result(self, where, r, expected):
        I = impl()
        try:
            observe(r)
        except Malformed as e:
            self.fail('C13:not-self-contained', f'{where}: result is not a tree over its own store: {e}')
            return
        try:
            text = print_model(r)
        except Exception as e:
            self.fail('C13:not-self-contained', f'{where}: result cannot be printed: {type(e).__name__}')
            return
        v_impl = safe(lambda: r.value)
        try:
            v_text = safe(lambda: eval_term(term_of_text(text)))
        except ValueError as e:
            self.fail('C13:printed-text-not-an-expression', f'{where}: printed text {text!r} is not an expression ({e})')
            return
        if expected is not None and v_impl != expected:
            self.fail('C13:value-not-arithmetic', f'{where}: .value is {v_impl}, the arithmetic result is {expected} ({text!r})')
        if expected is not None and v_text != expected:
            self.fail('C13:printed-text-other-value',
                      f'{where}: printed text {text!r} evaluates to {v_text}, the arithmetic result is {expected}')
        elif v_impl is not None and v_text is not None and v_impl != v_text:
            self.fail('C13:printed-text-other-value', f'{where}: printed text {text!r} evaluates to {v_text}, .value is {v_impl}')
        try:
            again = I['parser'].parse(text, I['models'].NumberExpr)
        except Exception as e:
            self.fail('C13:printed-text-not-an-expression', f'{where}: printed text {text!r} does not re-parse: {type(e).__name__}')
            return
        v_again = safe(lambda: again.value)
        if v_impl is not None and v_again != v_impl:
            self.fail('C13:printed-text-other-value', f'{where}: printed text {text!r} re-parses to value {v_again}, .value is {v_impl}')

    def monitor_unchanged(self, where, who, node, text0, doc, doc_text0):
        t = print_model_safe(node)
        if t != text0:
            self.fail(SIG_OPERAND, f'{where}: non-in-place operator changed {who}: printed {text0!r} before, {t!r} after')
            return
        if doc is not None:
            d = print_model_safe(doc)
            if d != doc_text0:
                self.fail(SIG_OPERAND, f'{where}: non-in-place operator changed the document {who} belongs to: '
                                       f'{doc_text0!r} -> {d!r}')
                return
        try:
            observe(node)
        except Malformed as e:
            self.fail(SIG_OPERAND, f'{where}: non-in-place operator left {who} damaged: {e}')


def print_model_safe(m) -> str:
    try:
        return print_model(m)
    except Exception as e:
        return f'<unprintable: {type(e).__name__}>'


# ------------------------------------------------------------------------------------------------
def parse_case(text: str):
    """-> (coq case or None, monitor failures)"""
    I = impl()
    fails = []
    try:
        e = I['parser'].parse(text, I['models'].NumberExpr)
    except Exception as ex:
        return None, [('C13:parse-refused', f'Parser refused {text!r}: {type(ex).__name__}')], None
    term = term_of_text(text)
    v_text = safe(lambda: eval_term(term))
    v_impl = safe(lambda: e.value)
    if v_text != v_impl:
        fails.append(('C13:parsed-value', f'{text!r}: .value is {v_impl}, usual precedence/associativity gives {v_text}'))
    if print_model(e) != text:
        fails.append(('C13:parse-print', f'{text!r} prints as {print_model(e)!r}'))
    try:
        pre, tree, post = observe(e)
    except Malformed as ex:
        return None, fails + [('C13:not-self-contained', f'{text!r}: {ex}')], None
    if pre or post:
        fails.append(('C13:not-self-contained', f'{text!r}: store has text outside the expression'))
    coq = f'mkpcase {coq_str(text)} {coq_lexemes(text)} {coq_tree(tree)} {coq_term(term)}'
    return coq, fails, tree


FIXED_TEXTS = ['1', '1+2', '1-2-3', '2*3/4*5', '1+2*3', '(1+2)*3', '-(1+2)', '--1', '+-+1', '1 - -1', '1--1',
               '12 +\t34', '((1))', '-1*-2', '1/(2/3)', '1-(2-3)', '1 + 2 * (3 - 4) / -5', '1,234.5*2', '( 1 )']

CORPUS = [
    # evaluate - edit - evaluate: a literal / an operator inside parentheses, free and attached (after `*=`)
    {'self': {'t': 'expr', 'text': '10 * (2 + 3) - 4', 'doc': None},
     'steps': [{'op': 'edit', 'leaf': 5, 'new': 15, 'via': 'value'}, {'op': 'edit', 'leaf': 6, 'new': 0, 'via': 'text'},
               {'op': 'setvalue', 'v': '-12.50'}]},
    {'self': {'t': 'expr', 'text': '2 + 3', 'doc': 0},
     'steps': [{'op': 'mul', 'form': 'inplace', 'operand': {'t': 'int', 'v': 10}},
               {'op': 'edit', 'leaf': 2, 'new': 15, 'via': 'text'},
               {'op': 'sub', 'form': 'plain', 'operand': {'t': 'int', 'v': 1}}]},
    {'self': {'t': 'expr', 'text': '1 + (2 - 3)', 'doc': 1},
     'steps': [{'op': 'replace_inner', 'which': 0, 'text': '4 * 5 + 6'}]},
    {'self': {'t': 'expr', 'text': '1+2', 'doc': None},
     'steps': [{'op': 'add', 'form': 'plain', 'operand': {'t': 'expr', 'text': '3 * 4', 'doc': None}}]},
    {'self': {'t': 'expr', 'text': '7', 'doc': None},
     'steps': [{'op': 'mul', 'form': 'refl', 'operand': {'t': 'int', 'v': 5}},
               {'op': 'mul', 'form': 'plain', 'operand': {'t': 'expr', 'text': '10 + 2', 'doc': 0}}]},
    {'self': {'t': 'expr', 'text': '10 + 2', 'doc': 0},
     'steps': [{'op': 'mul', 'form': 'refl', 'operand': {'t': 'int', 'v': 5}}]},
    {'self': {'t': 'expr', 'text': '7', 'doc': None},
     'steps': [{'op': 'add', 'form': 'inplace', 'operand': {'t': 'expr', 'text': '10 + 2', 'doc': 0}}]},
    {'self': {'t': 'expr', 'text': '10 + 2', 'doc': 0},
     'steps': [{'op': 'add', 'form': 'inplace', 'operand': {'t': 'int', 'v': 1}},
               {'op': 'mul', 'form': 'inplace', 'operand': {'t': 'dec', 'v': '-0.75'}}]},
    {'self': {'t': 'expr', 'text': '1+2', 'doc': None},
     'steps': [{'op': 'sub', 'form': 'plain', 'operand': {'t': 'alias'}}, {'op': 'neg'},
               {'op': 'div', 'form': 'refl', 'operand': {'t': 'dec', 'v': '12.50'}}]},
    {'self': {'t': 'expr', 'text': '2*3', 'doc': None},
     'steps': [{'op': 'div', 'form': 'plain', 'operand': {'t': 'expr', 'text': '4*5', 'doc': None}},
               {'op': 'sub', 'form': 'refl', 'operand': {'t': 'expr', 'text': '1-1', 'doc': 1}}]},
]


def run_parse(ctx, n: int):
    cases, texts = [], []
    todo = list(FIXED_TEXTS) + [gen_expr(ctx.rng, ctx.rng.choice([1, 2, 2, 3, 4])) for _ in range(n)]
    for text in todo:
        coq, fails, tree = parse_case(text)
        st = tree_stats(tree) if tree is not None else {}
        ctx.case({'kind': 'parse', 'text': text[:60]},
                 nontrivial=bool(st) and (st['aop'] + st['mop'] >= 1 and st['paren'] + st['un'] + st['aop'] * st['mop'] >= 1))
        for k in ('paren', 'un', 'mop', 'aop'):
            if st.get(k):
                ctx.dist('parse:has_' + k)
        ctx.dist(f'parse:len<={min(8, len(text) // 10 + 1) * 10}')
        for sig, what in fails:
            if sig == 'C13:parse-refused':
                ctx.count('parser_refused_generated_text')
                ctx.notes.append(what)
            else:
                ctx.monitor_failure(sig, what, {'kind': 'parse', 'text': text})
        if coq is not None:
            cases.append(coq)
            texts.append(text)
    bad = ctx.run_coq_cases('parse', PREAMBLE, 'pcase', 'check_pcase', cases, chunk=80)
    ctx.count('traces_validated_against_impl', len(cases) - len(bad))
    for i in bad[:3]:
        ctx.fail('corr', 'numexpr-parse-correspondence',
                 'NumExpr.v (parse_top / re / vadd / eval_top) and the real parser disagree on a text',
                 {'kind': 'parse', 'text': texts[i]})


def run_chains(ctx, n: int):
    chains = [copy.deepcopy(c) for c in CORPUS] + [gen_chain(ctx.rng) for _ in range(n)]
    cases, metas = [], []
    for ch in chains:
        cr = ChainRun(ch).run()
        ops = [s['op'] + ':' + s.get('form', '') + ':' + (s.get('operand') or {}).get('t', '') for s in ch['steps']]
        ctx.case({'kind': 'chain', 'self': ch['self']['text'][:40], 'self_doc': ch['self']['doc'], 'ops': ops},
                 nontrivial=cr.stats['wrapped'] > 0 or cr.stats['attached'] > 0 or ch['self']['doc'] is not None)
        for o in ops:
            ctx.dist('step=' + o)
        ctx.dist(f'chain_len={len(ch["steps"])}')
        if ch['self']['doc'] is not None:
            ctx.dist('self_attached')
        ctx.count('impl_steps', cr.stats['steps'])
        ctx.count('results_with_parentheses', cr.stats['wrapped'])
        ctx.count('attached_operands', cr.stats['attached'])
        ctx.count('token_edits_after_evaluation', cr.stats.get('edits', 0))
        ctx.count('undefined_arithmetic_skipped', cr.stats['undefined'])
        flagged = False
        for sig, what in cr.fails:
            if sig == 'C13:parse-refused':
                ctx.count('parser_refused_generated_text')
                ctx.notes.append(what)
            else:
                flagged = True
                ctx.monitor_failure(sig, what, {'kind': 'chain', 'chain': shrink_chain(ch, sig)})
        if cr.coq is not None and not flagged:
            cases.append(cr.coq)
            metas.append(ch)
    bad = ctx.run_coq_cases('chain', PREAMBLE, 'ccase', 'check_ccase', cases, chunk=40)
    ctx.count('traces_validated_against_impl', len(cases) - len(bad))
    for i in bad[:3]:
        ctx.fail('corr', 'numexpr-operator-correspondence',
                 'NumExpr.v (dunder / dunder_unary) and number_expr.py disagree on the result, self or operand '
                 'after an operator chain', {'kind': 'chain', 'chain': shrink_corr(ctx, metas[i])})


def shrink_chain(ch: dict, sig: str) -> dict:
    """shortest prefix, then shortest suffix-start, of the chain that still fails with the same signature"""
    def fails(c):
        try:
            return any(s == sig for s, _ in ChainRun(c).run().fails)
        except Exception:
            return False
    best = ch
    for k in range(1, len(ch['steps']) + 1):
        c = {'self': ch['self'], 'steps': ch['steps'][:k]}
        if fails(c):
            best = c
            break
    while len(best['steps']) > 1:
        c = {'self': best['self'], 'steps': best['steps'][1:]}
        if fails(c):
            best = c
        else:
            break
    return best


def shrink_corr(ctx, ch: dict) -> dict:
    cands = [{'self': ch['self'], 'steps': ch['steps'][:k]} for k in range(1, len(ch['steps']) + 1)]
    runs = [ChainRun(c).run() for c in cands]
    idx = [i for i, r in enumerate(runs) if r.coq is not None]
    if not idx:
        return ch
    bad = ctx.run_coq_cases('shrink', PREAMBLE, 'ccase', 'check_ccase', [runs[i].coq for i in idx], chunk=40)
    return cands[idx[bad[0]]] if bad else ch


# ------------------------------------------------------------------------------------------------
def body(ctx):
    check_tie(ctx)
    run_parse(ctx, ctx.scale(600, 5000))
    run_chains(ctx, ctx.scale(900, 8000))
    for d in DECS:
        scalar_value(Decimal(d))
    for d in sorted(set(DECIMAL_LAW_FAILURES))[:3]:
        ctx.fail('tie', 'decimal-law', "CPython's decimal does not satisfy a carrier law assumed by C13_from_value_exact "
                 "(Decimal(format(|d|,'f')) == |d|, |d|.copy_negate() == d for d < 0, |d| == d otherwise)", {'d': d})
    ctx.count('decimal_laws_validated_on_scalars', len(DECS))


def run(ctx: common.Ctx):
    ctx.rule = ('(a) expression texts generated from the grammar (depth <= 4, 0-3 operators per level, random '
                'whitespace incl. tabs, numbers with commas/decimal points) parsed by the real Parser; non-trivial when '
                'the tree mixes levels (binary operator plus parenthesis/unary/other-level operator); (b) chains of 1-4 '
                'operator applications (4 binary x plain/reflected/in-place x int/Decimal/free/attached/aliased '
                'expression, unary +/-) on a free or attached expression; non-trivial when a parenthesis was added or '
                'an operand/self is attached to a parsed file; distinct by (text, operator list)')
    ctx.assumptions += [
        "Python's decimal implements the arithmetic (the theorems are parametric in the carrier and use no law of it)",
        'lark tokenizes the characters of an expression into NUMBER / operators / parentheses / whitespace as the '
        "harness' regular-expression tokenizer does (compared on every generated text)",
        "format(d.copy_abs(), 'f') is how decimal spells an int/Decimal operand in plain notation (Decimal('1E+3') -> '1000', "
        "Decimal('1E-7') -> '0.0000001'); compared with what Number.from_value wrote on every scalar operand",
        "carrier laws of C13_from_value_exact (plain-notation round trip of |d|, copy_negate(copy_abs(d)) == d for "
        "d < 0, copy_abs(d) == d otherwise) are validated against CPython's decimal on every scalar operand used",
        'the operand copy of fixes/number-expr-operand-copy.patch is applied (without it the check reports '
        + SIG_OPERAND + ')',
    ]
    ctx.require_coq(['properties/C13'], extra_targets=['NumExprRun'])
    body(ctx)


def search(ctx: common.Ctx):
    body(ctx)


def replay(ctx, path):
    data = json.loads(open(path).read())
    f = data.get('failure') or (data.get('what_no_longer_checks') or [{}])[0]
    w = f.get('witness') or {}
    rc = 0
    if w.get('kind') == 'parse':
        coq, fails, _ = parse_case(w['text'])
        for sig, what in fails:
            print('monitor:', sig, what)
            rc = 1
        if coq is not None:
            bad = ctx.run_coq_cases('replay', PREAMBLE, 'pcase', 'check_pcase', [coq])
            print('model/implementation agree' if not bad else 'model/implementation DISAGREE')
            rc = rc or (1 if bad else 0)
        return rc
    if w.get('kind') == 'chain':
        cr = ChainRun(w['chain']).run()
        for sig, what in cr.fails:
            print('monitor:', sig, what)
            rc = 1
        if cr.coq is not None:
            bad = ctx.run_coq_cases('replay', PREAMBLE, 'ccase', 'check_ccase', [cr.coq])
            print('model/implementation agree' if not bad else 'model/implementation DISAGREE')
            rc = rc or (1 if bad else 0)
        return rc
    print(json.dumps(f, indent=1))
    return 1
