"""C11 - see DESIGN.md §7. Monitors in doc_checks.py; theorems in coq/theories/properties/C11.v."""
from harness import common, doc_checks, tree_check


def run(ctx: common.Ctx):
    tree_check.setup(ctx, 'C11')
    doc_checks.run_c11(ctx)
    doc_checks.run_c11_comment_handover(ctx)
    tree_check.correspondence(ctx, 'C11')


def search(ctx: common.Ctx):
    doc_checks.run_c11(ctx)
    doc_checks.run_c11_comment_handover(ctx)


def replay(ctx, path):
    return tree_check.replay(ctx, path, 'C11')
