"""C14 - every block comment has at most one owner, chosen by the documented rules.
(also the shared driver of C04: both properties are about Comments.v)

Driver: generated ledgers with comment blocks in every position -> parse with auto_claim_comments True/False ->
seeded sequences of claim/unclaim/auto-claim calls on every model.  Every *primitive* call the implementation
makes (`_claim_comment`, `_CommentClaimer.claim`, `unclaim_*`) is logged with its arguments, its result and the
store after it; the Coq model (Comments.v) replays the same calls from its own threaded state (CommentsRun.v).
Monitors evaluate the statements of C04 / C14 on the implementation itself.
"""
from __future__ import annotations

import copy
import io
import json

from harness import common

PREAMBLE = 'From AB Require Import Prelude Comments CommentsRun.'
KINDS = {'Placeholder': 'KPlaceholder', 'Newline': 'KNewline', 'Whitespace': 'KWhitespace', 'Indent': 'KIndent',
         'Eol': 'KEol', 'BlockComment': 'KBlockComment'}
D13 = 'C14:rule:indent-class'
EMPTY_POSTINGS = 'C14:rule:empty-postings-claim-first'


def _imp():
    from autobean_refactor import parser, printer, models, token_store
    from autobean_refactor.models import base
    from autobean_refactor.models.internal import surrounding_comments as sc, interleaving_comments as ic
    from autobean_refactor.models.internal.repeated import Repeated
    return parser, printer, models, token_store, base, sc, ic, Repeated


_PARSER = None


def get_parser():
    global _PARSER
    if _PARSER is None:
        _PARSER = _imp()[0].Parser()
    return _PARSER


def print_text(m) -> str:
    return _imp()[1].print_model(m, io.StringIO()).getvalue()


# ---------------------------------------------------------------------------------------------
# layout generator: a ledger is a list of lines; the oracle for the attribution rule works on the lines
def gen_lines(rng, n_top: int):
    """Returns lines: dicts {t: 'blank'|'comment'|'model', ind: bool, text, [level, meta_ok, post_ok]}"""
    lines = []
    acct = 0

    def comment(ind):
        k = rng.choice([1, 1, 1, 2])
        indent = '' if not ind else rng.choice(['  ', '    ', '\t', ' '])
        for i in range(k):
            ind_i = indent if i == 0 or not ind else rng.choice([indent, '  ', '      '])
            body = rng.choice(['; c%d' % len(lines), ';x', ';', '; a ; b'])
            lines.append({'t': 'comment', 'ind': ind, 'text': ind_i + body})

    def amount():
        # compound number expressions too (the read-only sweep does non-in-place arithmetic on them); no rng draw
        return ['1', '12.50 + 7.25', '1', '2 * 3', '1', '5 - 1 - 1'][len(lines) % 6]

    def body(kind):
        # indented lines after a directive that accepts metadata (and postings for a transaction)
        n = rng.choice([0, 0, 1, 2, 3, 4])
        stage = 0  # 0: meta, 1: postings
        in_posting = False
        if kind == 'txn' and rng.random() < 0.25:
            # a comment between the last meta item and the first posting (the postings' placeholder sits there)
            lines.append({'t': 'model', 'ind': True, 'level': 1, 'text': '  k%sx: 1' % rng.choice('abc')})
            comment(True)
            lines.append({'t': 'model', 'ind': True, 'level': 1, 'text': '  Assets:A%d %s USD' % (rng.randrange(3), amount())})
            stage = 1
            in_posting = True
        for _ in range(n):
            r = rng.random()
            if r < 0.35:
                comment(True)
            elif r < 0.55 and stage == 0:
                lines.append({'t': 'model', 'ind': True, 'level': 1, 'text': '  k%sx: 1' % rng.choice('abc')})
            elif kind == 'txn' and r < 0.85:
                stage = 1
                in_posting = True
                lines.append({'t': 'model', 'ind': True, 'level': 1,
                              'text': rng.choice(['  ', '    ']) + 'Assets:A%d %s USD' % (rng.randrange(3), amount())})
            elif in_posting:
                lines.append({'t': 'model', 'ind': True, 'level': 2, 'text': '      m%sy: 2' % rng.choice('abc')})
            else:
                comment(True)

    for _ in range(n_top):
        r = rng.random()
        if r < 0.22:
            lines.append({'t': 'blank', 'ind': False, 'text': rng.choice(['', '', '  '])})
        elif r < 0.42:
            comment(False)
        elif r < 0.50:
            comment(True)          # an indented comment at top level (the D13 layouts)
        else:
            acct += 1
            kind = rng.choice(['open', 'close', 'txn', 'txn', 'option', 'pushtag', 'include'])
            inline = rng.choice(['', '', ' ; inl'])
            if kind == 'open':
                text = '2000-01-01 open Assets:A%d' % acct
            elif kind == 'close':
                text = '2000-01-02 close Assets:A%d' % acct
            elif kind == 'txn':
                text = '2000-01-03 *' + rng.choice(['', ' "n"', ' "p" "n" #t'])
            elif kind == 'option':
                text = 'option "k" "v"'
            elif kind == 'pushtag':
                text = 'pushtag #t%d' % acct
            else:
                text = 'include "f%d"' % acct
            lines.append({'t': 'model', 'ind': False, 'level': 0, 'text': text + inline,
                          'body_ok': kind in ('open', 'close', 'txn')})
            if kind in ('open', 'close', 'txn') and rng.random() < 0.7:
                body(kind)
    return lines


def render(lines, crlf: bool, final_nl: bool) -> str:
    nl = '\r\n' if crlf else '\n'
    s = nl.join(l['text'] for l in lines)
    return s + (nl if final_nl else '')


def expected_attribution(lines):
    """The documented rule as a function of the line layout.
    Returns {first line of comment block: ('lead', model line) | ('trail', model line) | ('standalone',)}.
    A model's extent: its first line plus (if it accepts an indented body) the following run of indented lines;
    a posting extends over the following level-2 meta lines; a meta line is one line."""
    n = len(lines)
    # comment blocks: maximal runs of comment lines of the same indentation class
    blocks = []
    i = 0
    while i < n:
        if lines[i]['t'] == 'comment':
            j = i
            while j + 1 < n and lines[j + 1]['t'] == 'comment' and lines[j + 1]['ind'] == lines[i]['ind']:
                j += 1
            blocks.append((i, j))
            i = j + 1
        else:
            i += 1
    # model extents
    ends = {}      # last line -> list of (start line, ind) outermost first
    models = []
    for i, l in enumerate(lines):
        if l['t'] != 'model':
            continue
        e = i
        if l['level'] == 0 and l.get('body_ok'):
            while e + 1 < n and lines[e + 1]['t'] != 'blank' and lines[e + 1]['ind']:
                e += 1
        elif l['level'] == 1 and 'Assets' in l['text']:
            while e + 1 < n and lines[e + 1]['t'] == 'model' and lines[e + 1].get('level') == 2:
                e += 1
            # comments between a posting and its own meta belong to the posting's extent only if a meta follows -
            # again and again (meta, comments, meta, comments, meta ...: the posting ends with its LAST meta line)
            while True:
                k = e
                while k + 1 < n and lines[k + 1]['t'] == 'comment' and lines[k + 1]['ind']:
                    k += 1
                if k > e and k + 1 < n and lines[k + 1]['t'] == 'model' and lines[k + 1].get('level') == 2:
                    e = k + 1
                    while e + 1 < n and ((lines[e + 1]['t'] == 'model' and lines[e + 1].get('level') == 2)):
                        e += 1
                else:
                    break
        models.append((i, e, l['ind']))
    for s, e, ind in sorted(models):
        ends.setdefault(e, []).append((s, ind))
    out = {}
    NEIGHBOURS.clear()
    for (a, b) in blocks:
        ind = lines[a]['ind']
        below = lines[b + 1] if b + 1 < n else None
        cands = [s for (s, mind) in ends.get(a - 1, []) if mind == ind] if a > 0 else []
        # both neighbours the rule allows (hand-over histories), and a neighbour of the other class below
        NEIGHBOURS[a] = {
            'below': b + 1 if below is not None and below['t'] == 'model' and below['ind'] == ind else None,
            'below_other': b + 1 if below is not None and below['t'] == 'model' and below['ind'] != ind else None,
            'above': min(cands) if cands else None}
        if below is not None and below['t'] == 'model' and below['ind'] == ind:
            out[a] = ('lead', b + 1)
            continue
        if cands:
            out[a] = ('trail', min(cands))
            continue
        out[a] = ('standalone',)
    return out, blocks


NEIGHBOURS: dict = {}     # filled by expected_attribution for the layout it was last called on


def ambiguous_lines(lines):
    """paragraphs in which an unindented comment is directly followed by an indented line: whether the directive
    above extends over both is not fixed by the documented rule"""
    amb = set()
    for i in range(len(lines) - 1):
        if lines[i]['t'] == 'comment' and not lines[i]['ind'] and lines[i + 1]['ind'] and lines[i + 1]['t'] != 'blank':
            lo = i
            while lo > 0 and lines[lo - 1]['t'] != 'blank':
                lo -= 1
            hi = i
            while hi + 1 < len(lines) and lines[hi + 1]['t'] != 'blank':
                hi += 1
            amb.update(range(lo, hi + 1))
    return amb


def run_handover(doc, spec):
    """Hand-over history for one comment: the two models the documented rule allows as owners (directly below /
    directly above, same indentation class) claim and release it in turn, with a detour through a standalone
    entry, for `rounds` rounds.  Runs under the caller's Tap (primitives go to doc.log).
    Returns the list of monitor messages: every claim in the rounds must return the comment, every
    unclaim -> claim pair must restore the previous owner, a neighbour of the other class must get None."""
    _, _, models, _, _, sc, ic, Repeated = _imp()
    store = doc.file.token_store
    line_of = lambda t: store.get_position(t).line
    com = [t for t in store if isinstance(t, models.BlockComment) and line_of(t) == spec['a']]
    if not com:
        return []
    c = com[0]
    by_line = {}
    for path, m in doc.nodes():
        if has_surrounding(m) and own_start_token(m) is not None:
            by_line[line_of(own_start_token(m))] = m
    below = by_line.get(spec['below']) if spec['below'] is not None else None
    above = by_line.get(spec['above']) if spec['above'] is not None else None
    other = by_line.get(spec['below_other']) if spec.get('below_other') is not None else None
    msgs = []
    if c.claimed:
        return msgs

    def wrappers():
        out = []
        for path, m, name in doc.targets()[1]:
            w = getattr(m, name, None)
            if w is not None:
                out.append((path, w))
        return out

    def claim(m, which, why):
        f = m.claim_leading_comment if which == 'lead' else m.claim_trailing_comment
        try:
            r = f()
        except Exception as e:
            msgs.append(f'{why}: claim_{which}ing_comment raised {type(e).__name__}: {e}')
            return False
        if r is not c:
            msgs.append(f'{why}: claim_{which}ing_comment returned {r!r} instead of the adjacent comment')
            return False
        return True

    def unclaim(m, which):
        k0 = len(doc.log)
        r = (m.unclaim_leading_comment if which == 'lead' else m.unclaim_trailing_comment)()
        return r, k0

    if other is not None and other is not below:
        r = other.claim_leading_comment()
        if r is not None:
            msgs.append('a model of the other indentation class directly below claimed the comment as its '
                        'leading comment')
            other.unclaim_leading_comment()
    owners = [(m, w) for m, w in ((below, 'lead'), (above, 'trail')) if m is not None]
    if spec.get('first') == 'above':
        owners.reverse()
    for rnd in range(spec['rounds']):
        for m, which in owners:
            if not claim(m, which, f'round {rnd}'):
                return msgs
            # unclaim -> claim restores the owner
            r, k0 = unclaim(m, which)
            if r is not c:
                msgs.append(f'round {rnd}: unclaim_{which}ing_comment returned {r!r}')
                return msgs
            if not claim(m, which, f'round {rnd}, unclaim followed by claim'):
                return msgs
            if k0 < len(doc.log) and doc.log[k0]['op'] == 'unclaim':
                doc.log[k0]['mode'] = 2
            unclaim(m, which)
        if spec.get('detour'):
            done = False
            for path, w in wrappers():
                try:
                    got = w.claim_interleaving_comments([c])
                except ValueError:
                    continue
                if len(got) and any(x is c for x in got):
                    done = True
                    if not c.claimed:
                        msgs.append(f'round {rnd}: standalone claim through {path} did not set the claimed flag')
                    try:
                        w.unclaim_interleaving_comments([c])
                    except Exception as e:
                        msgs.append(f'round {rnd}: unclaiming the standalone entry raised {type(e).__name__}: {e}')
                        return msgs
                    break
            if not done and owners:
                msgs.append(f'round {rnd}: no repeated field accepted the comment as a standalone entry')
                return msgs
    return msgs



# ---------------------------------------------------------------------------------------------
# observation through the public API only (private names of the implementation may change freely)
SUR_CALLS = ('claim_leading_comment', 'claim_trailing_comment', 'unclaim_leading_comment', 'unclaim_trailing_comment')
INT_CALLS = ('claim_interleaving_comments', 'unclaim_interleaving_comments')


def has_surrounding(m) -> bool:
    return all(hasattr(m, n) for n in SUR_CALLS)


def lead_of(m):
    return getattr(m, 'raw_leading_comment', None)


def trail_of(m):
    return getattr(m, 'raw_trailing_comment', None)


def own_start_token(m):
    """first token of the model that is not its leading comment"""
    t = m.first_token
    lead = lead_of(m)
    if lead is not None and t is lead:
        store = m.token_store
        t = store.get_next(t)
        while t is not None and type(t).__name__ in ('Newline', 'Placeholder'):
            t = store.get_next(t)
    return t


def indented_of(tok) -> bool:
    """indentation class of the line that starts with this token"""
    if type(tok).__name__ == 'BlockComment':
        return bool(tok.indent)
    return type(tok).__name__ == 'Indent'


def owner_class(obj, name):
    for cls in type(obj).__mro__:
        if name in cls.__dict__:
            return cls
    return None


_PATCHED = None
_PATCH_CACHE: dict = {}
_WRAP_NAMES: dict = {}


def wrapper_names(ty) -> list[str]:
    """public attributes of a model class that may hold a repeated field with interleaving comments"""
    if ty not in _WRAP_NAMES:
        _WRAP_NAMES[ty] = [n for n in dir(ty) if n.startswith('raw_') and n.endswith('_with_comments')]
    return _WRAP_NAMES[ty]


def is_patched() -> bool:
    """does automatic/manual claiming compare indentation classes (the D13 repair)?  Decided by behaviour."""
    global _PATCHED
    if _PATCHED is None:
        models = _imp()[2]
        f = get_parser().parse('  ; ind\n2000-01-02 close Assets:A\n', models.File)
        _PATCHED = not any(lead_of(m) is not None for _p, m in Doc.walk(f) if has_surrounding(m))
    return _PATCHED


def private_observable() -> list[str]:
    """which private names the finer, primitive-level cross-check could use are missing (optional check)"""
    import inspect
    _, _, _, _, _, sc, ic, _ = _imp()
    missing = []
    f = getattr(sc, '_claim_comment', None)
    if f is None or not {'current', 'token_store', 'start', 'backwards', 'ignore_if_already_claimed'} <= \
            set(inspect.signature(f).parameters):
        missing.append('surrounding_comments._claim_comment(current, token_store, start, backwards, ...)')
    for n in ('_take_ignored',):
        if not hasattr(sc, n):
            missing.append('surrounding_comments.' + n)
    cl = getattr(ic, '_CommentClaimer', None)
    if cl is None or not all(hasattr(cl, n) for n in ('claim', '_find_inner', '_find_outer')):
        missing.append('interleaving_comments._CommentClaimer.{claim,_find_inner,_find_outer}')
    for n in ('_shift_ignored', '_Universe'):
        if not hasattr(ic, n):
            missing.append('interleaving_comments.' + n)
    return missing


# ---------------------------------------------------------------------------------------------
class Doc:
    """One parsed document plus everything needed to observe it."""

    def __init__(self, text: str, flag: bool, file=None):
        _, _, models, _, base, sc, ic, Repeated = _imp()
        self.text = text
        self.file = file if file is not None else get_parser().parse(text, models.File, auto_claim_comments=flag)
        self.ids: dict[int, int] = {}
        self.objs: list = []
        self.nids: dict[int, int] = {}
        self.nobjs: list = []
        for t in self.file.token_store:
            self.tid(t)
        self.log: list = []          # primitive calls of the current API call
        self.private_mismatch = 0
        self.parents: dict[int, object] = {}
        for _path, m in self.nodes():  # deterministic owner ids: tree order at parse time
            self.nid(m)
            if not isinstance(m, Repeated):
                for v in vars(m).values():
                    if isinstance(v, Repeated):
                        self.parents[id(v)] = m
        try:
            from harness import health
            health.prime(self.file)   # value / filtered views exist before the calls under test (reading is no edit)
        except Exception:
            pass
        # where the public comment calls are defined (patched for the duration of one API call)
        pts = {}
        for _path, m in self.nodes():
            if isinstance(m, Repeated):
                continue
            ty = type(m)
            if ty not in _PATCH_CACHE:
                found = []
                if has_surrounding(m):
                    for n in SUR_CALLS:
                        cls = owner_class(m, n)
                        if cls is not None:
                            found.append((cls, n))
                for name in wrapper_names(ty):
                    w = getattr(m, name, None)
                    for n in INT_CALLS:
                        cls = owner_class(w, n) if w is not None and hasattr(w, n) else None
                        if cls is not None:
                            found.append((cls, n))
                _PATCH_CACHE[ty] = found
            for k in _PATCH_CACHE[ty]:
                pts[k] = True
        self.patch_points = list(pts)

    def tid(self, t) -> int:
        k = id(t)
        if k not in self.ids:
            self.ids[k] = len(self.objs) + 1
            self.objs.append(t)
        return self.ids[k]

    def nid(self, m) -> int:
        """small stable id of a tree model / Repeated (slot owner in the ownership table)"""
        k = id(m)
        if k not in self.nids:
            self.nids[k] = len(self.nids) + 1
            self.nobjs.append(m)
        return self.nids[k]

    def table0(self):
        """ownership table as Comments.v's `table`: [(slot kind, owner id, [comment ids])], non-empty slots"""
        _, _, models, _, _, sc, _, Repeated = _imp()
        out = []
        for path, m in self.nodes():
            if isinstance(m, Repeated):
                cs = [self.tid(it) for it in m.items if isinstance(it, models.BlockComment)]
                if cs:
                    out.append(('SRep', self.nid(m), cs))
            elif has_surrounding(m):
                if lead_of(m) is not None:
                    out.append(('SLead', self.nid(m), [self.tid(lead_of(m))]))
                if trail_of(m) is not None:
                    out.append(('STrail', self.nid(m), [self.tid(trail_of(m))]))
        return out

    def tokens(self):
        return list(self.file.token_store)

    def snap(self):
        """(id, claimed) per token in store order"""
        return [(self.tid(t), bool(getattr(t, 'claimed', False))) for t in self.file.token_store]

    def full(self):
        return [(self.tid(t), type(t).__name__, t.raw_text, bool(getattr(t, 'claimed', False)))
                for t in self.file.token_store]

    # --- tree walk ---------------------------------------------------------------------------
    def nodes(self):
        return Doc.walk(self.file)

    @staticmethod
    def walk(root):
        """(path, model) for every tree model, Repeated included, in a deterministic order"""
        _, _, _, _, base, _, _, Repeated = _imp()
        out = []

        def walk(m, path):
            if isinstance(m, base.RawTokenModel):
                return
            out.append((path, m))
            if isinstance(m, Repeated):
                for i, it in enumerate(m.items):
                    walk(it, path + '[%d]' % i)
                return
            for k, v in vars(m).items():
                if k.startswith('_') and k != '_token_store' and isinstance(v, base.RawModel):
                    walk(v, path + '.' + k)
        walk(root, 'F')
        return out

    def ownership(self):
        """every reference to a BlockComment token from a slot: list of (comment id, slot path)"""
        _, _, models, _, base, _, _, Repeated = _imp()
        refs = []
        for path, m in self.nodes():
            if isinstance(m, Repeated):
                for i, it in enumerate(m.items):
                    if isinstance(it, models.BlockComment):
                        refs.append((self.tid(it), path + '[%d]' % i))
            else:
                for k, v in vars(m).items():
                    if k.startswith('_') and isinstance(v, models.BlockComment):
                        refs.append((self.tid(v), path + '.' + k))
        return refs

    def table(self):
        """ownership keyed by the comment's position among the store's comments (comparable across parses)"""
        _, _, models, _, _, _, _, _ = _imp()
        order = {self.tid(t): i for i, t in enumerate(t for t in self.file.token_store
                                                      if isinstance(t, models.BlockComment))}
        return sorted((order.get(c, -1), p) for c, p in self.ownership())

    def targets(self):
        """models with the surrounding-comment API and wrappers with the interleaving API"""
        _, _, _, _, _, sc, ic, Repeated = _imp()
        sur, wrap, allm = [], [], []
        for path, m in self.nodes():
            if isinstance(m, Repeated):
                continue
            allm.append((path, m))
            if has_surrounding(m):
                sur.append((path, m))
            for name in wrapper_names(type(m)):
                if hasattr(getattr(m, name, None), 'claim_interleaving_comments'):
                    wrap.append((path + '.' + name, m, name))
        return sur, wrap, allm


class Tap:
    """Logs every *public* comment call the implementation performs on the document (claim_/unclaim_
    leading/trailing/interleaving, also those made from inside auto_claim_comments): arguments, first/last tokens
    read through public properties, result, store and slot afterwards.  The classes that define these methods are
    patched for the duration of one API call; nothing private is needed.
    Optional finer cross-check: when `surrounding_comments._claim_comment` exists with the expected signature, the
    start token / indentation class it is called with are compared with the publicly derived ones."""

    def __init__(self, doc: Doc):
        self.doc = doc

    def __enter__(self):
        import inspect
        _, _, models, _, _, sc, ic, _ = _imp()
        d = self.doc
        store = d.file.token_store
        patched = is_patched()
        tap = self
        self.saved = []
        self.private = None

        def before_snap():
            return d.log[-1]['after'] if d.log and 'after' in d.log[-1] else d.snap()

        def slot_of(m, which):
            x = lead_of(m) if which == 'lead' else trail_of(m)
            return [d.tid(x)] if x is not None else []

        def items_of(rep):
            out = []
            for it in rep.items:
                isc = isinstance(it, models.BlockComment)
                out.append((isc, d.tid(it) if isc else 0, d.tid(it.first_token), d.tid(it.last_token)))
            return out

        def claim_method(which, orig):
            def f(self_, *a, **kw):
                if self_.token_store is not store:
                    return orig(self_, *a, **kw)
                ig = bool(kw.get('ignore_if_already_claimed', a[0] if a else False))
                cur = lead_of(self_) if which == 'lead' else trail_of(self_)
                start = self_.first_token if which == 'lead' else self_.last_token
                ind = indented_of(self_.first_token) if patched else None
                rec = {'op': 'claim', 'cur': d.tid(cur) if cur is not None else None, 'start': d.tid(start),
                       'bw': which == 'lead', 'ign': ig, 'ind': ind, 'before': before_snap(), 'n': d.nid(self_),
                       'which': which, 'mode': 0}
                tap.private = None
                try:
                    r = orig(self_, *a, **kw)
                    rec['exc'] = None
                    rec['ret'] = d.tid(r) if r is not None else None
                    return r
                except Exception as e:
                    rec['exc'] = common.exn_name(e)
                    rec['ret'] = None
                    raise
                finally:
                    rec['after'] = d.snap()
                    rec['slot_after'] = slot_of(self_, which)
                    p = tap.private
                    if p is not None and (p['start'] != rec['start'] or (patched and p['ind'] is not None
                                                                         and p['ind'] != ind)):
                        d.private_mismatch += 1
                    d.log.append(rec)
            return f

        def unclaim_method(which, orig):
            def f(self_):
                if self_.token_store is not store:
                    return orig(self_)
                cur = lead_of(self_) if which == 'lead' else trail_of(self_)
                rec = {'op': 'unclaim', 'which': which, 'cur': d.tid(cur) if cur is not None else None,
                       'before': before_snap(), 'n': d.nid(self_), 'mode': 0}
                r = orig(self_)
                rec['after'] = d.snap()
                rec['exc'] = None
                rec['ret'] = d.tid(r) if r is not None else None
                rec['slot_after'] = slot_of(self_, which)
                d.log.append(rec)
                return r
            return f

        def inter_method(kind, orig):
            def f(self_, comments=None):
                rep = getattr(self_, 'repeated', None)
                if rep is None or rep.token_store is not store:
                    return orig(self_, comments)
                comments = list(comments) if comments is not None else None
                flt = None if comments is None else [d.ids.get(id(c), 0) for c in comments]
                rec = {'items': items_of(rep), 'filter': flt, 'before': before_snap(), 'r': d.nid(rep), 'mode': 0}
                if kind == 'claim':
                    parent = d.parents.get(id(rep))
                    rec.update({'op': 'claimer', 'ph': d.tid(rep.first_token),
                                'mfirst': d.tid(parent.first_token) if parent is not None else 0,
                                'mlast': d.tid(parent.last_token) if parent is not None else 0})
                    if flt is not None:
                        rec['filter'] = sorted(set(flt))
                else:
                    rec['op'] = 'unclaim_inter'
                try:
                    r = orig(self_, comments)
                    rec['exc'] = None
                    rec['ret'] = [d.tid(c) for c in r]
                    return r
                except Exception as e:
                    rec['exc'] = common.exn_name(e)
                    rec['ret'] = []
                    raise
                finally:
                    rec['after'] = d.snap()
                    rec['items_after'] = [(a, b) for a, b, _, _ in items_of(rep)]
                    rec['slot_after'] = [b for a, b, _, _ in items_of(rep) if a]
                    d.log.append(rec)
            return f

        for cls, name in d.patch_points:
            orig = cls.__dict__[name]
            if name == 'claim_leading_comment':
                new = claim_method('lead', orig)
            elif name == 'claim_trailing_comment':
                new = claim_method('trail', orig)
            elif name == 'unclaim_leading_comment':
                new = unclaim_method('lead', orig)
            elif name == 'unclaim_trailing_comment':
                new = unclaim_method('trail', orig)
            elif name == 'claim_interleaving_comments':
                new = inter_method('claim', orig)
            else:
                new = inter_method('unclaim', orig)
            self.saved.append((cls, name, orig))
            setattr(cls, name, new)

        # optional: the private entry point of the surrounding claims, when it has the shape we know
        self.sc, self.orig_private = sc, None
        pf = getattr(sc, '_claim_comment', None)
        if pf is not None and {'current', 'token_store', 'start', 'backwards', 'ignore_if_already_claimed'} <= \
                set(inspect.signature(pf).parameters):
            self.orig_private = pf

            sig = inspect.signature(pf)

            def private_claim(*a, **kw):
                try:
                    b = sig.bind(*a, **kw)
                    if b.arguments.get('token_store') is store:
                        tap.private = {'start': d.tid(b.arguments['start']), 'ind': b.arguments.get('indented')}
                except Exception:
                    pass
                return pf(*a, **kw)
            sc._claim_comment = private_claim
        return self

    def __exit__(self, *a):
        for cls, name, orig in self.saved:
            setattr(cls, name, orig)
        if self.orig_private is not None:
            self.sc._claim_comment = self.orig_private
        return False



# ---------------------------------------------------------------------------------------------
# set-up edits (not under test): documents with several separate adjacent BlockComment tokens, made through the
# public editing API; the attribution histories then run on them
def path_of(doc, obj):
    for p, m in doc.nodes():
        if m is obj:
            return p
    return None


def edited_builder(kind):
    def build(doc, rng):
        """performs the set-up edits on doc, returns the attribution history (JSON ops) to run afterwards"""
        models = _imp()[2]
        same = rng.random() < 0.5
        texts = ['first note', 'first note' if same else 'second note', 'third']
        allm = [m for _p, m in doc.targets()[2]]

        def com(k, indent):
            return models.BlockComment.from_value(texts[k], indent=indent)

        if kind in ('meta_append', 'postings_front', 'both'):
            txs = [m for m in allm if hasattr(m, 'raw_meta_with_comments') and hasattr(m, 'raw_postings_with_comments')]
            if not txs:
                return None
            tx = rng.choice(txs)
            if kind in ('meta_append', 'both'):
                tx.raw_meta_with_comments.append(com(0, '    '))
                tx.raw_meta_with_comments.append(com(1, '    '))
            if kind in ('postings_front', 'both'):
                tx.raw_postings_with_comments.insert(0, com(1, '    '))
                tx.raw_postings_with_comments.insert(0, com(0, '    '))
            p = path_of(doc, tx)
            pm, pp = p + '.raw_meta_with_comments', p + '.raw_postings_with_comments'
            a, b = (pm, pp) if kind != 'postings_front' else (pp, pm)
            ops = []
            for _ in range(2):
                ops += [['unclaim_inter', a, None], ['claim_inter', b, None], ['unclaim_inter', b, None],
                        ['claim_inter', a, None]]
            sub = [q for q, m in doc.targets()[0] if q.startswith(p + '.')]
            for q in sub[:3]:
                ops += [['unclaim_inter', a, None], ['claim_leading', q, True], ['claim_trailing', q, True],
                        ['claim_inter', b, None], ['unclaim_leading', q, None], ['unclaim_trailing', q, None],
                        ['claim_inter', a, None]]
            return ops + [['auto2', p, None], ['auto2', 'F', None]]
        if kind == 'directive_meta':
            ds = [m for m in allm if hasattr(m, 'raw_meta_with_comments') and not hasattr(m, 'raw_postings_with_comments')
                  and has_surrounding(m) and not type(m).__name__ in ('Posting',)]
            if not ds:
                return None
            dm = rng.choice(ds)
            dm.raw_meta_with_comments.append(com(0, '    '))
            dm.raw_meta_with_comments.append(com(1, '    '))
            p = path_of(doc, dm)
            pm = p + '.raw_meta_with_comments'
            return [['unclaim_inter', pm, None], ['claim_inter', pm, None], ['unclaim_inter', pm, None],
                    ['claim_trailing', p, True], ['claim_inter', pm, None], ['unclaim_trailing', p, None],
                    ['claim_inter', pm, None], ['auto2', 'F', None]]
        if kind == 'file_ends':
            w = doc.file.raw_directives_with_comments
            w.insert(0, com(0, ''))
            w.insert(0, com(1, ''))
            w.append(com(1, ''))
            w.append(com(2, ''))
            pf = 'F.raw_directives_with_comments'
            ops = [['unclaim_inter', pf, None], ['claim_inter', pf, None]]
            sur = [q for q, m in doc.targets()[0] if q.count('.') == 1]
            for q in (sur[:1] + sur[-1:]):
                ops += [['unclaim_inter', pf, None], ['claim_leading', q, True], ['claim_trailing', q, True],
                        ['claim_inter', pf, None], ['unclaim_leading', q, None], ['unclaim_trailing', q, None],
                        ['claim_inter', pf, None]]
            return ops + [['auto2', 'F', None]]
        return None
    build.kind = kind
    return build


# ---------------------------------------------------------------------------------------------
# API calls (what a history is made of); every call is JSON so that a witness replays
def gen_ops(rng, doc: Doc, n_ops: int):
    ops = []
    sur, wrap, allm = doc.targets()
    n_com = sum(1 for t in doc.tokens() if type(t).__name__ == 'BlockComment')
    for _ in range(n_ops):
        r = rng.random()
        if r < 0.45 and sur:
            path = rng.choice(sur)[0]
            ops.append([rng.choice(['claim_leading', 'claim_trailing', 'claim_leading', 'claim_trailing',
                                    'unclaim_leading', 'unclaim_trailing', 'unclaim_leading', 'unclaim_trailing',
                                    'reclaim_leading', 'reclaim_trailing']),
                        path, rng.random() < 0.5])
        elif r < 0.8 and wrap:
            path = rng.choice(wrap)[0]
            sub = None if rng.random() < 0.5 or not n_com else \
                sorted(rng.sample(range(n_com), rng.randrange(1, min(3, n_com) + 1)))
            if sub is not None and rng.random() < 0.15:
                sub = []          # an empty selection (a filter that matched nothing) selects nothing - it is not "all"
            ops.append([rng.choice(['claim_inter', 'unclaim_inter', 'reclaim_inter']), path, sub])
        else:
            pool = allm if rng.random() < 0.6 else allm[:1]
            ops.append(['auto', rng.choice(pool)[0], None])
        if rng.random() < 0.15:
            ops.append(['auto2', rng.choice(allm)[0] if rng.random() < 0.5 else 'F', None])
    return ops


def resolve(doc: Doc, path: str):
    """path -> object (wrapper paths end in the property name)"""
    for p, m in doc.nodes():
        if p == path:
            return m
    if '.' in path:
        head, name = path.rsplit('.', 1)
        for p, m in doc.nodes():
            if p == head and not name.startswith('_'):
                return getattr(m, name, None)
    return None


def comments_by_index(doc: Doc, idxs):
    cs = [t for t in doc.tokens() if type(t).__name__ == 'BlockComment']
    return [cs[i] for i in idxs if i < len(cs)]


def mark_file_claim(doc: Doc, log, mode: int = 4):
    """k_mode 4 on the root File's own claim_interleaving_comments(), the last primitive of
    File.auto_claim_comments(): the hypothesis file_cover_b of C14_file_auto_claim_all_claimed / C14_idempotent_file
    (what the children left unclaimed lies in the File's range) is evaluated there"""
    if not log:
        return
    rec = log[-1]
    rep = getattr(getattr(doc.file, 'raw_directives_with_comments', None), 'repeated', None)
    if rec.get('op') == 'claimer' and rec.get('filter') is None and not rec.get('exc') and not rec.get('mode') \
            and rep is not None and rec.get('r') == doc.nid(rep):
        rec['mode'] = mode


def apply_op(doc: Doc, op):
    """Runs one API call under the tap. Returns (exception name or None, extra) ; doc.log holds the primitives."""
    name, path, arg = op
    doc.log = []
    extra = {}
    if name == 'handover':
        with Tap(doc):
            extra['handover'] = run_handover(doc, arg)
        return None, extra
    tgt = resolve(doc, path)
    need = {'claim_leading': 'claim_leading_comment', 'claim_trailing': 'claim_trailing_comment',
            'unclaim_leading': 'unclaim_leading_comment', 'unclaim_trailing': 'unclaim_trailing_comment',
            'reclaim_leading': 'claim_leading_comment', 'reclaim_trailing': 'claim_trailing_comment',
            'claim_inter': 'claim_interleaving_comments', 'unclaim_inter': 'unclaim_interleaving_comments',
            'reclaim_inter': 'claim_interleaving_comments', 'auto': 'auto_claim_comments',
            'auto2': 'auto_claim_comments', 'assign': 'claim_leading_comment'}[name]
    if tgt is None or not hasattr(tgt, need):
        return 'skip', extra
    exc = None
    with Tap(doc):
        try:
            if name == 'claim_leading':
                tgt.claim_leading_comment(ignore_if_already_claimed=bool(arg))
            elif name == 'claim_trailing':
                tgt.claim_trailing_comment(ignore_if_already_claimed=bool(arg))
            elif name == 'unclaim_leading':
                tgt.unclaim_leading_comment()
            elif name == 'unclaim_trailing':
                tgt.unclaim_trailing_comment()
            elif name in ('reclaim_leading', 'reclaim_trailing'):
                # C14: unclaim followed by claim restores the attribution
                un, cl = ((tgt.unclaim_leading_comment, tgt.claim_leading_comment) if name == 'reclaim_leading'
                          else (tgt.unclaim_trailing_comment, tgt.claim_trailing_comment))
                before = doc.table()
                k0 = len(doc.log)
                c = un()
                if c is not None:
                    cl()
                    extra['restore'] = (before, doc.table())
                    if len(doc.log) > k0 and doc.log[k0]['op'] == 'unclaim':
                        doc.log[k0]['mode'] = 2      # hypothesis of the restore theorem is evaluated here
            elif name == 'claim_inter':
                before = doc.table() if arg == [] else None
                tgt.claim_interleaving_comments(None if arg is None else comments_by_index(doc, arg))
                if before is not None:
                    extra['empty_selection'] = (before, doc.table())
            elif name == 'unclaim_inter':
                before = doc.table() if arg == [] else None
                tgt.unclaim_interleaving_comments(None if arg is None else comments_by_index(doc, arg))
                if before is not None:
                    extra['empty_selection'] = (before, doc.table())
            elif name == 'reclaim_inter':
                mine = [it for it in tgt if type(it).__name__ == 'BlockComment']
                if arg is not None:
                    pick = set(id(c) for c in comments_by_index(doc, arg))
                    mine = [c for c in mine if id(c) in pick]
                if mine:
                    before = doc.table()
                    k0 = len(doc.log)
                    u = tgt.unclaim_interleaving_comments(mine)
                    tgt.claim_interleaving_comments(u)
                    extra['restore'] = (before, doc.table())
                    if len(doc.log) == k0 + 2 and doc.log[k0]['op'] == 'unclaim_inter' \
                            and doc.log[k0 + 1]['op'] == 'claimer' and not doc.log[k0 + 1]['exc']:
                        doc.log[k0]['mode'] = 3      # hypotheses of the interleaving restore theorem
            elif name == 'assign':
                # node-level assignment: a deep copy of an unowned comment becomes tgt's leading comment
                cs = comments_by_index(doc, [arg['src']])
                if cs and not cs[0].claimed and lead_of(tgt) is None:
                    before = doc.snap()
                    seen = {i for i, _ in before}
                    cc = copy.deepcopy(cs[0])
                    tgt.raw_leading_comment = cc
                    extra['edited'] = True
                    full = doc.full()
                    ids_after = [i for (i, _, _, _) in full]
                    new = [(i, k, x) for (i, k, x, _) in full if i not in seen]
                    k0 = ids_after.index(new[0][0]) if new else 0
                    if not new or ids_after[k0:k0 + len(new)] != [i for i, _, _ in new] or \
                            [i for i in ids_after if i in seen] != [i for i, _ in before]:
                        extra['unmodelled'] = True
                    doc.log.append({'op': 'attach', 'slot': ('SLead', doc.nid(tgt)), 'pos': 0,
                                    'after_tok': ids_after[k0 - 1] if k0 > 0 else None, 'new': new,
                                    'c': doc.tid(cc), 'before': before, 'after': doc.snap(), 'exc': None,
                                    'ret': [], 'slot_after': [doc.tid(cc)], 'mode': 0})
            elif name in ('auto', 'auto2'):
                tgt.auto_claim_comments()
                if tgt is doc.file:
                    mark_file_claim(doc, doc.log)
                if name == 'auto2':
                    t1 = doc.table()
                    k0 = len(doc.log)
                    tgt.auto_claim_comments()
                    extra['idem'] = (t1, doc.table())
                    for rec in doc.log[k0:]:
                        rec['mode'] = 1              # hypotheses of the idempotence theorem are evaluated here
        except Exception as e:  # an exception is an observable result
            exc = common.exn_name(e)
            extra['exc_text'] = f'{type(e).__name__}: {e}'[:200]
    return exc, extra


# ---------------------------------------------------------------------------------------------
# monitors
def visible(doc: Doc):
    """the tokens with visible text (what C04 speaks about): identity, kind, text, in store order"""
    return [(i, k, x) for (i, k, x, _) in doc.full() if x != '']


def visible_strict(doc: Doc):
    """stricter than the property: also the zero-width marks (Eol, DedentMark), everything but placeholders"""
    return [(i, k, x) for (i, k, x, _) in doc.full() if k != 'Placeholder']


STRICT_NOTES: list = []      # stricter-than-the-property observations (reported as notes, never as failures)


def check_ownership(doc: Doc):
    """C14: <= 1 owner per comment; claimed flag <=> exactly one owner. Returns a message or None."""
    refs = doc.ownership()
    cnt: dict[int, int] = {}
    for c, _ in refs:
        cnt[c] = cnt.get(c, 0) + 1
    for c, n in cnt.items():
        if n > 1:
            return f'comment #{c} is referenced by {n} slots: {[p for cc, p in refs if cc == c]}'
    for (i, k, x, claimed) in doc.full():
        if k == 'BlockComment':
            n = cnt.get(i, 0)
            if claimed != (n == 1):
                return f'comment #{i} {x!r}: claimed={claimed} but {n} owner(s)'
    store_ids = {i for (i, _, _, _) in doc.full()}
    for c, p in refs:
        if c not in store_ids:
            return f'slot {p} references a comment that is not in the store'
    return None


def readonly_sweep(doc: Doc, rng, budget: int = 400):
    """C04: reading every public attribute / view, iterating, ==, hash, deepcopy, print. Returns message or None."""
    import inspect
    text0 = print_text(doc.file)
    snap0 = visible(doc)
    strict0 = doc.full()
    n = 0
    for path, m in doc.nodes():
        objs = [m]
        for name in dir(type(m)):
            if name.startswith('_') or n > budget:
                continue
            attr = getattr(type(m), name, None)
            if inspect.isfunction(attr) or isinstance(attr, (classmethod, staticmethod)) or inspect.ismethod(attr):
                continue
            try:
                v = getattr(m, name)
            except Exception:
                continue
            n += 1
            objs.append(v)
        for v in objs:
            try:
                if hasattr(v, '__iter__') and not isinstance(v, (str, bytes)):
                    for k, x in enumerate(v):
                        if k > 50:
                            break
                    if hasattr(v, '__len__'):
                        len(v)
                    if hasattr(v, 'keys'):
                        list(v.keys())
                v == v
                try:
                    hash(v)
                except TypeError:
                    pass
                repr(v)
            except Exception:
                pass
        if visible(doc) != snap0:
            return f'reading the attributes of {path} ({type(m).__name__}) changed the visible tokens'
    sur, wrap, allm = doc.targets()
    for path, m in rng.sample(allm, min(4, len(allm))):
        try:
            c = copy.deepcopy(m)
            m == c
            print_text(m)
        except Exception:          # a failing deepcopy is C11's business; here only "does not change the document"
            pass
        if visible(doc) != snap0:
            return f'deepcopy/==/print of {path} changed the visible tokens'
    # non-in-place arithmetic with number expressions of the document as operands (either side, reflected forms,
    # unary): computes a NEW expression; the operands' document must not move
    import decimal
    from autobean_refactor import models as models_
    exprs = [(path, m) for path, m in allm if isinstance(m, models_.NumberExpr)]
    for path, m in rng.sample(exprs, min(4, len(exprs))):
        other = rng.choice(exprs)[1]
        for f_ in (lambda: m + other, lambda: other - m, lambda: m * other, lambda: other / m, lambda: 2 * m,
                   lambda: 100 - m, lambda: decimal.Decimal('1.5') * m, lambda: m / 4, lambda: -m, lambda: +m,
                   lambda: (m + 1) * other):
            try:
                f_()
            except (ArithmeticError, ValueError, TypeError):
                pass
        if visible(doc) != snap0:
            return f'non-in-place arithmetic with {path} as an operand changed the visible tokens of its document'
    if print_text(doc.file) != text0:
        return 'read-only calls changed the printed text'
    if doc.full() != strict0:
        STRICT_NOTES.append('read-only calls changed zero-width tokens / flags (stricter than C04)')
    return None


# ---------------------------------------------------------------------------------------------
# rendering for Coq
def coq_tok(i, kind, text, claimed):
    return f'mktok {i} {KINDS.get(kind, "KOther")} {common.coq_str(text)} {common.coq_bool(claimed)}'


def coq_snap(s):
    return common.coq_list(f'({i},{common.coq_bool(c)})' for i, c in s)


def coq_items(items):
    return common.coq_list(f'mkitem {common.coq_bool(a)} {b} {f} {l}' for a, b, f, l in items)


def coq_optz(x):
    return common.coq_opt(None if x is None else common.coq_z(x))


EXC = {None: 0, 'ValueError': 1, 'IndexError': 2, 'KeyError': 3, 'AssertionError': 4, 'TypeError': 5,
       'NotImplementedErr': 6, 'ModelStuck': 8}


def coq_prim(rec, patched: bool):
    exc = EXC.get(rec['exc'], 8)
    ids_b, ids_a = [i for i, _ in rec['before']], [i for i, _ in rec['after']]
    after = ('None' if ids_a == ids_b else f'(Some {common.coq_zlist(ids_a)})') + ' ' + \
        common.coq_zlist(i for i, c in rec['after'] if c)
    items_after = '[]'
    if rec['op'] == 'claim':
        ind = 'None' if not patched or rec.get('ind') is None else f'(Some {common.coq_bool(rec["ind"])})'
        ctor = 'ClaimLead' if rec['which'] == 'lead' else 'ClaimTrail'
        call = f'EC (OS ({ctor} {rec["n"]} {rec["start"]} {common.coq_bool(rec["ign"])} {ind}))'
        ret = coq_list_z([] if rec['ret'] is None else [rec['ret']])
    elif rec['op'] == 'claimer':
        flt = 'None' if rec['filter'] is None else f'(Some {common.coq_zlist(rec["filter"])})'
        call = f'EC (OClaimInter {rec["r"]} {rec["ph"]} {coq_items(rec["items"])} {rec["mfirst"]} {rec["mlast"]} {flt})'
        ret = coq_list_z(rec['ret'])
        items_after = common.coq_list(f'({common.coq_bool(a)},{b})' for a, b in rec['items_after'])
    elif rec['op'] == 'attach':
        new = common.coq_list(coq_tok(i, k, x[:3], False) for (i, k, x) in rec['new'])
        call = (f'EAttach ({rec["slot"][0]} {rec["slot"][1]}) {rec["pos"]}%nat {coq_optz(rec["after_tok"])} {new} '
                f'{rec["c"]}')
        ret = '[]'
    elif rec['op'] == 'unclaim':
        ctor = 'UnclaimLead' if rec['which'] == 'lead' else 'UnclaimTrail'
        call = f'EC (OS ({ctor} {rec["n"]}))'
        ret = coq_list_z([] if rec['ret'] is None else [rec['ret']])
    else:
        flt = 'None' if rec['filter'] is None else f'(Some {common.coq_zlist(rec["filter"])})'
        call = f'EC (OUnclaimInter {rec["r"]} {coq_items(rec["items"])} {flt})'
        ret = coq_list_z(rec['ret'])
        items_after = common.coq_list(f'({common.coq_bool(a)},{b})' for a, b in rec['items_after'])
    slot = coq_list_z(rec['slot_after'])
    return f'mkstep ({call}) (mkobs {exc} {ret} {items_after} {after} {slot}) {rec.get("mode", 0)}'


def coq_list_z(xs):
    return common.coq_zlist(xs)


def coq_table(tb):
    return common.coq_list(f'({k} {n}, {common.coq_zlist(cs)})' for k, n, cs in tb)


def coq_case(full0, table0, hists, patched):
    """one initial state, several histories run from it. Token texts are cut to 3 code points: the model only
    looks at emptiness and at the first character of a comment (its indentation class)."""
    toks = common.coq_list(coq_tok(i, k, x[:3], c) for (i, k, x, c) in full0)
    hs = common.coq_list(common.coq_list(coq_prim(p, patched) for p in prims) for prims in hists)
    return f'mkccase {toks} {coq_table(table0)} {hs}'


# ---------------------------------------------------------------------------------------------
def tie(ctx):
    """The tie is behavioural: the correspondence replays every public comment call.  What must exist is the public
    API; private names only enable an additional finer cross-check and may be absent."""
    models = _imp()[2]
    try:
        f = get_parser().parse('; a\n2000-01-01 open Assets:A\n', models.File, auto_claim_comments=False)
        sur = [m for _p, m in Doc.walk(f) if has_surrounding(m)]
        ok = bool(sur) and hasattr(f, 'auto_claim_comments') and \
            all(hasattr(f.raw_directives_with_comments, n) for n in INT_CALLS) and \
            hasattr(sur[0], 'raw_leading_comment') and hasattr(sur[0], 'raw_trailing_comment')
    except Exception as e:
        ok = False
        ctx.notes.append(f'public comment API probe raised {type(e).__name__}: {e}')
    if not ok:
        ctx.fail('tie', 'comments-public-api', 'the public comment API (claim_/unclaim_ leading/trailing/interleaving, '
                 'raw_leading_comment/raw_trailing_comment, auto_claim_comments) is not there')
    missing = private_observable()
    if missing:
        ctx.count('private_state_unobservable')
        ctx.notes.append('finer primitive-level cross-check skipped, private names not found with the expected '
                         'shape: ' + ', '.join(missing))


def set_lf(lf):
    ts = _imp()[3]
    if not all(hasattr(ts, n) for n in ('_LOAD_FACTOR', '_DOUBLE_LOAD_FACTOR', '_HALF_LOAD_FACTOR',
                                        '_ONE_HALF_LOAD_FACTOR')):
        return
    ts._LOAD_FACTOR = lf
    ts._DOUBLE_LOAD_FACTOR = lf * 2
    ts._HALF_LOAD_FACTOR = lf // 2
    ts._ONE_HALF_LOAD_FACTOR = lf + lf // 2


def gen_doc(rng):
    lines = gen_lines(rng, rng.choice([2, 3, 4, 6, 8]))
    crlf = rng.random() < 0.15
    final_nl = rng.random() < 0.75
    return lines, crlf, final_nl


def run_document(ctx, prop: str, lines, crlf, final_nl, ops_seed, n_ops, witness_base=None):
    """Parses one layout in both modes, drives a history, runs the monitors of `prop` (and counts those of the
    sibling property), returns the Coq cases."""
    import random
    text = render(lines, crlf, final_nl)
    wit = {'lines': lines, 'crlf': crlf, 'final_nl': final_nl, 'ops_seed': ops_seed, 'n_ops': n_ops}
    try:
        d_true = Doc(text, True)
        d_false = Doc(text, False)
    except Exception as e:
        ctx.count('layouts_rejected_by_parser')
        return []
    ctx.count('layouts_parsed')
    n_com = sum(1 for t in d_true.tokens() if type(t).__name__ == 'BlockComment')
    patched = is_patched()
    cases = []

    def mon(p, sig, what, w=None):
        ww = dict(wit)
        ww.update(w or {})
        if p == prop:
            ctx.monitor_failure(sig, what, ww)
        else:
            ctx.count('other_property_failures')
            if len(ctx.notes) < 5:
                ctx.notes.append(f'(belongs to {sig}) {what}')

    # ---- parse-time monitors ------------------------------------------------------------------------
    if print_text(d_true.file) != text or print_text(d_false.file) != text:
        ctx.count('print_differs_from_input_C01')     # C01's business
    msg = check_ownership(d_true)
    if msg:
        mon('C14', 'C14:ownership', 'after default parse: ' + msg)
    unowned = [x for (i, k, x, c) in d_true.full() if k == 'BlockComment' and not c]
    if unowned:
        mon('C14', 'C14:unowned-after-parse', f'default parsing leaves comment {unowned[0]!r} unowned')
    # parse(flag) == parse(no flag) + auto_claim
    with Tap(d_false):
        d_false.log = []
        d_false.file.auto_claim_comments()
    # k_mode 5: this history is the ONE File.auto_claim_comments() run on a freshly parsed store; besides file_cover_b
    # the Coq side compares, for every block comment, the owner after the run with the declarative rule
    # CommentsRule.attrib_spec evaluated on the parsed store (CommentsRun.attrib_hist)
    mark_file_claim(d_false, d_false.log, mode=5)
    if d_false.log and d_false.log[-1].get('mode') == 5:
        ctx.count('hyp_file_cover_steps')
        ctx.count('hyp_attrib_spec_checked', n_com)
    hists = {False: [d_false.log], True: []}
    metas = {False: [[['auto', 'F', None]]], True: []}
    if d_false.table() != d_true.table():
        mon('C14', 'C14:parse-vs-later', 'parse(auto_claim_comments=True) and parse(False)+auto_claim_comments() '
            'attribute differently', {'a': d_true.table(), 'b': d_false.table()})
    if print_text(d_false.file) != text:
        mon('C04', 'C04:text', 'auto_claim_comments changed the printed text')
    t1 = d_false.table()
    d_false.file.auto_claim_comments()
    if d_false.table() != t1:
        mon('C14', 'C14:idempotent', 'a second File.auto_claim_comments() changes the attribution')
    # the documented rule, from the line layout
    exp, blocks = expected_attribution(lines)
    rule_check(ctx, d_true, lines, exp, blocks, mon)
    # C04: read-only sweep on the default parse
    rng = random.Random(ops_seed)
    msg = readonly_sweep(d_true, rng)
    if msg:
        mon('C04', 'C04:readonly', msg)

    # ---- history ------------------------------------------------------------------------------------
    # random histories in both modes + directed ones: every model / wrapper gets its calls on a fresh parse
    plans = [(False, None), (True, None)]
    sur0, wrap0, _ = Doc(text, False).targets()
    for path, _m in (sur0 if len(sur0) <= 5 else rng.sample(sur0, 5)):
        plans.append((False, [['claim_trailing', path, False], ['claim_leading', path, False],
                              ['reclaim_trailing', path, False], ['reclaim_leading', path, False],
                              ['auto2', 'F', None]]))
    for path, _m, _n in (wrap0 if len(wrap0) <= 3 else rng.sample(wrap0, 3)):
        plans.append((False, [['claim_inter', path, None], ['reclaim_inter', path, None],
                              ['unclaim_inter', path, None], ['auto2', path.rsplit('.', 1)[0], None],
                              ['auto2', 'F', None]]))
    amb = ambiguous_lines(lines)
    hand = [a for a in sorted(NEIGHBOURS) if a not in amb and
            (NEIGHBOURS[a]['below'] is not None or NEIGHBOURS[a]['above'] is not None
             or NEIGHBOURS[a]['below_other'] is not None)]
    if got_blocks_ok(Doc(text, False), blocks):
        # all comments with two admissible owners, plus a sample of the others
        both = [a for a in hand if NEIGHBOURS[a]['below'] is not None and NEIGHBOURS[a]['above'] is not None]
        rest = [a for a in hand if a not in both]
        for a in both[:6] + (rest if len(rest) <= 3 else rng.sample(rest, 3)):
            spec = dict(NEIGHBOURS[a], a=a, rounds=rng.choice([2, 3, 4]), first=rng.choice(['below', 'above']),
                        detour=rng.random() < 0.6)
            plans.append((False, [['handover', 'F', spec], ['auto2', 'F', None]]))
            ctx.dist('handover=' + ('both' if spec['below'] is not None and spec['above'] is not None else
                                    'below' if spec['below'] is not None else
                                    'above' if spec['above'] is not None else 'other-class'))
    # node-level assignment: unclaim -> deep copy -> another model's leading comment -> everybody tries to claim
    if got_blocks_ok(Doc(text, False), blocks):
        d0 = Doc(text, False)
        st0 = d0.file.token_store
        by_line = {st0.get_position(own_start_token(m)).line: p for p, m in d0.targets()[0]
                   if own_start_token(m) is not None}
        for a in [a for a in hand if NEIGHBOURS[a]['below'] is not None][:1]:
            pb = by_line.get(NEIGHBOURS[a]['below'])
            others = [p for p, m in d0.targets()[0] if p != pb]
            if pb is not None and others:
                px = rng.choice(others)
                idx = [x for x, _ in blocks].index(a)
                plans.append((False, [['claim_leading', pb, False], ['unclaim_leading', pb, None],
                                      ['assign', px, {'src': idx}], ['auto', 'F', None], ['auto2', 'F', None]]))
    # attribution histories on documents first edited through the public API (set-up, not under test)
    for kind in ('meta_append', 'postings_front', 'both', 'directive_meta', 'file_ends'):
        if rng.random() < (0.6 if n_com or kind != 'file_ends' else 0.3):
            plans.append((rng.random() < 0.7, edited_builder(kind)))
    for flag, plan in plans:
        doc = Doc(text, flag)
        edited = callable(plan)
        plan_kind = None
        if edited:
            try:
                built = plan(doc, rng)
                get_parser().parse(print_text(doc.file), _imp()[2].File)     # still an accepted document
            except Exception:
                ctx.count('setup_edit_refused_or_unparsable')
                continue
            if not built:
                continue
            ctx.dist('edited_setup=' + plan.kind)
            plan_kind, plan = plan.kind, built
            for t_ in doc.file.token_store:
                doc.tid(t_)
        full0 = doc.full()
        table_init = doc.table0()
        vis0, strict0, base_text = visible(doc), visible_strict(doc), print_text(doc.file)
        ops = plan if plan is not None else gen_ops(rng, doc, n_ops)
        prims = []
        unmodelled = False
        for k, op in enumerate(ops):
            before = doc.snap()
            exc, extra = apply_op(doc, op)
            if exc == 'skip':
                continue
            unmodelled = unmodelled or bool(extra.get('unmodelled'))
            ctx.count('impl_api_calls')
            ctx.dist('op=' + op[0])
            if exc:
                ctx.dist('raised=' + exc)
            w = {'flag': flag, 'ops': ops[:k + 1], 'edited_setup': plan_kind}
            # primitives must chain: nothing else touches the store between them
            chain = before
            for rec in doc.log:
                if rec['before'] != chain:
                    ctx.count('store_changed_outside_primitives')
                chain = rec['after']
            if chain != doc.snap():
                ctx.count('store_changed_outside_primitives')
            prims.extend(doc.log)
            # C04
            if extra.get('edited'):
                # a node-level assignment is an edit: C04 does not speak about it; new baselines
                vis0, strict0, base_text = visible(doc), visible_strict(doc), print_text(doc.file)
            if visible(doc) != vis0:
                mon('C04', 'C04:visible-tokens', f'{op[0]} on {op[1]} created/dropped/re-ordered/altered a token '
                    f'with visible text', w)
            elif print_text(doc.file) != base_text:
                mon('C04', 'C04:text', f'{op[0]} on {op[1]} changed the printed text', w)
            elif visible_strict(doc) != strict0 or \
                    (not extra.get('edited') and sorted(i for i, _ in doc.snap()) != sorted(i for i, _ in before)):
                STRICT_NOTES.append(f'{op[0]} changed zero-width marks / the placeholder set (stricter than C04)')
            # C14
            msg = check_ownership(doc)
            if msg:
                mon('C14', 'C14:ownership', f'after {op[0]} on {op[1]}: {msg}', w)
            if 'idem' in extra and extra['idem'][0] != extra['idem'][1]:
                mon('C14', 'C14:idempotent', f'auto_claim_comments() twice on {op[1]} differs from once', w)
            if 'restore' in extra and extra['restore'][0] != extra['restore'][1]:
                mon('C14', 'C14:unclaim-claim', f'{op[0]} on {op[1]}: unclaim followed by claim does not restore '
                    f'the attribution', w)
            if 'empty_selection' in extra and extra['empty_selection'][0] != extra['empty_selection'][1]:
                mon('C14', 'C14:empty-selection-changed-ownership', f'{op[0]} on {op[1]} with an EMPTY list of comments changed '
                    f'who owns which comment (an empty selection is not "all")', w)
            for m_ in extra.get('handover', []):
                mon('C14', 'C14:hand-over', f'hand-over of the comment at line {op[2]["a"]} between its neighbours: {m_}', w)
            if op[0].startswith('reclaim') and exc:
                mon('C14', 'C14:unclaim-claim', f'{op[0]} on {op[1]}: claiming back what was just unclaimed raised '
                    f'{extra.get("exc_text")}', w)
        try:
            from harness import health
            hp = health.problems(doc.file)
        except Exception:
            hp = []
        if hp:
            # claiming / unclaiming moved something it must not move: the tree is no longer a tree of its tokens, a cached
            # view no longer is the filtered list, or positions no longer match the text
            mon(prop, f'{prop}:health:{hp[0][0]}', f'after the calls {[o[0] for o in ops][:8]}: {hp[0][1]}', {'flag': flag, 'ops': ops})
        if rng.random() < 0.3:
            msg = readonly_sweep(doc, rng, budget=150)
            if msg:
                mon('C04', 'C04:readonly', msg, {'flag': flag, 'ops': ops})
        if plan is None:
            # "at all times": also in a deep copy every comment is unowned or owned once, flag coherent
            try:
                cp = Doc(text, flag, file=copy.deepcopy(doc.file))
            except Exception:
                cp = None
            if cp is not None:
                msg = check_ownership(cp)
                if msg:
                    mon('C14', 'C14:ownership-in-copy', 'in a deep copy of the document: ' + msg,
                        {'flag': flag, 'ops': ops})
                elif cp.table() != doc.table():
                    mon('C14', 'C14:ownership-in-copy', 'a deep copy of the document attributes comments differently',
                        {'flag': flag, 'ops': ops})
        if unmodelled:
            ctx.count('histories_with_unmodelled_edit')
        elif edited:
            cases.append((coq_case(full0, table_init, [prims], patched),
                          dict(wit, flag=flag, edited_setup=plan_kind, histories=[ops]), 1))
        else:
            hists[flag].append(prims)
            metas[flag].append(ops)
        comment_ids = {i + 1 for i, o in enumerate(doc.objs) if type(o).__name__ == 'BlockComment'}
        for p in prims:
            if p.get('mode') == 1:
                allc = all(c for i, c in p['before'] if i in comment_ids)
                ctx.count('hyp_idempotence_all_claimed_true' if allc else 'hyp_idempotence_all_claimed_false')
            elif p['op'] == 'claimer':
                ctx.count('hyp_op_ok_claimer_evaluated')
                if not p['exc']:
                    # CommentsRun.placement_ok: entries behind the placeholder, no placeholder between the field and
                    # the comments claimed in front / behind, on the token order the implementation reports
                    ctx.count('hyp_placement_checked')
            elif p['op'] == 'attach':
                ctx.count('hyp_attach_ok_evaluated')
        if doc.private_mismatch:
            ctx.count('private_public_argument_mismatch', doc.private_mismatch)
        ctx.count('impl_primitive_calls', len(prims))
        for p in prims:
            ctx.dist('prim=' + p['op'] + ('' if not p['exc'] else ':' + p['exc']))
            if p.get('mode'):
                ctx.count({1: 'hyp_idempotence_steps', 2: 'hyp_restore_surrounding', 3: 'hyp_restore_interleaving',
                           4: 'hyp_file_cover_steps'}[p['mode']])
    kinds = sorted({('i' if l['ind'] else 'u') + l['t'][0] for l in lines})
    ctx.case({'n_lines': len(lines), 'n_comments': n_com, 'crlf': crlf, 'final_nl': final_nl, 'line_kinds': kinds},
             nontrivial=n_com > 0)
    ctx.dist(f'comments={min(n_com, 6)}')
    for flag in (False, True):
        if hists[flag]:
            d0 = Doc(text, flag)
            cases.append((coq_case(d0.full(), d0.table0(), hists[flag], patched),
                          dict(wit, flag=flag, histories=metas[flag]), len(hists[flag])))
    return cases


def got_blocks_ok(doc: Doc, blocks) -> bool:
    """the generator's idea of the comment blocks is the lexer's"""
    _, _, models, _, _, _, _, _ = _imp()
    store = doc.file.token_store
    return [store.get_position(t).line for t in store if isinstance(t, models.BlockComment)] == [a for a, _ in blocks]


def rule_check(ctx, doc: Doc, lines, exp, blocks, mon):
    """C14: attribution after default parsing == the documented order computed from the line layout."""
    _, _, models, _, base, sc, _, Repeated = _imp()
    store = doc.file.token_store
    line_of = lambda t: store.get_position(t).line
    comment_toks = [t for t in store if isinstance(t, models.BlockComment)]
    got_lines = [line_of(t) for t in comment_toks]
    if got_lines != [a for a, _ in blocks]:
        ctx.count('rule_oracle_skipped_block_mismatch')
        return
    got = {}
    for path, m in doc.nodes():
        if isinstance(m, Repeated):
            for it in m.items:
                if isinstance(it, models.BlockComment):
                    got[line_of(it)] = ('standalone',)
        elif has_surrounding(m):
            piv = own_start_token(m)
            start = line_of(piv) if piv is not None else None
            if lead_of(m) is not None:
                got[line_of(lead_of(m))] = ('lead', start)
            if trail_of(m) is not None:
                got[line_of(trail_of(m))] = ('trail', start)
    ctx.count('rule_comments_checked', len(exp))
    ends_of = {a: b for a, b in blocks}
    # an unindented comment directly followed by an indented line: whether the directive above extends over both
    # is not fixed by the documented rule (the grammar lets it) -> no verdict for the comments of that paragraph
    ambiguous = ambiguous_lines(lines)
    for a, e in exp.items():
        g = got.get(a)
        if g == e:
            continue
        b = ends_of[a]
        if a in ambiguous:
            ctx.count('rule_oracle_skipped_ambiguous_extent')
            continue
        if g == ('standalone',) and e[0] == 'trail' and lines[e[1]].get('level') == 1 \
                and 'Assets' not in lines[e[1]]['text'] and lines[e[1] - 1]['text'][:4].isdigit() is not None \
                and not any('Assets' in l['text'] for l in lines[e[1]:a]):
            k = e[1]
            while k > 0 and lines[k].get('level') != 0:
                k -= 1
            j = k + 1
            has_posting = False
            while j < len(lines) and lines[j]['t'] != 'blank' and lines[j]['ind']:
                has_posting = has_posting or (lines[j]['t'] == 'model' and 'Assets' in lines[j]['text'])
                j += 1
            if ' *' in lines[k]['text'] and not has_posting:
                mon('C14', EMPTY_POSTINGS, f'comment {lines[a]["text"]!r} directly below the last meta item '
                    f'{lines[e[1]]["text"]!r} of a transaction without postings became a standalone entry of the '
                    f'(empty) postings instead of the trailing comment of the meta item',
                    {'line': a, 'got': g, 'expected': e})
                continue
        # D13 class: the implementation made it the leading/trailing comment of a model in the other
        # indentation class, the rule says otherwise
        cls_mismatch = g is not None and g[0] in ('lead', 'trail') and g[1] is not None and \
            g[1] < len(lines) and lines[g[1]]['ind'] != lines[a]['ind']
        if cls_mismatch:
            mon('C14', D13, f'comment {lines[a]["text"]!r} (indented={lines[a]["ind"]}) became the {g[0]}ing comment '
                f'of {lines[g[1]]["text"]!r} (indented={lines[g[1]]["ind"]}); the documented rule gives {e}',
                {'line': a, 'got': g, 'expected': e})
        else:
            mon('C14', 'C14:rule', f'comment at line {a} {lines[a]["text"]!r}: attributed {g}, the documented rule '
                f'gives {e}', {'line': a, 'got': g, 'expected': e})


# ---------------------------------------------------------------------------------------------
FIXED = [
    # hand-written layouts: every position named in the quantifier
    (['; a', '2000-01-01 open Assets:A', '; b', '2000-01-02 close Assets:A', '', '; c', '', '; d'], False, True),
    (['2000-01-01 *', '  ; c', '  ka: 1', '  ; d', '  Assets:A 1 USD', '    ; e', '    mb: 2', '  ; f', '; g'], False, True),
    (['2000-01-01 open Assets:A', '', '  ; ind', '2000-01-02 close Assets:A'], False, True),
    (['option "k" "v"', '  ; ind', '2000-01-02 close Assets:A'], False, False),
    (['  ; ind', '2000-01-02 close Assets:A'], False, True),
    (['2000-01-01 *', '  ka: 1', '  ; c', '', '; z', ''], False, True),
    (['; a', '  ; b', '2000-01-01 open Assets:A', '  ; c', '; d'], True, True),
    # hand-over layouts: comment between meta item / first posting, posting / posting, posting meta / posting,
    # meta / meta, directive / directive
    (['2000-01-01 *', '    aaa: 1', '    ; note', '    Assets:Foo  1.00 USD', '    ; mid', '    Assets:Bar  -1.00 USD'],
     False, True),
    (['2000-01-01 *', '  ka: 1', '  ; m1', '  kb: 2', '  ; m2', '  Assets:A 1 USD', '      mb: 2', '  ; m3',
      '  Assets:B 1 USD'], False, True),
    (['2000-01-01 open Assets:A', '; between', '2000-01-02 close Assets:A', '; between2', 'option "k" "v"'], False, False),
]


def lines_of_fixed(texts):
    out = []
    for t in texts:
        s = t.strip()
        ind = t[:1] in (' ', '\t') and bool(s)
        if not s:
            out.append({'t': 'blank', 'ind': False, 'text': t})
        elif s.startswith(';'):
            out.append({'t': 'comment', 'ind': ind, 'text': t})
        else:
            level = 0 if not ind else (2 if t.startswith('    ') and ':' in s.split()[0] and not s.startswith('Assets') else 1)
            out.append({'t': 'model', 'ind': ind, 'level': level, 'text': t,
                        'body_ok': level == 0 and s[:4].isdigit()})
    return out


def run_all(ctx, prop: str, n_quick: int, n_thorough: int):
    for old in ctx.scratch.glob('cases_*.v'):
        old.unlink()
    tie(ctx)
    n = ctx.scale(n_quick, n_thorough)
    all_cases = []
    docs = [(lines_of_fixed(t), crlf, fnl) for t, crlf, fnl in FIXED]
    for _ in range(n):
        docs.append(gen_doc(ctx.rng))
    for k, (lines, crlf, fnl) in enumerate(docs):
        lf = 1000 if ctx.rng.random() < 0.7 else ctx.rng.choice([4, 6, 10])
        set_lf(lf)
        try:
            cs = run_document(ctx, prop, lines, crlf, fnl, ctx.rng.randrange(1 << 30),
                              ctx.rng.choice([4, 8, 14]))
        finally:
            set_lf(1000)
        all_cases.extend(cs)
    if STRICT_NOTES:
        ctx.count('stricter_than_property_observations', len(STRICT_NOTES))
        ctx.notes.append('stricter than C04 (not a failure): ' + '; '.join(sorted(set(STRICT_NOTES))[:4]))
        del STRICT_NOTES[:]
    if ctx.counters.get('layouts_parsed', 0) < len(docs) // 3:
        ctx.fail('tie', 'generator', 'most generated layouts are rejected by the parser')
    texts = [c[0] for c in all_cases]
    bad = ctx.run_coq_cases('comments', PREAMBLE, 'ccase', 'check_all', texts, chunk=12)
    ctx.count('traces_validated_against_impl', sum(c[2] for i, c in enumerate(all_cases) if i not in set(bad)))
    ctx.count('theorem_hypotheses_evaluated_on_cases', len(all_cases) - len(bad))
    if bad:
        sub = [texts[i] for i in bad[:6]]
        bad_corr = set(ctx.run_coq_cases('classify', PREAMBLE, 'ccase', 'check_case', sub, chunk=6))
        for k, i in enumerate(bad[:6]):
            if k in bad_corr:
                ctx.fail('corr', 'comments-correspondence',
                         'Comments.v and the implementation disagree on the result / store / ownership slot after a '
                         'primitive comment call', all_cases[i][1])
            else:
                ctx.fail('corr', 'theorem-hypothesis',
                         'a hypothesis of the C14 theorems (Inv on the parsed state, op_ok before a call, auto_ok '
                         'in a repeated auto-claim, adjacency / position in the field\'s range before unclaim+claim, '
                         'file_cover_b before the File\'s own claim, empty placeholders) does not '
                         'hold on a trace of the implementation', all_cases[i][1])


def replay_witness(ctx, prop, path):
    data = json.loads(open(path).read())
    f = data.get('failure') or (data.get('what_no_longer_checks') or [{}])[0]
    w = f.get('witness') or {}
    if 'lines' not in w:
        print(json.dumps(f, indent=1)[:3000])
        return 1
    cases = run_document(ctx, prop, w['lines'], w['crlf'], w['final_nl'], w['ops_seed'], w['n_ops'])
    for x in ctx.failures:
        print(x.kind + ':', x.signature, x.what)
    bad = ctx.run_coq_cases('replay', PREAMBLE, 'ccase', 'check_all', [c[0] for c in cases], chunk=25)
    print('model/implementation agree' if not bad else 'model/implementation DISAGREE')
    return 1 if (ctx.failures or bad) else 0


RULE = ('ledgers generated from a line grammar (directives with/without metadata support, transactions with meta, '
        'postings and posting meta, comment blocks unindented/indented at every position incl. file start/end, '
        'before a dedent, blank-line separated, CRLF, no final newline), parsed with auto_claim_comments True and '
        'False, then seeded histories of claim_/unclaim_ leading/trailing/interleaving and auto_claim_comments on '
        'every reachable model; a case is non-trivial when the document has at least one block comment; distinct by '
        '(line count, comment count, CRLF, final newline, kinds of lines)')
ASSUME = ['every hypothesis of the C14 theorems is evaluated on every trace (CommentsRun.hyp_case): inv_b on the parsed '
          'state, op_ok (item list = table entry, items in store order behind the placeholder) before every call, '
          'auto_ok in repeated auto-claims, adjacent_comment / refs_ok_b before unclaim+claim, claimable_b (the un-claimed '
          'comments lie in the field\'s range) before the claim that follows unclaim_interleaving_comments, file_cover_b '
          '(what the children left unclaimed lies in the File\'s range) before the root File\'s own claim',
          'the attribution rule over whole layouts: the call order is modelled by CommentsRule.emit (tied to the extracted '
          'classes by C14_rule_generated_order; Repeated / wrapper order read off the source); that a comment is still '
          'unclaimed and adjacent / in range when its call comes is validated per trace (attrib_spec on the parsed store '
          'vs. the owner after File.auto_claim_comments(), counter hyp_attrib_spec_checked), not proved',
          'token texts are cut to 3 code points on the Coq side (the model reads emptiness and a comment\'s first character)',
          'the token store is the plain list of its tokens (C07); get_next/get_prev/iter/splice on it are list operations',
          'token ids are unique in a store (checked on every state by the correspondence)',
          'first_token/last_token of models are inputs of each primitive call (observed), not recomputed by the model',
          'the parser is an oracle: initial states are the implementation\'s parse results']


def run(ctx: common.Ctx):
    ctx.rule = RULE
    ctx.assumptions += ASSUME
    from translate import gen

    def translate():
        # inside the build lock: Generated.v (read by CommentsRuleGen.v: the generated claim order) is rewritten only if
        # its content changed
        ok, msg = gen.main(write=True)
        if not ok:
            ctx.fail('tie', 'translator', f'translate/gen.py cannot read models/generated: {msg}')
        ctx.notes.append(f'translator: {msg}')

    ctx.require_coq(['properties/C14'], extra_targets=['CommentsRun'], pre=translate)
    run_all(ctx, 'C14', 330, 1500)
    probe_appended_entry(ctx)


SIG_APPENDED = 'C14:unclaim-claim:appended-entry-behind-last-token'   # known finding


def probe_appended_entry(ctx: common.Ctx):
    """Directed (found by the proof of C14_claim_accepted: the claim is accepted iff the comments lie in the field's
    range): a comment APPENDED as an entry of an empty trailing repeated field (no dedent mark follows, unlike every
    parsed layout) lies behind the model's last token once it is un-claimed, i.e. outside the claimer's range, so
    unclaim followed by claim of the same comments raises 'not found'. Recorded finding for exactly this shape; the
    same calls on layouts with items / a dedent mark must restore the attribution."""
    from autobean_refactor import parser as parser_lib, models
    parser = parser_lib.Parser()
    shapes = [('2000-01-01 open Assets:A\n', 'raw_meta_with_comments', '  ', True),
              ('2000-01-01 *\n', 'raw_postings_with_comments', '  ', True),
              ('2000-01-01 open Assets:A\n  kk: 1\n', 'raw_meta_with_comments', '  ', False),
              ('2000-01-01 *\n  Assets:A  1 USD\n', 'raw_postings_with_comments', '  ', False)]
    for text, field, ind, known in shapes:
        f = parser.parse(text, models.File)
        w = getattr(f.raw_directives[0], field)
        w.append(models.BlockComment.from_value('c', indent=ind))
        before = [(type(x).__name__, getattr(x, 'raw_text', None)) for x in w]
        ctx.count('appended_entry_probes')
        u = w.unclaim_interleaving_comments()
        try:
            w.claim_interleaving_comments(u)
        except ValueError as e:
            ctx.monitor_failure(SIG_APPENDED if known else 'C14:unclaim-claim',
                                f'{text!r}: {field}.append(comment); unclaim_interleaving_comments(); claim_interleaving_comments(the '
                                f'same) raised {e}', {'text': text, 'field': field})
            continue
        after = [(type(x).__name__, getattr(x, 'raw_text', None)) for x in w]
        if after != before:
            ctx.monitor_failure('C14:unclaim-claim', f'{text!r}: unclaim + claim of an appended entry of {field} gives {after}, was {before}',
                                {'text': text, 'field': field})


def search(ctx: common.Ctx):
    run_all(ctx, 'C14', 330, 1500)


def replay(ctx, path):
    return replay_witness(ctx, 'C14', path)
