"""Coq side shared by C05 / C06 / C11 / C15 / C20: translator tie (Generated.v regenerated from the source
on every run, GeneratedWf proved by vm_compute), property theorems, and the correspondence of the generic
tree model with the implementation."""
from __future__ import annotations

import json

from harness import common

RULES = {
    'C05': 'seeded edit histories (token values, value properties, node properties, every MutableSequence/MutableMapping operation of raw, filtered, string and meta views with int/negative/out-of-range/slice/extended-slice indexes, pop-and-reinsert, fresh/deep-copied donors) on generated ledgers; after every successful edit the C05 statement is evaluated on the implementation (treewalk.wf_problems); non-trivial = at least one edit applied',
    'C06': 'seeded syntax-preserving edit histories on generated ledgers; after every successful edit the document is printed, re-parsed with the real parser and compared field by field (classes, fields, values, nesting, order; block-comment attribution and trailing blanks of inline comments excluded)',
    'C11': 'deep copies of models at every depth of generated (optionally pre-edited) ledgers: equal, same text, no shared token, complete in own store; then edits on the copy and on the original, each time checking the other side is unchanged (text and structural dump)',
    'C20': 'pairs of models from parsing the same text twice, random cross pairs (equality must coincide with same type + same token texts + same structural dump, and be symmetric; token hash consistent), and single edits against an untouched twin',
}


def setup(ctx: common.Ctx, prop: str):
    ctx.rule = RULES.get(prop, '')
    ctx.assumptions += ['the 34 generated classes are instances of the generic scheme (proved per run: GeneratedWf.v over the regenerated Generated.v)',
                        'hand-written tree classes (NumberAddExpr, NumberMulExpr, Repeated, File/Transaction/Custom overrides) are covered by correspondence and monitors only',
                        'lark lexer/parser and CPython object semantics are not modelled']
    from translate import gen

    def translate():
        # inside the build lock: Generated.v is rewritten (only if its content changed) and built in one step
        ok, msg = gen.main(write=True)
        if not ok:
            ctx.fail('tie', 'translator', f'translate/gen.py cannot read models/generated: {msg}')
        ctx.notes.append(f'translator: {msg}')

    ctx.require_coq([f'properties/{prop}'], extra_targets=['GeneratedWf', 'TreeRun', 'TreeDefs', 'TreeWF'], pre=translate)


def correspondence(ctx: common.Ctx, prop: str):
    from harness import tree_corr
    tree_corr.run(ctx, prop)


def replay(ctx: common.Ctx, path: str, prop: str) -> int:
    data = json.loads(open(path).read())
    f = data.get('failure') or (data.get('what_no_longer_checks') or [{}])[0]
    print(json.dumps(f, indent=1)[:4000])
    w = f.get('witness') or {}
    if 'edit_seed' in w and 'text' in w:
        from harness import doc_checks, treewalk
        doc, hist = doc_checks.replay_history(w['text'], w.get('auto_claim', True), w.get('lf', 1000), w['edit_seed'],
                                              w.get('n_edits', len(w.get('history', []))), w.get('p_focus', 0.0))
        print('replayed history:', hist)
        print('wf problems:', treewalk.wf_problems(doc)[:5])
    return 1
