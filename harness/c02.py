"""C02 - changing one token changes only that token's characters."""
from harness import common, store_check

SIGS = ('C02',)


def run(ctx: common.Ctx):
    ctx.rule = ('seeded store histories dense in text updates (model/implementation full-state correspondence), and '
                'parsed documents in which every token in turn gets a new value/raw_text: the printed text must be the '
                'old text with exactly that token span replaced, all other tokens identical objects in the same order')
    ctx.assumptions += ['replacement values are inside the token type\'s domain (C12 covers the codecs)']
    ctx.require_coq(['properties/C02'], extra_targets=['StoreRun'])
    store_check.run_store(ctx, SIGS, 40, 400, text_heavy=True)
    store_check.run_documents(ctx, SIGS)


def search(ctx: common.Ctx):
    store_check.run_store(ctx, SIGS, 40, 400, text_heavy=True)
    store_check.run_documents(ctx, SIGS)


def replay(ctx, path):
    return store_check.replay(ctx, path, SIGS)
