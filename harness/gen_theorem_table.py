"""Rewrites the theorem column of the DESIGN.md section 13 table from coq/theories/properties/Cnn.v
(names with the Cnn_ prefix stripped), so the table never drifts from the files."""
import re
p = '/verif/DESIGN.md'
s = open(p).read()
a = s.index('| id | model files | theorems in properties/Cnn.v |')
b = s.index('\n## 14.')
lines = s[a:b].split('\n')
out = []
for ln in lines:
    m = re.match(r'\| (C\d\d) \| (.*?) \| (\d+: .*?) \| (.*)$', ln)
    if not m:
        out.append(ln)
        continue
    prop = m.group(1)
    src = open(f'/verif/coq/theories/properties/{prop}.v').read()
    names = re.findall(r'^\s*Theorem\s+(\w+)', src, flags=re.M)
    short = [n[len(prop) + 1:] if n.startswith(prop + '_') else n for n in names]
    out.append(f'| {prop} | {m.group(2)} | {len(short)}: {", ".join(short)} | {m.group(4)}')
open(p, 'w').write(s[:a] + '\n'.join(out) + s[b:])
print('ok')
