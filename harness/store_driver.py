"""Drives the real autobean_refactor.token_store with seeded operation histories, dumps its full
concrete state after every step (private attributes read directly; no source hooks), and evaluates
the C07/C08/C02 statements against a plain Python list (the monitors)."""
from __future__ import annotations

import random
from typing import Any, Optional

from autobean_refactor import token_store as ts_lib
from harness.common import coq_list, coq_opt, coq_str, coq_z, coq_zlist, exn_name

EXN_CODE = {'ValueError': 1, 'IndexError': 2, 'KeyError': 3, 'AssertionError': 4, 'TypeError': 5,
            'NotImplementedErr': 6, 'OutOfFuel': 7, 'ModelStuck': 8}
LFS_QUICK = [2, 3, 4, 5, 10]


def set_load_factor(lf: int) -> None:
    """The four module constants, by the formulas the translator pins (translate/pins.py)."""
    ts_lib._LOAD_FACTOR = lf
    ts_lib._DOUBLE_LOAD_FACTOR = lf * 2
    ts_lib._HALF_LOAD_FACTOR = lf // 2
    ts_lib._ONE_HALF_LOAD_FACTOR = lf + lf // 2


ALPHABET = ['a', 'bc', '', '\n', 'x\n', '\ny', 'p\nq\nr', '\n\n', ' ', 'def', '', '\n']


def gen_text(rng: random.Random) -> str:
    return rng.choice(ALPHABET)


class EqToken(ts_lib.Token):
    """A token that compares by content, as the ledger's RawTokenModel does (RULE + raw_text): two distinct
    token objects with the same text are `==`. The store must work by identity throughout; every comparison in
    this harness is by `is` / id()."""

    def __eq__(self, other):
        return isinstance(other, EqToken) and self.raw_text == other.raw_text

    def __hash__(self):
        return hash(('EqToken', self.raw_text))


def use_eq_tokens(lf: int, texts: list[str], ops: list) -> bool:
    """Half of the histories (a function of the history itself, so a replay makes the same choice)."""
    return (lf + len(texts) + sum(len(t) for t in texts)) % 2 == 0    # independent of how many ops are replayed


class Impl:
    """One implementation-side execution: tokens are numbered 1..n."""

    def __init__(self, lf: int, texts: list[str], eq_tokens: bool = False):
        set_load_factor(lf)
        self.lf = lf
        cls = EqToken if eq_tokens else ts_lib.Token
        self.toks = [None] + [cls(t) for t in texts]
        self.ids = {id(t): i for i, t in enumerate(self.toks) if t is not None}
        self.store: Optional[ts_lib.TokenStore] = ts_lib.TokenStore()
        self.src_list = None
        self.src_copy = None
        self.all_iter_pairs = False            # dump(): probe iter(a, b) for EVERY ordered pair of tokens (exhaustive part)

    def tid(self, tok) -> int:
        return -1 if tok is None else self.ids.get(id(tok), -99)

    def apply(self, op) -> int:
        k = op[0]
        T = lambda i: None if i is None else self.toks[i]
        try:
            if k == 'empty':
                self.store = ts_lib.TokenStore()
            elif k == 'from_tokens':
                lst = [T(i) for i in op[1]]
                self.store = ts_lib.TokenStore.from_tokens(lst)
                self.src_list = lst                            # the caller keeps this list object
                self.src_copy = list(lst)
            elif k == 'ins_after':
                self.store.insert_after(T(op[1]), [T(i) for i in op[2]])
            elif k == 'ins_before':
                self.store.insert_before(T(op[1]), [T(i) for i in op[2]])
            elif k == 'splice':
                self.store.splice([T(i) for i in op[1]], T(op[2]), T(op[3]))
            elif k == 'remove':
                self.store.remove(T(op[1]), T(op[2]))
            elif k == 'replace':
                self.store.replace(T(op[1]), T(op[2]))
            elif k == 'set_text':
                T(op[1]).raw_text = op[2]
            else:
                raise RuntimeError(k)
            return 0
        except (ValueError, IndexError, KeyError, AssertionError, TypeError) as e:
            return EXN_CODE[exn_name(e)]

    # ---- canonical dump -------------------------------------------------------------------
    def _enc(self, f, enc):
        try:
            return [0] + enc(f())
        except (ValueError, IndexError, KeyError, AssertionError, TypeError, AttributeError) as e:
            return [1, EXN_CODE.get(exn_name(e), 8)]

    def dump(self, res: int) -> dict:
        st = self.store
        blocks = [(b.index, [self.tid(t) for t in b.tokens], (b.size.line, b.size.column), b.last_newline_index)
                  for b in st._blocks]
        pos_of_block = {id(b): i for i, b in enumerate(st._blocks)}
        handles, sizes, obs = [], [], []
        for t in self.toks[1:]:
            h = t.store_handle
            handles.append(None if h is None else (pos_of_block.get(id(h.block), -1), h.index))
            sizes.append((t.size.line, t.size.column))
            o = []
            o += self._enc(lambda: st.get_index(t), lambda v: [v])
            o += self._enc(lambda: st.get_position(t), lambda v: [v.line, v.column])
            o += self._enc(lambda: st.get_prev(t), lambda v: [self.tid(v)])
            o += self._enc(lambda: st.get_next(t), lambda v: [self.tid(v)])
            obs.append(o)
        obs.append(self._enc(lambda: st.get_first(), lambda v: [self.tid(v)]))
        obs.append(self._enc(lambda: st.get_last(), lambda v: [self.tid(v)]))
        obs.append([self.tid(t) for t in st])
        # sub-range probes (any two tokens: in order, reversed, same, detached) for the model to answer
        iters = []
        n = len(self.toks) - 1
        if n and self.all_iter_pairs:
            for a in range(1, n + 1):
                for b in range(1, n + 1):
                    iters.append((a, b, self._enc(lambda: list(st.iter(self.toks[a], self.toks[b])),
                                                  lambda v: [self.tid(t) for t in v])))
        elif n:
            rr = random.Random(len(st) * 1000003 + n * 7919 + res)
            for _ in range(3):
                a, b = rr.randrange(1, n + 1), rr.randrange(1, n + 1)
                iters.append((a, b, self._enc(lambda: list(st.iter(self.toks[a], self.toks[b])),
                                              lambda v: [self.tid(t) for t in v])))
        return {'res': res, 'blocks': blocks, 'handles': handles, 'sizes': sizes, 'len': len(st), 'obs': obs,
                'iters': iters}


# ---- Coq rendering ------------------------------------------------------------------------------
def coq_op(op) -> str:
    k = op[0]
    o = lambda i: coq_opt(None if i is None else coq_z(i))
    if k == 'empty':
        return 'OEmpty'
    if k == 'from_tokens':
        return f'OFromTokens {coq_zlist(op[1])}'
    if k == 'ins_after':
        return f'OInsAfter {o(op[1])} {coq_zlist(op[2])}'
    if k == 'ins_before':
        return f'OInsBefore {o(op[1])} {coq_zlist(op[2])}'
    if k == 'splice':
        return f'OSplice {coq_zlist(op[1])} {o(op[2])} {o(op[3])}'
    if k == 'remove':
        return f'ORemove {coq_z(op[1])} {o(op[2])}'
    if k == 'replace':
        return f'OReplace {coq_z(op[1])} {coq_z(op[2])}'
    if k == 'set_text':
        return f'OSetText {coq_z(op[1])} {coq_str(op[2])}'
    raise RuntimeError(k)


def coq_dump(d: dict) -> str:
    zz = lambda p: f'({coq_z(p[0])}, {coq_z(p[1])})'
    blocks = coq_list(f'({coq_z(i)}, {coq_zlist(t)}, {zz(sz)}, {coq_z(l)})' for i, t, sz, l in d['blocks'])
    handles = coq_list(coq_opt(None if h is None else zz(h)) for h in d['handles'])
    sizes = coq_list(zz(s) for s in d['sizes'])
    obs = coq_list(coq_zlist(o) for o in d['obs'])
    iters = coq_list(f'({coq_z(a)}, {coq_z(b)}, {coq_zlist(r)})' for a, b, r in d.get('iters', []))
    return f'(mkdump {coq_z(d["res"])} {blocks} {handles} {sizes} {coq_z(d["len"])} {obs} {iters})'


def coq_case(lf: int, texts: list[str], steps: list[tuple[Any, dict]]) -> str:
    st = coq_list(f'({coq_op(o)}, {coq_dump(d)})' for o, d in steps)
    return f'(mkscase {lf} {coq_list(coq_str(t) for t in texts)} {st})'


# ---- generation -------------------------------------------------------------------------------
def gen_history(rng: random.Random, lf: int, n_ops: int, n_tok: int, invalid_rate: float = 0.08):
    """A history over tokens 1..n_tok. Mostly valid operations (the reference list decides which
    tokens are in the store); a separate small stream of refusals (free ref, reuse of a live token)."""
    texts = [gen_text(rng) for _ in range(n_tok)]
    ops = []
    live: list[int] = []                      # the reference list
    free = list(range(1, n_tok + 1))
    rng.shuffle(free)
    # initial contents
    if rng.random() < 0.8:
        k = rng.choice([0, 1, lf, lf + 1, 2 * lf, 3 * lf + 1, min(n_tok, 5 * lf)])
        k = min(k, len(free) - 2)
        init = [free.pop() for _ in range(max(k, 0))]
        ops.append(('from_tokens', init))
        live = list(init)
    else:
        ops.append(('empty',))
    for _ in range(n_ops):
        r = rng.random()
        def take(kmax):
            k = min(len(free), rng.choice([0, 1, 1, 2, 3, lf, 2 * lf, kmax]))
            return [free.pop() for _ in range(k)]
        if r < invalid_rate:
            # refusal stream
            c = rng.random()
            if c < 0.4 and free:
                ops.append(('ins_after', free[-1], []))       # ref not in store
                # (ref stays free; nothing inserted)
            elif c < 0.7 and len(live) >= 3:
                # re-insert a live token far before the insertion point: must be refused
                i = rng.randrange(2, len(live))
                ops.append(('ins_after', live[i], [live[0]]))
            elif c < 0.85 and len(live) >= 2:
                # re-insert the token that sits exactly at the end of the removed range / at the insertion
                # point (position j of [i, j)): inside the old inclusive guard, must be refused
                i = rng.randrange(0, len(live) - 1)
                j = rng.randrange(i, len(live) - 1) if rng.random() < 0.6 else i
                if j == i:
                    if rng.random() < 0.5:
                        ops.append(('ins_before', live[i], [live[i]]))
                    else:
                        ops.append(('ins_after', live[i], [live[i + 1]]))
                else:
                    ops.append(('splice', [live[j]], live[i], live[j - 1]))
            elif c < 0.91 and free:
                # the same token listed twice (a free one, or one of the removed range): must be refused
                if live and rng.random() < 0.5:
                    a = rng.randrange(len(live))
                    ops.append(('splice', [live[a], live[a]], live[a], live[a]))
                else:
                    ref_ = rng.choice(live) if live and rng.random() < 0.7 else None
                    ops.append((rng.choice(['ins_after', 'ins_before']), ref_, [free[-1], free[-1]]))
            elif c < 0.93 and (len(free) >= 2 or live):
                # from_tokens with a token listed twice / a token that is in a store: refused, nothing changes
                if len(free) >= 2 and (not live or rng.random() < 0.6):
                    ops.append(('from_tokens', [free[-1], free[-2], free[-1]] if rng.random() < 0.5 else [free[-1], free[-1]]))
                else:
                    ops.append(('from_tokens', ([free[-1]] if free else []) + [rng.choice(live)]))
            elif c < 0.96 and len(live) >= 3:
                # reversed range: del_end at least two tokens before ref (the case "del_end is the token just
                # before ref" - once layout-dependent, now refused by splice() itself and modelled so in Store.v -
                # is exercised by the exhaustive part, store_exhaustive.py: every (ref, del_end) pair)
                i = rng.randrange(2, len(live))
                j = rng.randrange(0, i - 1)
                if rng.random() < 0.5:
                    ops.append(('remove', live[i], live[j]))
                else:
                    ops.append(('splice', [free[-1]] if free and rng.random() < 0.5 else [], live[i], live[j]))
            elif free:
                ops.append(('remove', free[-1], None))
            continue
        if r < 0.30 or not live:
            new = take(2 * lf + 1)
            ref = rng.choice(live) if live and rng.random() < 0.9 else None
            if rng.random() < 0.5:
                ops.append(('ins_after', ref, new))
                i = 0 if ref is None else live.index(ref) + 1
            else:
                ops.append(('ins_before', ref, new))
                i = 0 if ref is None else live.index(ref)
            live[i:i] = new
        elif r < 0.50:
            a = rng.randrange(len(live))
            span = rng.choice([0, 0, 1, 2, lf, 2 * lf, 3 * lf, len(live)])
            b = min(len(live) - 1, a + span)
            if a == b and rng.random() < 0.5:
                ops.append(('remove', live[a], None))
            else:
                ops.append(('remove', live[a], live[b]))
            free[0:0] = live[a:b + 1]         # removed tokens become reusable later
            del live[a:b + 1]
        elif r < 0.72:
            a = rng.randrange(len(live))
            span = rng.choice([0, 1, 2, lf, 2 * lf, 3 * lf, len(live)])
            b = min(len(live) - 1, a + span)
            new = take(2 * lf + 1)
            # sometimes re-insert tokens of the removed range itself (what comment claiming does)
            if rng.random() < 0.35:
                inner = live[a:b + 1]
                rng.shuffle(inner)
                if rng.random() < 0.4:
                    # a pure permutation of the range (the comment claimers move zero-width placeholders past newline and
                    # comment tokens this way): the printed text keeps its line count whatever the order
                    free[len(free):] = new
                    new = list(inner)
                else:
                    new = new + inner[:rng.randrange(0, len(inner) + 1)]
                    rng.shuffle(new)
            ops.append(('splice', new, live[a], live[b]))
            removed = [t for t in live[a:b + 1] if t not in new]
            live[a:b + 1] = new
            free[0:0] = removed
        elif r < 0.78 and free:
            a = rng.randrange(len(live))
            if rng.random() < 0.15:
                ops.append(('replace', live[a], live[a]))     # a token replaced by itself: accepted, no change
            else:
                nt = free.pop()
                ops.append(('replace', live[a], nt))
                free.insert(0, live[a])
                live[a] = nt
        elif r < 0.82:
            ref = rng.choice(live)
            ops.append(('splice', take(lf), ref, None))
            i = live.index(ref)
            live[i:i] = ops[-1][1]
        else:
            # text update, on live and (sometimes) free tokens
            t = rng.choice(live) if rng.random() < 0.9 or not free else rng.choice(free)
            ops.append(('set_text', t, gen_text(rng)))
    return texts, ops


def gen_directed(rng: random.Random, lf: int):
    """Directed multi-block histories: the situations block bookkeeping is fragile in - a removal that
    spans several blocks and leaves a small remainder (merge with the previous / next block, merge that
    re-balances against an over-full neighbour), block 0 shrinking, line-break changes N -> M in a token of
    a block that has blocks behind it, same-length text changes that move a line break."""
    k = rng.choice([3, 4, 6, 8])
    n_live = k * lf
    spare = 2 * lf + 4
    n_tok = n_live + spare
    texts = [rng.choice(['a', 'b\n', 'cd', '\n', 'e\nf', '', 'x\ny\nz', 'gh ']) for _ in range(n_tok)]
    live = list(range(1, n_live + 1))
    free = list(range(n_live + 1, n_tok + 1))
    ops = [('from_tokens', list(live))]
    if k >= 4 and rng.random() < 0.35:
        # merge-with-previous that re-balances: block p grown to 2*LF-1, then a removal that starts at the first
        # token of block p+1, spans into a later block and leaves <= LF/2 tokens of it
        pblk = rng.randrange(0, k - 3)
        at = pblk * lf + rng.randrange(lf)
        new = [free.pop() for _ in range(min(len(free), lf - 1))]
        ops.append(('ins_after', live[at], new))
        live[at + 1:at + 1] = new
        a = (pblk + 1) * lf + len(new)
        keep = rng.randrange(0, max(1, lf // 2) + 1)
        b = a + 2 * lf - keep - 1
        if b < len(live):
            ops.append(('remove', live[a], live[b]))
            free[0:0] = live[a:b + 1]
            del live[a:b + 1]
    elif rng.random() < 0.5:                       # grow one block beyond 1.5 * LF
        at = rng.randrange(len(live))
        new = [free.pop() for _ in range(min(len(free), lf - 1 + rng.randrange(0, 2)))]
        ops.append(('ins_after', live[at], new))
        live[at + 1:at + 1] = new
    for _ in range(rng.choice([1, 2, 3])):
        c = rng.random()
        if c < 0.6 and len(live) > 2 * lf:
            a = rng.choice([0, 0, rng.randrange(len(live) // 2), lf, lf - 1, 2 * lf])
            a = min(a, len(live) - 1)
            span = rng.choice([lf + 1, 2 * lf - 1, 2 * lf, 2 * lf + 1, 3 * lf])
            b = min(len(live) - 1, a + span)
            ops.append(('remove', live[a], live[b]))
            free[0:0] = live[a:b + 1]
            del live[a:b + 1]
        elif c < 0.85 and live:
            t = rng.choice(live)
            old = texts[t - 1]
            cand = [x for x in ['p\nq', 'p\nq\nr\ns', 'pq', '\n\n', 'pqrst', 'p\nqrs', 'pq\nrs'] if x != old]
            same_len = [x for x in cand if len(x) == len(old)]
            ops.append(('set_text', t, rng.choice(same_len or cand)))
        elif live and free:
            a = rng.randrange(len(live))
            b = min(len(live) - 1, a + rng.choice([0, lf, 2 * lf]))
            new = [free.pop() for _ in range(min(len(free), rng.choice([0, 1, lf])))]
            ops.append(('splice', new, live[a], live[b]))
            removed = live[a:b + 1]
            live[a:b + 1] = new
            free[0:0] = removed
    return texts, ops


def gen_directed_breaks(rng: random.Random, lf: int):
    """Directed: the caches of a block whose ONLY line-break token loses its break, followed by an insertion at
    the very start of that block (the position where _splice's in-place fast path is taken iff
    last_newline_index >= 0 = end_j). The block is not the last one and the tokens of the following blocks
    have no line breaks, so their reported columns depend on that block's cached trailing column.
    Variants: the break token at index 0 / in the middle / at the end of the block; the insertion as
    insert_before(first token of the block), insert_after(last token of the previous block) or
    insert_after(None); a second break removal / re-creation afterwards."""
    k = rng.choice([2, 3, 4])
    n_live = k * lf                               # from_tokens makes k blocks of exactly lf tokens
    spare = lf + 3
    plain = ['a', 'cd', 'gh ', 'x', '', 'pq']
    texts = [rng.choice(plain) for _ in range(n_live + spare)]
    live = list(range(1, n_live + 1))
    free = list(range(n_live + 1, n_live + spare + 1))
    blk = rng.randrange(0, k - 1)                 # a non-last block
    pos = rng.choice([0, lf - 1, rng.randrange(lf), max(1, lf // 2)])
    brk = live[blk * lf + pos]
    texts[brk - 1] = rng.choice(['b\n', 'e\nf', '\n', 'x\ny\nz'])
    if blk > 0 and rng.random() < 0.5:            # some lines before, so that line numbers are not all 0
        texts[live[rng.randrange(blk * lf)] - 1] = 'u\nv'
    ops = [('from_tokens', list(live))]
    ops.append(('set_text', brk, rng.choice(['b', 'ef', '', 'xyz'])))          # the break disappears
    first = live[blk * lf]
    new = [free.pop() for _ in range(rng.choice([1, 1, 2]))]
    c = rng.random()
    if c < 0.6:
        ops.append(('ins_before', first, new))
        at = blk * lf
    elif blk > 0:
        ops.append(('ins_after', live[blk * lf - 1], new))
        at = blk * lf
    else:
        ops.append(('ins_after', None, new))
        at = 0
    live[at:at] = new
    if rng.random() < 0.5:                        # and once more: re-create a break elsewhere in the block, remove it
        t2 = live[blk * lf + rng.randrange(1, lf)] if lf > 1 else brk
        ops.append(('set_text', t2, 'm\nn'))
        ops.append(('set_text', t2, 'mn'))
        ops.append(('ins_before', live[blk * lf], [free.pop()]))
    return texts, ops


def run_history(lf: int, texts: list[str], ops: list, all_iters_at=None) -> tuple[list[tuple[Any, dict]], list[dict]]:
    """Runs on the implementation; returns (steps with dumps, monitor failures).
    all_iters_at: step numbers after which iter(a, b) is probed for EVERY ordered pair of tokens (dumped for the
    model to answer, and compared with the plain list here) instead of three seeded pairs."""
    impl = Impl(lf, texts, eq_tokens=use_eq_tokens(lf, texts, ops))
    steps = []
    fails: list[dict] = []
    ref: list[int] = []                      # plain list reference (C07 monitor)
    elsewhere: set[int] = set()              # tokens sitting in a store this history has since replaced by a new one
    txt = {i + 1: t for i, t in enumerate(texts)}
    for n, op in enumerate(ops):
        before_ids = [impl.tid(t) for t in impl.store] if impl.store is not None else []
        before_objs = list(impl.store)
        res = impl.apply(op)
        impl.all_iter_pairs = all_iters_at is not None and n in all_iters_at
        d = impl.dump(res)
        steps.append((op, d))
        # ---- reference semantics
        exp_err = False
        k = op[0]
        if k == 'empty':
            elsewhere |= set(ref)
            ref = []
        elif k == 'from_tokens':
            if len(set(op[1])) != len(op[1]) or any(t in ref or t in elsewhere for t in op[1]):
                exp_err = True                          # listed twice / already in a store: no new store
            else:
                elsewhere |= set(ref)
                ref = list(op[1])
        elif k in ('ins_after', 'ins_before'):
            r_, new = op[1], op[2]
            if r_ is not None and r_ not in ref:
                exp_err = True
            elif any(t in ref or t in elsewhere for t in new) or len(set(new)) != len(new):
                exp_err = True
            else:
                i = 0 if r_ is None else ref.index(r_) + (1 if k == 'ins_after' else 0)
                ref[i:i] = new
        elif k == 'splice':
            new, a, b = op[1], op[2], op[3]
            if (a is not None and a not in ref) or (b is not None and b not in ref):
                exp_err = True
            else:
                i = 0 if a is None else ref.index(a)
                j = i if b is None else ref.index(b) + 1
                if j < i or (b is not None and ref.index(b) < i) or len(set(new)) != len(new):
                    exp_err = True                      # reversed range (del_end before ref, also directly before) / a token listed twice
                elif any(t in elsewhere or (t in ref and not (i <= ref.index(t) < j)) for t in new):
                    exp_err = True
                else:
                    ref[i:j] = new
        elif k == 'remove':
            a, b = op[1], op[2]
            if a not in ref or (b is not None and b not in ref):
                exp_err = True
            else:
                i = ref.index(a)
                j = ref.index(b if b is not None else a) + 1
                if j <= i:
                    exp_err = True                      # reversed range (the last token comes before the first, also directly before)
                else:
                    del ref[i:j]
        elif k == 'replace':
            # splice([r], t, t): r must be free or t itself (C07_replace_refines allows r = t: no change)
            if op[1] not in ref or (op[2] in ref and op[2] != op[1]) or op[2] in elsewhere:
                exp_err = True
            else:
                ref[ref.index(op[1])] = op[2]
        elif k == 'set_text':
            txt[op[1]] = op[2]
        where = {'lf': lf, 'texts': texts, 'ops': ops[:n + 1], 'step': n}
        if impl.all_iter_pairs:
            where['all_iters'] = True                   # replay probes every pair after every step
        if exp_err != (res != 0):
            fails.append({'sig': 'C07:refusal-mismatch', 'what': f'op {op} returned code {res}, list reference '
                          f'{"refuses" if exp_err else "accepts"} it', 'where': where})
            break
        # ---- C08, stated on the store's own iteration (independent of the list reference): the reported
        #      position of every token the store iterates is the (line, column) of its first character in the
        #      concatenation of the iterated tokens, and its reported index is its ordinal
        got = d['obs'][-1]
        line = col = 0
        c08 = None
        seen_twice = len(set(got)) != len(got)
        for i, t in enumerate(got):
            if not (1 <= t <= len(texts)) or seen_twice:
                break
            o = d['obs'][t - 1]
            if o[:2] != [0, i]:
                c08 = ('C08:index', f'get_index({t}) = {o[:2]}, but it is token number {i} of the store')
                break
            if o[2:5] != [0, line, col]:
                c08 = ('C08:position', f'get_position({t}) = {o[2:5]}, the concatenated text puts it at {(line, col)}')
                break
            sx = impl.toks[t].raw_text
            if '\n' in sx:
                line += sx.count('\n')
                col = len(sx) - sx.rfind('\n') - 1
            else:
                col += len(sx)
        if c08:
            fails.append({'sig': c08[0], 'what': f'after {op}: {c08[1]}', 'where': where})
        # ---- C07: the store is its own sequence: the list the caller passed to from_tokens stays the caller's
        if impl.src_list is not None and (len(impl.src_list) != len(impl.src_copy)
                                          or any(x is not y for x, y in zip(impl.src_list, impl.src_copy))):
            fails.append({'sig': 'C07:aliases-callers-list', 'what': f'after {op}: the list object passed to from_tokens was changed by a store operation', 'where': where})
            break
        # ---- C07: the store agrees with the plain list
        if got != ref:
            fails.append({'sig': 'C07:iteration', 'what': f'after {op}: iteration {got} != list {ref}', 'where': where})
            break
        if d['len'] != len(ref):
            fails.append({'sig': 'C07:len', 'what': f'after {op}: len {d["len"]} != {len(ref)}', 'where': where})
            break
        first = d['obs'][-3]
        last = d['obs'][-2]
        if first != [0, ref[0] if ref else -1] or last != [0, ref[-1] if ref else -1]:
            fails.append({'sig': 'C07:first-last', 'what': f'after {op}: first/last {first}/{last}', 'where': where})
            break
        # expected positions from the concatenated text
        line = col = 0
        exp_pos = {}
        for t in ref:
            exp_pos[t] = (line, col)
            s = txt[t]
            if '\n' in s:
                line += s.count('\n')
                col = len(s) - s.rfind('\n') - 1
            else:
                col += len(s)
        bad = None
        for t in range(1, len(texts) + 1):
            o = d['obs'][t - 1]
            h = d['handles'][t - 1]
            if t in exp_pos:
                i = ref.index(t)
                exp = [0, i, 0, exp_pos[t][0], exp_pos[t][1], 0, ref[i - 1] if i else -1,
                       0, ref[i + 1] if i + 1 < len(ref) else -1]
                if o[:2] != exp[:2]:
                    bad = ('C08:index' if False else 'C07:index', f'get_index({t}) = {o[:2]}, ordinal {i}')
                elif o[2:5] != exp[2:5]:
                    bad = ('C08:position', f'get_position({t}) = {o[2:5]}, text says {exp_pos[t]}')
                elif o[5:] != exp[5:]:
                    bad = ('C07:prev-next', f'prev/next of {t} = {o[5:]}, list says {exp[5:]}')
                elif h is None or h[0] < 0:
                    bad = ('C07:handle', f'token {t} is in the store but its handle is {h}')
                else:
                    blk = impl.store._blocks[h[0]]
                    if not (0 <= h[1] < len(blk.tokens)) or blk.tokens[h[1]] is not impl.toks[t]:
                        bad = ('C07:handle', f'token {t}: handle {h} does not point at it')
            else:
                if t in elsewhere:
                    # it sits in a store this history has replaced: its handle is that store's business, not this one's
                    if h is not None and h[0] != -1:
                        bad = ('C07:detached', f'token {t} of an earlier store has a handle {h} into this one')
                    elif o[0] != 1:
                        bad = ('C07:detached', f'get_index of token {t} of an earlier store returned {o[:2]}')
                elif h is not None:
                    bad = ('C07:detached', f'token {t} is not in the store but has handle {h}')
                elif o[0] != 1:
                    bad = ('C07:detached', f'get_index of detached token {t} returned {o[:2]}')
            if d['sizes'][t - 1] != (txt[t].count('\n'), len(txt[t]) - txt[t].rfind('\n') - 1):
                bad = ('C08:token-size', f'token {t} cached size {d["sizes"][t-1]} for text {txt[t]!r}')
            if bad:
                break
        if bad:
            fails.append({'sig': bad[0], 'what': f'after {op}: {bad[1]}', 'where': where})
            break
        # ---- C02: a text update keeps identity and order of every token
        if k == 'set_text':
            after_objs = list(impl.store)
            if len(after_objs) != len(before_objs) or any(x is not y for x, y in zip(after_objs, before_objs)):
                fails.append({'sig': 'C02:identity', 'what': f'{op} changed token identity/order', 'where': where})
                break
            for t in range(1, len(texts) + 1):
                if impl.toks[t].raw_text != txt[t]:
                    fails.append({'sig': 'C02:other-text', 'what': f'{op}: token {t} text is {impl.toks[t].raw_text!r}, '
                                  f'expected {txt[t]!r}', 'where': where})
                    break
        # ---- sub-range iteration (C07): every ordered pair of tokens, when asked for
        if impl.all_iter_pairs:
            for a, b, r in d['iters']:
                if a in ref and b in ref:
                    exp = [0] + ref[ref.index(a):ref.index(b) + 1]
                else:
                    exp = [1, EXN_CODE['ValueError']]
                if r != exp:
                    fails.append({'sig': 'C07:iter-range', 'what': f'after {op}: iter({a},{b}) = {r} (0 :: ids | 1, exception '
                                  f'code), the list says {exp}', 'where': where})
                    break
            if fails:
                break
        # ---- sub-range iteration (C07)
        if ref:
            rr = random.Random(n * 7919 + len(ref))
            for _ in range(3):
                i = rr.randrange(len(ref))
                j = rr.randrange(i, len(ref)) if rr.random() < 0.75 else rr.randrange(len(ref))   # also start after end
                got = [impl.tid(t) for t in impl.store.iter(impl.toks[ref[i]], impl.toks[ref[j]])]
                if got != ref[i:j + 1]:
                    fails.append({'sig': 'C07:iter-range', 'what': f'iter({ref[i]},{ref[j]}) = {got} != {ref[i:j+1]}',
                                  'where': where})
                    break
            if fails:
                break
    # ---- C07: a token that sits in ANOTHER store is never accepted, even at the same (block, index) coordinates
    if not fails and impl.store is not None and len(ref) >= 1:
        other = ts_lib.TokenStore.from_tokens([ts_lib.Token(impl.toks[t].raw_text) for t in ref])
        olist = list(other)
        k = (len(ref) * 7 + len(ops)) % len(ref)
        a_tok, b_tok = impl.toks[ref[k]], olist[k]
        before_a, before_b = list(impl.store), list(other)
        for how in ('replace', 'splice'):
            try:
                if how == 'replace':
                    impl.store.replace(a_tok, b_tok)
                else:
                    impl.store.splice([b_tok], a_tok, a_tok)
                refused = False
            except ValueError:
                refused = True
            after_a, after_b = list(impl.store), list(other)
            if (not refused or len(after_a) != len(before_a) or any(x is not y for x, y in zip(after_a, before_a))
                    or len(after_b) != len(before_b) or any(x is not y for x, y in zip(after_b, before_b))):
                fails.append({'sig': 'C07:foreign-store-token-accepted',
                              'what': f'{how} of token #{k} by the token at the same position of another store was '
                                      f'{"accepted" if not refused else "refused but changed a store"}',
                              'where': {'lf': lf, 'texts': texts, 'ops': ops, 'step': len(ops)}})
                break
        # ---- ... nor is a REFERENCE token of another store: every mutator, observer and the store-level update
        #      raise ValueError and neither store changes (C07_bad_reference_refused / C07_observers)
        if not fails:
            spare = ts_lib.Token('zz')
            a_next = impl.toks[ref[(k + 1) % len(ref)]]
            calls = [
                ('insert_after(foreign, [free])', lambda: impl.store.insert_after(b_tok, [spare])),
                ('insert_before(foreign, [free])', lambda: impl.store.insert_before(b_tok, [spare])),
                ('splice([free], foreign, None)', lambda: impl.store.splice([spare], b_tok, None)),
                ('splice([], own, foreign)', lambda: impl.store.splice([], a_tok, b_tok)),
                ('splice([], foreign, own)', lambda: impl.store.splice([], b_tok, a_tok)),
                ('remove(foreign)', lambda: impl.store.remove(b_tok)),
                ('remove(own, foreign)', lambda: impl.store.remove(a_tok, b_tok)),
                ('replace(foreign, free)', lambda: impl.store.replace(b_tok, spare)),
                ('get_index(foreign)', lambda: impl.store.get_index(b_tok)),
                ('get_position(foreign)', lambda: impl.store.get_position(b_tok)),
                ('get_prev(foreign)', lambda: impl.store.get_prev(b_tok)),
                ('get_next(foreign)', lambda: impl.store.get_next(b_tok)),
                ('iter(foreign, own)', lambda: list(impl.store.iter(b_tok, a_next))),
                ('iter(own, foreign)', lambda: list(impl.store.iter(a_tok, b_tok))),
                ('update(foreign, ...)', lambda: impl.store.update(b_tok, 'q', ts_lib._token_size('q'))),
            ]
            for how, call in calls:
                try:
                    call()
                    refused = False
                except ValueError:
                    refused = True
                after_a, after_b = list(impl.store), list(other)
                same = (len(after_a) == len(before_a) and all(x is y for x, y in zip(after_a, before_a))
                        and len(after_b) == len(before_b) and all(x is y for x, y in zip(after_b, before_b))
                        and len(impl.store) == len(before_a) and len(other) == len(before_b)
                        and spare.store_handle is None)
                if not refused or not same:
                    fails.append({'sig': 'C07:foreign-store-reference-accepted',
                                  'what': f'{how} with the token at position #{k} of another store was '
                                          f'{"accepted" if not refused else "refused but changed a store"}',
                                  'where': {'lf': lf, 'texts': texts, 'ops': ops, 'step': len(ops)}})
                    break
    return steps, fails
