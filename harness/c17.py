"""C17 - spacing accessors read and write exactly the whitespace between neighbours.

Model: coq/theories/Spacing.v (proofs SpacingProofs.v, statements properties/C17.v, glue SpacingRun.v).
The ledger generator and the model walker at the top are shared with c18.py.
"""
from __future__ import annotations

import json
import re

from harness import common

PREAMBLE = 'From AB Require Import Prelude Spacing SpacingRun.'
SPACING_LANG = re.compile(r'(?:[ \t]|\r*\n)*')


# ---------------------------------------------------------------------------------------------
# ledger generator (valid beancount in many layouts)
ACCOUNTS = ['Assets:Foo', 'Assets:Bar:Baz', 'Expenses:Food', 'Income:Job', 'Liabilities:Card']
CURRENCIES = ['USD', 'EUR', 'GBP']
KEYS = ['foo', 'bar', 'baz', 'qux', 'k1']
INDENTS = ['    ', '  ', '\t', ' \t', '        ', ' ', '\t\t', '      ']


def gen_ws(rng) -> str:
    return rng.choice([' ', ' ', ' ', '  ', '\t', ' \t', '   '])


def gen_value(rng) -> str:
    return rng.choice(['1', '"x"', 'USD', '2000-01-01', 'Assets:Foo', '1.5 USD', 'TRUE', '#t', '"a b"', '2 * 3'])


def gen_meta_lines(rng, indent_pool: list[str], n: int, comments: bool = True) -> list[str]:
    lines = []
    keys = list(KEYS)
    rng.shuffle(keys)
    for k in keys[:n]:
        ind = rng.choice(indent_pool)
        if comments and rng.random() < 0.25:
            lines.append(f'{rng.choice(indent_pool)}; c {k}')
        val = (gen_ws(rng) + gen_value(rng)) if rng.random() < 0.9 else ''
        tail = (gen_ws(rng) + '; ic') if rng.random() < 0.15 else ''
        lines.append(f'{ind}{k}:{val}{tail}')
    if comments and lines and rng.random() < 0.15:
        lines.append(f'{rng.choice(indent_pool)}; last')
    return lines


def indent_pool(rng, base: str = '') -> list[str]:
    """uniform (most often), tabs, or mixed indentation for one block of sibling lines"""
    r = rng.random()
    if r < 0.6:
        return [base + rng.choice(INDENTS)]
    if r < 0.8:
        return [base + rng.choice(['\t', '\t\t'])]
    return [base + x for x in rng.sample(INDENTS, 2)]


def gen_directive(rng, k: int) -> list[str]:
    date = f'20{rng.randrange(10, 30)}-0{rng.randrange(1, 10)}-1{rng.randrange(0, 10)}'
    w = lambda: gen_ws(rng)
    kind = rng.choice(['open', 'open', 'close', 'balance', 'note', 'commodity', 'price', 'event', 'txn', 'txn',
                       'txn', 'txn', 'option', 'include', 'pad', 'document', 'query', 'custom'])
    acc = rng.choice(ACCOUNTS)
    cur = rng.choice(CURRENCIES)
    tail = (w() + '; inline') if rng.random() < 0.15 else (w() if rng.random() < 0.08 else '')
    lines: list[str]
    if kind == 'option':
        return [f'option{w()}"title"{w()}"x"{tail}']
    if kind == 'include':
        return [f'include{w()}"a.bean"{tail}']
    if kind == 'open':
        curs = ''
        if rng.random() < 0.6:
            curs = w() + (',' + rng.choice(['', ' '])).join(rng.sample(CURRENCIES, rng.randrange(1, 3)))
        head = f'{date}{w()}open{w()}{acc}{curs}{tail}'
    elif kind == 'close':
        head = f'{date}{w()}close{w()}{acc}{tail}'
    elif kind == 'balance':
        head = f'{date}{w()}balance{w()}{acc}{w()}10.00{w()}{cur}{tail}'
    elif kind == 'note':
        head = f'{date}{w()}note{w()}{acc}{w()}"n"{tail}'
    elif kind == 'commodity':
        head = f'{date}{w()}commodity{w()}{cur}{tail}'
    elif kind == 'price':
        head = f'{date}{w()}price{w()}{cur}{w()}1.2{w()}EUR{tail}'
    elif kind == 'event':
        head = f'{date}{w()}event{w()}"a"{w()}"b"{tail}'
    elif kind == 'pad':
        head = f'{date}{w()}pad{w()}{acc}{w()}Equity:Open{tail}'
    elif kind == 'document':
        head = f'{date}{w()}document{w()}{acc}{w()}"/p.pdf"{tail}'
    elif kind == 'query':
        head = f'{date}{w()}query{w()}"q"{w()}"select 1"{tail}'
    elif kind == 'custom':
        head = f'{date}{w()}custom{w()}"c"{w()}1{w()}TRUE{tail}'
    else:
        flag = rng.choice(['*', '!', 'txn'])
        strs = rng.choice(['', f'{w()}"narr"', f'{w()}"payee"{w()}"narr"'])
        tags = rng.choice(['', '', f'{w()}#tag', f'{w()}^link{w()}#t2'])
        head = f'{date}{w()}{flag}{strs}{tags}{tail}'
    lines = [head]
    pool = indent_pool(rng)
    n_meta = rng.choice([0, 0, 1, 2, 3])
    lines += gen_meta_lines(rng, pool, n_meta)
    if kind == 'txn':
        ppool = pool if rng.random() < 0.7 else indent_pool(rng)
        for _ in range(rng.choice([0, 1, 2, 2, 3])):
            pind = rng.choice(ppool)
            if rng.random() < 0.2:
                lines.append(f'{pind}; about posting')
            pflag = rng.choice(['', '', '! '])
            amount = rng.choice(['', f'{w()}100.00{w()}{cur}', f'{w()}-1.5{w()}{cur}{w()}@{w()}2{w()}EUR',
                                 f'{w()}5{w()}{cur}{w()}{{1.1{w()}EUR}}'])
            ptail = (w() + '; pc') if rng.random() < 0.15 else ''
            lines.append(f'{pind}{pflag}{rng.choice(ACCOUNTS)}{amount}{ptail}')
            mpool = indent_pool(rng, pind) if rng.random() < 0.8 else indent_pool(rng)
            lines += gen_meta_lines(rng, mpool, rng.choice([0, 0, 1, 2, 3]))
            if rng.random() < 0.1:
                lines.append(f'{pind}; after posting')
    return lines


def gen_ledger(rng, n_dir: int) -> str:
    nl = rng.choice(['\n', '\n', '\n', '\r\n'])
    mixed = rng.random() < 0.15
    out: list[str] = []
    if rng.random() < 0.3:
        out += ['; top comment'] + ([''] if rng.random() < 0.5 else [])
    for k in range(n_dir):
        out += gen_directive(rng, k)
        r = rng.random()
        if r < 0.45:
            out.append('')
        elif r < 0.55:
            out += ['', rng.choice(['  ', '\t', ''])]
        elif r < 0.7:
            out += ['', '; between' if rng.random() < 0.7 else '  ; indented between', '']
    text = ''
    for ln in out:
        text += ln + (rng.choice(['\n', '\r\n']) if mixed else nl)
    if rng.random() < 0.2:
        text = text.rstrip('\r\n')
        if not text:
            text = '; x'
    return text


# ---------------------------------------------------------------------------------------------
# implementation side
def impl():
    from autobean_refactor import parser as parser_lib, models
    from autobean_refactor.models import base
    from autobean_refactor.models.spacing import Newline, Whitespace
    from autobean_refactor.models.internal import spacing_accessors
    return parser_lib, models, base, Newline, Whitespace, spacing_accessors


_PARSER = None


def parse_file(text: str):
    global _PARSER
    parser_lib, models, *_ = impl()
    if _PARSER is None:
        _PARSER = parser_lib.Parser()
    return _PARSER.parse(text, models.File)


def walk(model) -> list:
    """Every model below `model` (tree models, token models, items of repeated fields), in a fixed order."""
    _, _, base, *_ = impl()
    out, seen = [], set()

    def rec(m):
        if id(m) in seen:
            return
        seen.add(id(m))
        out.append(m)
        if isinstance(m, base.RawTreeModel):
            for name, v in vars(m).items():
                if name == '_token_store':
                    continue
                if isinstance(v, base.RawModel):
                    rec(v)
                elif isinstance(v, list):
                    for x in v:
                        if isinstance(x, base.RawModel):
                            rec(x)
    rec(model)
    return out


def kind_of(t) -> int:
    _, _, _, Newline, Whitespace, _ = impl()
    return 0 if isinstance(t, Whitespace) else 1 if isinstance(t, Newline) else 2


def dump(store) -> list[tuple[int, str]]:
    return [(kind_of(t), t.raw_text) for t in store]


def coq_tok(k: int, s: str) -> str:
    # the model is parametric in the text of non-spacing tokens: keep only emptiness and two characters
    if k == 2:
        s = s[:2]
    return f'T {k} {common.coq_str(s)}'


def coq_toks(ts) -> str:
    return common.coq_list(coq_tok(k, s) for k, s in ts)


def oracle_after(toks: list[tuple[int, str]], j: int) -> str:
    """The property's wording, on a plain list: skip zero-width tokens, then the maximal run of
    Newline/Whitespace tokens. Written as a regular expression over a one-letter-per-token string."""
    letters = ''.join(('z' if not s else 's') if k < 2 else ('e' if not s else 'o') for k, s in toks[j + 1:])
    m = re.match(r'[ez]*([sz]*)', letters)
    a, b = m.span(1)
    return ''.join(s for _, s in toks[j + 1 + a:j + 1 + b])


def oracle_before(toks: list[tuple[int, str]], i: int) -> str:
    rev = list(reversed(toks[:i]))
    letters = ''.join(('z' if not s else 's') if k < 2 else ('e' if not s else 'o') for k, s in rev)
    m = re.match(r'[ez]*([sz]*)', letters)
    a, b = m.span(1)
    return ''.join(s for _, s in reversed(rev[a:b]))


def letters_of(toks) -> str:
    return ''.join(('z' if not s else 's') if k < 2 else ('e' if not s else 'o') for k, s in toks)


SPLIT_RE = re.compile(r'[ez]*s[sz]*e[ez]*s')       # blanks, a zero-width mark (not spacing), blanks again
FINDING = 'C17:both-sides:blanks-before-eol'


def text_run_after(toks: list[tuple[int, str]], j: int) -> str:
    """The property's wording on the PRINTED TEXT: the maximal run of blanks/newlines that follows the model's
    characters. Zero-width tokens print nothing; the run ends at the first character printed by a token that is
    not Newline/Whitespace (indentation belongs to Indent / comment tokens: docs/special/indents.md)."""
    out = ''
    for k, s in toks[j + 1:]:
        if not s:
            continue
        if k == 2:
            break
        out += s
    return out


def text_run_before(toks: list[tuple[int, str]], i: int) -> str:
    out = ''
    for k, s in reversed(toks[:i]):
        if not s:
            continue
        if k == 2:
            break
        out = s + out
    return out


def split_after(toks, j: int) -> bool:
    return SPLIT_RE.match(letters_of(toks[j + 1:])) is not None


def split_before(toks, i: int) -> bool:
    return SPLIT_RE.match(letters_of(list(reversed(toks[:i])))) is not None


SPACINGS = ['', '\n', ' ', ' \t', '\r\n\n  ', '\t', '\n\n', '\r\n', '\r\r\n', '  \n\t', '\n    ', ' ' * 7]
OUTSIDE = ['\r', 'x', ' a\n', '\r \n', '\n\r', '\\n', '\r\rx\n ']


def gen_spacing(rng, allow_outside: bool) -> str:
    r = rng.random()
    if r < 0.55:
        return rng.choice(SPACINGS)
    if allow_outside and r < 0.65:
        return rng.choice(OUTSIDE)
    return ''.join(rng.choice([' ', '\t', '\n', '\r\n', ' ', '\n']) for _ in range(rng.randrange(1, 6)))


def in_language(s: str) -> bool:
    return SPACING_LANG.fullmatch(s) is not None


def gen_ops(rng, n_models: int, n_ops: int) -> list[list]:
    ops = []
    for _ in range(n_ops):
        m = rng.randrange(n_models)
        side = rng.choice(['after', 'before'])
        r = rng.random()
        if r < 0.8:
            ops.append([m, side, 'str', gen_spacing(rng, True)])
        else:
            toks = [[rng.choice([0, 1]), rng.choice(['', ' ', '\n', '\t ', '\r\n', ''])]
                    for _ in range(rng.randrange(0, 4))]
            toks = [[k, (s if (k == 0 and '\n' not in s) or (k == 1 and s.endswith('\n')) or not s else
                         (' ' if k == 0 else '\n'))] for k, s in toks]
            ops.append([m, side, 'raw', toks])
    return ops


PIECES = [' ', '\t', '\n', '\r\n', '\n', '\n']
SHORT = ['\n\n', '\n', ' ', '', '\n  ', '\r\n', '\t', '\n\n']


def gen_grow_shrink(rng, n_models: int) -> list[list]:
    """Grow a spacing run to k in 4..40 tokens, then shrink it: on the first / second model of the file and on
    random ones, both sides, once to three times per document."""
    ops = []
    for _ in range(rng.randrange(1, 4)):
        m = rng.choice([0, 0, 1, 1, 2, rng.randrange(n_models), rng.randrange(n_models), n_models - 1])
        side = rng.choice(['before', 'before', 'after'])
        k = rng.randrange(4, 41)
        if rng.random() < 0.4:
            long = '\n' * k
        else:
            long, prev_blank = '', False
            for _ in range(k):
                pc = rng.choice(PIECES)
                if prev_blank and pc in (' ', '\t'):
                    pc = '\n'            # keep it k tokens: adjacent blanks would merge into one Whitespace
                prev_blank = pc in (' ', '\t')
                long += pc
        ops.append([m, side, 'str', long])
        if rng.random() < 0.3:
            ops.append([m, rng.choice(['before', 'after']), 'str', rng.choice(SHORT + ['\n' * rng.randrange(3, 12)])])
        ops.append([m, side, 'str', rng.choice(SHORT)])
        if rng.random() < 0.3:
            ops.append([rng.randrange(n_models), rng.choice(['before', 'after']), 'str', gen_spacing(rng, False)])
    return ops


class DocRun:
    """Runs getters and a history of spacing assignments on one parsed ledger; collects the Coq cases
    and evaluates the monitors (the statements of C17 on the implementation)."""

    def __init__(self, text: str, ops: list[list], get_sample: int, rng=None, lf=None):
        self.text, self.ops, self.lf = text, ops, lf
        self.cases: list[str] = []
        self.layout_case = ''
        self.fails: list[dict] = []
        self.findings: list[dict] = []
        self.stats = {'models': 0, 'getter_checks': 0, 'pairs': 0, 'sets': 0, 'no_store': 0, 'shape_kept': 0,
                      'shape_broken': 0}
        self.get_sample = get_sample
        self.rng = rng

    def fail(self, sig, what, k):
        self.fails.append({'sig': sig, 'what': what,
                           'witness': {'text': self.text, 'ops': self.ops[:k], 'lf': self.lf}})

    def index(self):
        return {id(t): n for n, t in enumerate(self.store)}

    def finding(self, what, k):
        """The known deviation (a zero-width mark splits the run): reported once per document, does not stop the run."""
        if not self.findings:
            self.findings.append({'sig': FINDING, 'what': what,
                                  'witness': {'text': self.text, 'ops': self.ops[:k], 'lf': self.lf}})
        self.stats['mark_splits_run'] = self.stats.get('mark_splits_run', 0) + 1

    def check_getters(self, k: int, toks, idx):
        """C17 getter clause on the printed text, for every model with a store, both sides."""
        for n, m in enumerate(self.models):
            if m.token_store is None:
                continue
            i, j = idx.get(id(m.first_token)), idx.get(id(m.last_token))
            if i is None or j is None:
                continue
            self.stats['getter_checks'] += 1
            got_a, got_b = m.spacing_after, m.spacing_before
            if ''.join(t.raw_text for t in m.raw_spacing_after) != got_a or \
                    ''.join(t.raw_text for t in m.raw_spacing_before) != got_b:
                self.fail('C17:getter', 'raw_spacing_* and spacing_* disagree', k)
                return
            for side, got, want, split, scan in (
                    ('after', got_a, text_run_after(toks, j), split_after(toks, j), oracle_after(toks, j)),
                    ('before', got_b, text_run_before(toks, i), split_before(toks, i), oracle_before(toks, i))):
                if got == want:
                    continue
                if split and got == scan:
                    self.finding(f'{type(m).__name__}.spacing_{side} = {got!r} but the run of blanks/newlines adjacent '
                                 f'to it in the text is {want!r}: a zero-width mark (end-of-line mark, placeholder) '
                                 f'sits inside the run and the scan stops there', k)
                    continue
                self.fail('C17:getter', f'{type(m).__name__}.spacing_{side} = {got!r}, the adjacent run of '
                          f'blanks/newlines in the text is {want!r}', k)
                return

    def pair(self, k, toks, ma, mb, gap) -> bool:
        """both-sides clause for one pair: ma ends where the gap starts, mb starts where it ends."""
        self.stats['pairs'] += 1
        between = ''.join(s for _, s in gap)
        sa, sb = ma.spacing_after, mb.spacing_before
        if sa == sb == between:
            return True
        letters = letters_of(gap)
        if re.fullmatch(r'[ez]*[sz]*[ez]*', letters) is None:
            # spacing - mark - spacing: each side must then report its own part of the run
            self.stats['shape_broken'] += 1
            m1 = re.match(r'[ez]*([sz]*)', letters)
            m2 = re.match(r'[ez]*([sz]*)', letters[::-1])
            exp_a = ''.join(s for _, s in gap[m1.start(1):m1.end(1)])
            exp_b = ''.join(s for _, s in gap[len(gap) - m2.end(1):len(gap) - m2.start(1)])
            if sa == exp_a and sb == exp_b:
                self.finding(f'{type(ma).__name__}.spacing_after = {sa!r} but the following '
                             f'{type(mb).__name__}.spacing_before = {sb!r}; the text between them is the single run '
                             f'{between!r}, split by a zero-width mark', k)
                return True
        self.fail('C17:both-sides', f'{type(ma).__name__}.spacing_after = {sa!r}, the following '
                  f'{type(mb).__name__}.spacing_before = {sb!r}, the text between them is {between!r} '
                  f'(gap {letters!r})', k)
        return False

    def check_both_sides(self, k: int, toks, fresh: bool):
        """Adjacent models see the same run, on the printed text: consecutive visible tokens, and (tree level) a
        model and every model that starts at the next visible token."""
        store_list = list(self.store)
        vis = [n for n, (kk, s) in enumerate(toks) if kk == 2 and s]
        for a, b in zip(vis, vis[1:]):
            ta, tb = store_list[a], store_list[b]
            if not hasattr(ta, 'spacing_after') or not hasattr(tb, 'spacing_before'):
                continue
            if re.fullmatch(r'[ez]*[sz]*[ez]*', letters_of(toks[a + 1:b])) is not None:
                self.stats['shape_kept'] += 1
            if not self.pair(k, toks, ta, tb, toks[a + 1:b]):
                return
        if not fresh:
            # tree level only on the document as parsed: a model may END in blanks (directive with blanks before its
            # end-of-line mark); once an edit removes the line break behind it the next model's run reaches into it
            return
        idx = self.index()
        starts: dict[int, list] = {}
        for m in self.models:
            if m.token_store is not None and id(m.first_token) in idx:
                starts.setdefault(idx[id(m.first_token)], []).append(m)
        for m in self.models:
            if m.token_store is None or id(m.last_token) not in idx:
                continue
            j = idx[id(m.last_token)]
            nxt = next((v for v in vis if v > j), None)
            if nxt is None:
                continue
            for m2 in starts.get(nxt, []):
                if not self.pair(k, toks, m, m2, toks[j + 1:nxt]):
                    return

    def run(self):
        """With self.lf set, the token store's load factor is pinned to it for the whole run (documents of a few
        dozen tokens then span many blocks, so long spacing runs are multi-block splices)."""
        from harness import store_driver as sd
        if self.lf is None:
            return self._run()
        pinned = getattr(sd, 'LF_PINNED', False)
        sd.LF_PINNED = True
        sd.set_load_factor(self.lf)
        try:
            return self._run()
        finally:
            sd.LF_PINNED = pinned
            sd.set_load_factor(1000)

    def _run(self):
        _, models, base, Newline, Whitespace, _ = impl()
        f = parse_file(self.text)
        self.store = f.token_store
        self.models = [m for m in walk(f)[1:] if hasattr(type(m), 'spacing_before')]
        seen = {id(m) for m in self.models}
        # ownerless tokens with accessors too (unclaimed comments; Whitespace/Newline themselves have none)
        self.models += [t for t in self.store if id(t) not in seen and hasattr(type(t), 'spacing_before')]
        self.stats['models'] = len(self.models)
        toks = dump(self.store)
        if ''.join(s for _, s in toks) != self.text:
            self.fail('C01:roundtrip', 'store text differs from the input', 0)
        self.layout_case = coq_toks(toks)
        idx = self.index()
        self.check_getters(0, toks, idx)
        self.check_both_sides(0, toks, True)
        # getter cases for the correspondence
        order = list(range(len(self.models)))
        if self.rng is not None:
            self.rng.shuffle(order)
        for n in order[:self.get_sample]:
            m = self.models[n]
            self.cases.append(self.coq_case(toks, idx, m, 'OGet', [], idx[id(m.first_token)], ''))
        for k, (n, side, kind, payload) in enumerate(self.ops, 1):
            m = self.models[n % len(self.models)]
            toks = dump(self.store)
            idx = self.index()
            text_b = ''.join(s for _, s in toks)
            if m.token_store is None:
                # a spacing token that an earlier assignment removed from the store
                self.stats['no_store'] += 1
                ok = m.raw_spacing_before == () and m.raw_spacing_after == () and m.spacing_after == ''
                try:
                    setattr(m, 'spacing_' + side, ' ')
                    ok = False
                except ValueError:
                    pass
                if not ok or dump(self.store) != toks:
                    self.fail('C17:no-store', 'accessors of a model without a store', k)
                continue
            i, j = idx[id(m.first_token)], idx[id(m.last_token)]
            old = getattr(m, 'spacing_' + side)
            raw_b = [(kind_of(t), t.raw_text) for t in m.raw_spacing_before]
            raw_a = [(kind_of(t), t.raw_text) for t in m.raw_spacing_after]
            other_ids = [id(t) for t in self.store if kind_of(t) == 2]
            try:
                if kind == 'str':
                    op = f'(OSet{side.capitalize()} {common.coq_str(payload)})'
                    setattr(m, 'spacing_' + side, payload)
                else:
                    new = [(Whitespace if kk == 0 else Newline).from_raw_text(s) for kk, s in payload]
                    op = f'(ORaw{side.capitalize()} {coq_toks([(kk, s) for kk, s in payload])})'
                    setattr(m, 'raw_spacing_' + side, new)
                readback = getattr(m, 'spacing_' + side)
                toks2 = dump(self.store)
                idx2 = self.index()
                idx2[id(m.first_token)]
            except Exception as e:
                self.fail('C17:set-frame', f'{type(m).__name__}.spacing_{side} = {payload!r} (was {old!r}) raised '
                          f'{type(e).__name__}: {e}' + (f' [load factor {self.lf}]' if self.lf else ''), k)
                break
            self.stats['sets'] += 1
            self.max_run = max(getattr(self, 'max_run', 0), len(raw_b), len(raw_a))
            self.cases.append(
                f'mkcase {coq_toks(toks)} {i} {j} {coq_toks(raw_b)} {coq_toks(raw_a)} {op} '
                f'{coq_toks(toks2)} {idx2[id(m.first_token)]} {common.coq_str(readback)}')
            # ---- monitors: the statement on the printed text
            text_a = ''.join(s for _, s in toks2)
            if len(self.store) != len(toks2):
                self.fail('C17:set-frame', f'after {type(m).__name__}.spacing_{side} = {payload!r} the store reports '
                          f'{len(self.store)} tokens but holds {len(toks2)}', k)
            if [id(t) for t in self.store if kind_of(t) == 2] != other_ids:
                self.fail('C17:set-frame', 'a token that is not Newline/Whitespace was added, removed or moved', k)
            if kind == 'str' and in_language(payload):
                p = sum(len(s) for _, s in toks[:j + 1]) if side == 'after' \
                    else sum(len(s) for _, s in toks[:i]) - len(old)
                exp = text_b[:p] + payload + text_b[p + len(old):]
                if p < 0 or text_b[p:p + len(old)] != old or text_a != exp:
                    self.fail('C17:set-frame', f'{type(m).__name__}.spacing_{side} = {payload!r} (was {old!r}): the '
                              f'text is not the old text with exactly that run replaced '
                              f'(length {len(text_b)} -> {len(text_a)})', k)
                elif len(text_a) - len(text_b) != len(payload) - len(old):
                    self.fail('C17:set-frame', 'length changed by something else than the difference', k)
                if payload and readback != payload:
                    self.fail('C17:set-readback', f'{type(m).__name__}.spacing_{side} = {payload!r} reads back as '
                              f'{readback!r}', k)
            self.check_getters(k, toks2, idx2)
            self.check_both_sides(k, toks2, False)
            if self.fails:
                break
        return self

    def coq_case(self, toks, idx, m, op, toks2, first2, readback):
        raw_b = [(kind_of(t), t.raw_text) for t in m.raw_spacing_before]
        raw_a = [(kind_of(t), t.raw_text) for t in m.raw_spacing_after]
        return (f'mkcase {coq_toks(toks)} {idx[id(m.first_token)]} {idx[id(m.last_token)]} {coq_toks(raw_b)} '
                f'{coq_toks(raw_a)} {op} {coq_toks(toks2)} {first2} {common.coq_str(readback)}')


def t2t_cases(rng, n: int):
    *_, sa = impl()
    out = []
    pool = SPACINGS + OUTSIDE
    for k in range(n):
        s = pool[k] if k < len(pool) else ''.join(rng.choice(' \t\r\n\na') for _ in range(rng.randrange(0, 9)))
        toks = [(kind_of(t), t.raw_text) for t in sa._text_to_tokens(s)]
        out.append((s, toks, in_language(s)))
    return out


# ---------------------------------------------------------------------------------------------
def run_all(ctx: common.Ctx):
    n_docs = ctx.scale(120, 800)
    n_ops = 8 if ctx.quick else 14
    cases, metas, layouts, lay_meta = [], [], [], []
    parsed = 0
    for d in range(n_docs * 2):
        if parsed >= n_docs:
            break
        text = gen_ledger(ctx.rng, ctx.rng.choice([1, 2, 2, 3]))
        try:
            f = parse_file(text)
        except Exception as e:
            ctx.count('generated_not_accepted')
            continue
        parsed += 1
        n_models = len(walk(f)) - 1
        if d % 3 == 2:
            # long runs across store blocks: explicit small load factor, grow then shrink
            lf = ctx.rng.choice([2, 3, 4])
            ops = gen_grow_shrink(ctx.rng, max(n_models, 1))
            run = DocRun(text, ops, 1, ctx.rng, lf=lf).run()
            ctx.dist(f'grow-shrink/lf={lf}')
            ctx.dist(f'grow-shrink/max_run={min(getattr(run, "max_run", 0) // 10 * 10, 40)}+')
        else:
            ops = gen_ops(ctx.rng, max(n_models, 1), n_ops)
            run = DocRun(text, ops, 4, ctx.rng).run()
        for f_ in run.fails + run.findings:
            if f_['sig'].startswith('C17'):
                ctx.monitor_failure(f_['sig'], f_['what'], f_['witness'])
            else:
                ctx.notes.append(f'(belongs to {f_["sig"]}) {f_["what"]}')
        for key, v in run.stats.items():
            ctx.count(key, v)
        ctx.case({'chars': len(text), 'crlf': '\r\n' in text, 'tabs': '\t' in text, 'models': run.stats['models'],
                  'ops': [(o[1], o[2], o[3] if o[2] == 'str' else len(o[3])) for o in ops][:6]},
                 nontrivial=run.stats['sets'] > 0)
        ctx.dist('newline=' + ('crlf' if '\r\n' in text else 'lf'))
        ctx.dist('final_newline=' + str(text.endswith('\n')))
        for o in ops:
            ctx.dist(f'op={o[1]}/{o[2]}')
            if o[2] == 'str':
                ctx.dist('string=' + ('empty' if not o[3] else 'in-language' if in_language(o[3]) else 'outside'))
        for c in run.cases:
            cases.append(c)
            metas.append((text, ops, run.lf))
        layouts.append(run.layout_case)
        lay_meta.append(text)
    # a model without a store (a free token): getters give nothing, setters refuse
    _, models, *_ = impl()
    free = models.Account.from_value('Assets:Free')
    ok = free.raw_spacing_before == () and free.raw_spacing_after == () and free.spacing_before == '' \
        and free.spacing_after == ''
    for attr, val in (('spacing_before', ' '), ('spacing_after', '\n'), ('raw_spacing_before', ()),
                      ('raw_spacing_after', ())):
        try:
            setattr(free, attr, val)
            ok = False
        except ValueError:
            pass
    if not ok:
        ctx.monitor_failure('C17:no-store', 'accessors of a free token: getters must give nothing and setters raise '
                            'ValueError', {'free_token': True})
    # correspondence: accessors
    bad = ctx.run_coq_cases('spacing', PREAMBLE, 'scase', 'check_case', cases, chunk=60)
    ctx.count('traces_validated_against_impl', len(cases) - len(bad))
    for i in bad[:3]:
        text, ops, lf = metas[i]
        ctx.fail('corr', 'spacing-correspondence',
                 'Spacing.v and spacing_accessors.py disagree (getter result, store after an assignment, or read-back)',
                 {'text': text, 'ops': ops, 'lf': lf, 'case': cases[i][:1500]})
    # correspondence: _text_to_tokens and the recogniser of the quantifier's language
    t2t = t2t_cases(ctx.rng, ctx.scale(150, 1500))
    t_cases = [f'({common.coq_str(s)}, {coq_toks(ts)}, {common.coq_bool(b)})' for s, ts, b in t2t]
    bad = ctx.run_coq_cases('t2t', PREAMBLE, 'str * list tok * bool', 'check_t2t', t_cases, chunk=400)
    ctx.count('traces_validated_against_impl', len(t_cases) - len(bad))
    for i in bad[:3]:
        ctx.fail('corr', 't2t-correspondence', f'_text_to_tokens({t2t[i][0]!r}) = {t2t[i][1]!r}: the model differs',
                 {'string': t2t[i][0]})
    # monitor for _text_to_tokens: strings of the language are tokenised without loss
    for s, ts, b in t2t:
        if b and (''.join(x for _, x in ts) != s or any(k == 2 or not x for k, x in ts)):
            ctx.monitor_failure('C17:tokenise', f'_text_to_tokens({s!r}) loses or mislabels characters', {'string': s})
    # hypothesis of C17_both_sides, validated on every parsed document
    bad = ctx.run_coq_cases('layout', PREAMBLE, 'list tok', 'check_layout', layouts, chunk=60)
    ctx.count('layout_hypothesis_validated', len(layouts) - len(bad))
    for i in bad[:3]:
        ctx.fail('corr', 'layout-hypothesis', 'a parsed document has a Newline/Whitespace token with non-blank text '
                 '(hypothesis of the character-level frame statement)', {'text': lay_meta[i]})


def run(ctx: common.Ctx):
    ctx.rule = ('generated ledgers (12 directive kinds, postings, meta, block/inline comments, tabs and mixed indents, '
                'LF/CRLF/mixed, missing final newline) parsed with the real Parser; per ledger every model (tree and '
                'token) is read from both sides and a seeded history of spacing assignments (strings incl. "", "\\n", '
                '" \\t", "\\r\\n\\n  ", strings outside the language, raw token lists) is applied; every third ledger instead '
                'runs grow-then-shrink scenarios (a run of 4..40 spacing tokens, then collapsed) on the first models of the '
                'file and on random ones under load factor 2..4, so the assignments are multi-block splices; a case is '
                'non-trivial when at least one assignment ran; distinct by (size, newline kind, tabs, ops)')
    ctx.assumptions += ['token identity is position in the store list (TokenStore = plain list: C07)',
                        'the Parser is an oracle: its token lists are inputs; spacing tokens hold only blanks (checked on each); '
                        'getter and both-sides clauses are evaluated on the printed text; where a zero-width mark splits the run '
                        '(blanks before an end-of-line mark, then the line break) the code deviates by design: reported under '
                        'the one signature C17:both-sides:blanks-before-eol (C17_get_refuted / C17_both_sides_refuted), and only '
                        'when each side returns exactly its own part of the run',
                        'text of non-spacing tokens is abbreviated to two characters in the Coq cases '
                        '(the model only tests it for emptiness)',
                        'CPython re.findall on ([ \\t]+)|(\\r*\\n) as modelled by text_to_tokens (validated per string)']
    ctx.require_coq(['properties/C17'], extra_targets=['SpacingRun'])
    run_all(ctx)


def search(ctx: common.Ctx):
    run_all(ctx)


def replay(ctx, path):
    data = json.loads(open(path).read())
    f = data.get('failure') or (data.get('what_no_longer_checks') or [{}])[0]
    w = f.get('witness') or {}
    if 'text' in w:
        run = DocRun(w['text'], w.get('ops', []), 1000, lf=w.get('lf')).run()
        for x in run.fails + run.findings:
            print('monitor:', x['sig'], x['what'])
        bad = ctx.run_coq_cases('replay', PREAMBLE, 'scase', 'check_case', run.cases, chunk=30)
        print('model/implementation agree' if not bad else f'model/implementation DISAGREE on cases {bad[:5]}')
        return 1 if (run.fails or run.findings or bad) else 0
    if 'string' in w:
        *_, sa = impl()
        s = w['string']
        ts = [(kind_of(t), t.raw_text) for t in sa._text_to_tokens(s)]
        print('_text_to_tokens', repr(s), '->', ts)
        bad = ctx.run_coq_cases('replay', PREAMBLE, 'str * list tok * bool', 'check_t2t',
                                [f'({common.coq_str(s)}, {coq_toks(ts)}, {common.coq_bool(in_language(s))})'])
        return 1 if bad or (in_language(s) and ''.join(x for _, x in ts) != s) else 0
    print(json.dumps(f, indent=1))
    return 1
