"""Exhaustive small-scope correspondence for the token store (DESIGN.md §9): EVERY operation sequence up to a bound
over EVERY small initial store, as correspondence (model evaluated in Coq against the implementation's full concrete
state after every step) and with the plain-list monitors of store_driver.run_history - not as proof.

What is enumerated (see `bounds_text`):
  * load factors 2 and 3;
  * initial stores: every list of 0..N tokens with texts from ALPHABET (a plain token, an empty one, one with a
    line break and a trailing column), built (a) by TokenStore.from_tokens and (b) by insert_after(None, tokens)
    into an empty store (the two give different block layouts);
  * from every state, every public mutator with every argument combination over the current tokens (`fan_ops`,
    `chain_ops` below): insert_after / insert_before with reference None or any token and 0, 1 or 2 fresh tokens,
    remove(first, last) for every ordered pair, replace by a fresh token / by itself, splice for every
    (ref, del_end) pair with fresh tokens, with tokens of the removed range itself (every ordered selection - the
    permutation case comment claiming uses - for ranges of <= 3 tokens; selections of <= 2 tokens, the range itself,
    reversed and rotated for longer ranges) and with a mix of both, the text of any token set to each alphabet
    text; and the refusals: a free / foreign-store token as reference or range end, a foreign token offered for
    insertion, a token listed twice, a live token re-inserted outside the removed range, every reversed range;
  * every observer on every argument after every step (get_index / get_position / get_prev / get_next of every
    token, get_first, get_last, __iter__, __len__: that is the dump), and iter(a, b) for EVERY ordered pair of
    tokens on every distinct state that is expanded;
  * sequences of length <= L, not extended beyond a state that holds more than M tokens.

States are deduplicated up to token renaming: the successors of a state are computed once, from the first (shortest)
sequence that reaches it. Two executions are the same state when they agree on load factor, block list (index,
token texts in order, cached size, last_newline_index), _len, every live token's handle pointing at its slot and
its cached size, and no token outside the store holds a handle (detached tokens are as good as fresh ones).
Anything else (a stale handle, a wrong cached token size) is never merged.

Refused calls leave the state as it was, so all refusals of one state are evaluated as ONE linear case (every step
with the full dump); the state-changing operations of one state are written as fans (StoreRunFan.v: by definition
the conjunction of StoreRun.check_case over path ++ [leaf]) so that the shared prefix is rendered once.
The implementation side, the monitors and the rendering are store_driver's (run_history / coq_op / coq_dump)."""
from __future__ import annotations

import itertools
import multiprocessing
import os
import time
from collections import Counter
from typing import Any, Optional

from harness import common, store_driver as sd

NL = '\nbc'
ALPHABET = ['a', '', NL]                                  # sizes (0,1) (0,0) (1,2): three different columns
PAIRS = [('a', ''), ('a', NL), (NL, ''), (NL, NL)]        # the texts of two fresh tokens inserted together
LFS = [2, 3]
PREAMBLE = 'From AB Require Import Store StoreRun StoreRunFan.'
PIECE_BYTES = 26000                                       # a fan is cut into pieces of about this many bytes
CHUNK = 10                                                # pieces per generated file (< 300 KB)


def bounds_text(N: int, L: int, M: int, W: int = 0) -> str:
    s = (f'LF in {LFS}; texts {ALPHABET!r}; initial stores: every text list of length 0..{N}, built by from_tokens and by '
         f'insert_after(None, all) into an empty store; every operation sequence of length <= {L} in which the store '
         f'holds <= {M} tokens before each operation (0-2 fresh tokens per insertion: texts {ALPHABET!r} singly, '
         f'{PAIRS!r} in pairs); states merged up to token renaming')
    if W > N:
        s += (f'. Wide slice: initial stores of {N + 1}..{W} tokens, all plain or exactly one token with a line break (every '
              f'position), both builds, every single operation of the reduced set (every removal, insertion point and '
              f'(ref, del_end) range with no / one fresh token, every text update, every reversed range)')
    return s


# ---- operations of a state -------------------------------------------------------------------------
def selections(R: list[int]) -> list[list[int]]:
    """Non-empty lists of distinct tokens of the removed range R that a splice re-inserts."""
    k = len(R)
    if k <= 3:
        return [list(p) for n in range(1, k + 1) for p in itertools.permutations(R, n)]
    out = [list(p) for n in (1, 2) for p in itertools.permutations(R, n)]
    out += [list(R), list(reversed(R)), R[1:] + R[:1]]
    return out


def ranges(live: list[int]):
    """(ref, del_end, removed tokens) for every splice range with a del_end that does not precede ref."""
    m = len(live)
    for j in range(m):
        yield None, live[j], live[:j + 1]
    for i in range(m):
        for j in range(i, m):
            yield live[i], live[j], live[i:j + 1]


def fan_ops(live: list[int], T: int) -> dict[tuple, list]:
    """State-changing (or at least accepted) operations, grouped by the texts of the fresh tokens they need; the
    fresh tokens of a group are numbered T+1, T+2."""
    refs = [None] + live
    f, g = T + 1, T + 2
    groups: dict[tuple, list] = {(): []}
    ops = groups[()]
    for i in range(len(live)):
        ops.append(('remove', live[i], None))
        for j in range(i, len(live)):
            ops.append(('remove', live[i], live[j]))
    for t in live:
        for x in ALPHABET:
            ops.append(('set_text', t, x))
        ops.append(('replace', t, t))
    for r in refs:
        ops.append(('ins_after', r, []))
        ops.append(('ins_before', r, []))
    for a, b, R in ranges(live):
        if a is None:
            ops.append(('splice', [], a, b))            # (with a token as ref this is remove(a, b))
        for sel in selections(R):
            ops.append(('splice', sel, a, b))
    for x in ALPHABET:
        ops = groups[(x,)] = []
        for r in refs:
            ops.append(('ins_after', r, [f]))
            ops.append(('ins_before', r, [f]))
        for t in live:
            ops.append(('replace', t, f))
        for a, b, R in ranges(live):
            ops.append(('splice', [f], a, b))
            if x == 'a':                                 # fresh and re-inserted tokens mixed
                for t in R:
                    ops.append(('splice', [f, t], a, b))
                    ops.append(('splice', [t, f], a, b))
    for xy in PAIRS:
        ops = groups[xy] = []
        for r in refs:
            ops.append(('ins_after', r, [f, g]))
            ops.append(('ins_before', r, [f, g]))
        for a, b, R in ranges(live):
            ops.append(('splice', [f, g], a, b))
    return groups


def fan_ops_wide(live: list[int], T: int) -> dict[tuple, list]:
    """The operations of the WIDE slice (stores of N+1..W tokens, three and four blocks): every removal, every
    insertion point and every (ref, del_end) range, with no or one fresh token (plain / with a line break), every
    text update."""
    refs = [None] + live
    f = T + 1
    groups: dict[tuple, list] = {(): []}
    ops = groups[()]
    for i in range(len(live)):
        ops.append(('remove', live[i], None))
        for j in range(i, len(live)):
            ops.append(('remove', live[i], live[j]))
    for t in live:
        for x in ALPHABET:
            ops.append(('set_text', t, x))
    for a, b, R in ranges(live):
        if a is None:
            ops.append(('splice', [], a, b))
    for x in ('a', NL):
        ops = groups[(x,)] = []
        for r in refs:
            ops.append(('ins_after', r, [f]))
            ops.append(('ins_before', r, [f]))
        for t in live:
            ops.append(('replace', t, f))
        for a, b, R in ranges(live):
            ops.append(('splice', [f], a, b))
    return groups


def chain_ops_wide(live: list[int], T: int) -> list:
    Y = T + 2
    ops: list = []
    for i in range(len(live)):                           # every reversed range
        for j in range(i):
            ops += [('remove', live[i], live[j]), ('splice', [Y], live[i], live[j])]
    for i in range(len(live)):                           # a live token re-inserted next to itself / far away
        ops += [('ins_after', live[i], [live[i]]), ('ins_before', live[i], [live[i]]), ('ins_after', live[i], [live[0]]),
                ('ins_before', live[i], [live[-1]])]
    return ops


def chain_ops(live: list[int], T: int) -> list:
    """Calls that must leave the store as it is: refusals (and text updates of tokens that are not in it).
    X = T+1 is a free token, Y = T+2 a fresh token offered for insertion, F = T+3 sits in another store."""
    X, Y, F = T + 1, T + 2, T + 3
    refs = [None] + live
    ops: list = []
    for Z in (X, F):                                     # a free / foreign token as reference or end of range
        ops += [('ins_after', Z, [Y]), ('ins_before', Z, [Y]), ('ins_after', Z, []), ('remove', Z, None),
                ('replace', Z, Y), ('splice', [], Z, Z), ('splice', [Y], Z, None)]
        if live:
            ops += [('splice', [Y], live[0], Z), ('splice', [Y], Z, live[-1]), ('remove', live[0], Z),
                    ('remove', Z, live[0]), ('splice', [Y], None, Z)]
    for r in refs:                                       # a foreign token / the same token twice offered
        ops += [('ins_after', r, [F]), ('ins_before', r, [F]), ('ins_after', r, [Y, Y]), ('ins_before', r, [Y, Y])]
    for t in live:
        ops += [('replace', t, F), ('splice', [F], t, t), ('splice', [t, t], t, t), ('splice', [Y, t, Y], t, t)]
    ops.append(('from_tokens', [Y, Y]))
    ops.append(('from_tokens', [Y, F]))
    if live:
        ops.append(('from_tokens', [Y, live[0]]))
    for r in refs:                                       # a live token re-inserted outside the (empty) removed range
        for t in live:
            ops.append(('ins_after', r, [t]))
            if r is None or r == t:
                ops.append(('ins_before', r, [t]))
    for t in live:
        for u in live:
            if u != t:
                ops.append(('replace', t, u))
    for a, b, R in ranges(live):
        for u in live:
            if u not in R:
                ops.append(('splice', [u], a, b))
        if R and R[-1] != live[-1]:                      # a token of the range together with the one right after it
            ops.append(('splice', [R[0], live[live.index(R[-1]) + 1]], a, b))
    for i in range(len(live)):                           # every reversed range
        for j in range(i):
            ops += [('remove', live[i], live[j]), ('splice', [], live[i], live[j]), ('splice', [Y], live[i], live[j])]
    for Z in (X, F):                                     # last (they change the text of X and F): text updates of tokens
        for x in ALPHABET:                               # that are not in this store
            ops.append(('set_text', Z, x))
    return ops


# ---- one state ----------------------------------------------------------------------------------------
def state_key(lf: int, d: dict, txt: dict[int, str], skip: set[int], nonce: Any) -> tuple:
    """Canonical form of the implementation's state after a step (see the module comment)."""
    blocks = []
    ok = True
    live = set()
    for bpos, (index, toks, size, lnl) in enumerate(d['blocks']):
        for j, t in enumerate(toks):
            live.add(t)
            if d['handles'][t - 1] != (bpos, j):
                ok = False
        blocks.append((index, tuple(txt[t] for t in toks), size, lnl))
    for t in range(1, len(d['handles']) + 1):
        x = txt[t]
        if d['sizes'][t - 1] != (x.count('\n'), len(x) - x.rfind('\n') - 1):
            ok = False
        if t not in live and t not in skip and d['handles'][t - 1] is not None:
            ok = False
    if len(live) != sum(len(b[1]) for b in blocks) or d['obs'][-1] != [t for b in d['blocks'] for t in b[1]]:
        ok = False
    return (lf, tuple(blocks), d['len']) if ok else (lf, 'unmerged', nonce)


def cur_texts(texts: list[str], ops: list) -> dict[int, str]:
    txt = {i + 1: t for i, t in enumerate(texts)}
    for op in ops:
        if op[0] == 'set_text':
            txt[op[1]] = op[2]
    return txt


def render_fan(lf: int, texts: list[str], path_steps, leaves) -> list[str]:
    """One fan, cut into pieces of about PIECE_BYTES."""
    head = f'(mkfcase {lf} {common.coq_list(common.coq_str(t) for t in texts)} ' \
           f'{common.coq_list(f"({sd.coq_op(o)}, {sd.coq_dump(d)})" for o, d in path_steps)} '
    out, cur, size = [], [], 0
    for o, d in leaves:
        s = f'({sd.coq_op(o)}, {sd.coq_dump(d)})'
        if cur and size + len(s) > PIECE_BYTES:
            out.append(head + common.coq_list(cur) + ')')
            cur, size = [], 0
        cur.append(s)
        size += len(s) + 2
    out.append(head + common.coq_list(cur) + ')')
    return out


def expand(job) -> dict:
    """All operations of one state. job = (lf, texts, path ops); the state is the one after the path.
    Returns rendered Coq cases, monitor failures and the successor states."""
    lf, texts, path, wide = job
    T = len(texts)
    steps0, fails0 = sd.run_history(lf, texts, path)
    live = steps0[-1][1]['obs'][-1]
    res: dict = {'fans': [], 'fan_meta': [], 'chain': None, 'chain_meta': None, 'fails': [], 'succ': [], 'n_ops': 0,
                 'steps': 0, 'dist': Counter()}
    if fails0:
        res['fails'] += fails0
        return res
    for fresh, ops in (fan_ops_wide if wide else fan_ops)(live, T).items():
        if not ops:
            continue
        tx = texts + list(fresh)
        leaves, metas, path_steps = [], [], None
        for op in ops:
            seq = path + [op]
            steps, fails = sd.run_history(lf, tx, seq)
            if path_steps is None:
                path_steps = steps[:-1]
            leaves.append(steps[-1])
            res['n_ops'] += 1
            res['dist']['op=' + op[0]] += 1
            if steps[-1][1]['res']:
                res['dist'][f'refused={steps[-1][1]["res"]}'] += 1
            if fails:
                res['fails'] += fails
                key = None
            else:
                d = steps[-1][1]
                key = state_key(lf, d, cur_texts(tx, seq), set(), (tuple(tx), repr(seq)))
            res['succ'].append((key, tx, seq, len(steps[-1][1]['obs'][-1]), len(steps[-1][1]['blocks'])))
        pieces = render_fan(lf, tx, path_steps, leaves)
        # remember, per piece, which leaves it holds (for locating a failure)
        k = 0
        for p in pieces:
            n_leaves = p.count('(mkdump ') - len(path_steps)
            res['fans'].append(p)
            res['fan_meta'].append((lf, tx, path, ops[k:k + n_leaves]))
            k += n_leaves
        res['steps'] += len(leaves)
    # the chain: refusals, with iter(a, b) probed for every pair on the state itself
    X, Y, F = T + 1, T + 2, T + 3
    tx = texts + ['a', 'a', 'a']
    pre = [('from_tokens', [F])] + ([] if path[0][0] in ('from_tokens', 'empty') else [('empty',)])
    cops = (chain_ops_wide if wide else chain_ops)(live, T)
    seq = pre + path + cops
    at = len(pre) + len(path) - 1
    steps, fails = sd.run_history(lf, tx, seq, all_iters_at={at})
    for f in fails:                                      # a shorter witness: the path and the offending call alone
        n = f['where'].get('step', 0)
        if n > at:
            for short in (path + [seq[n]], pre + path + [seq[n]]):
                _, f2 = sd.run_history(lf, tx, short)
                f2 = [x for x in f2 if x['sig'] == f['sig']]
                if f2:
                    f = f2[0]
                    break
        res['fails'].append(f)
    key0 = state_key(lf, steps[at][1], cur_texts(tx, seq[:at + 1]), {F}, ('chain0', tuple(tx), repr(seq)))
    for n in range(at + 1, len(steps)):
        op, d = steps[n]
        res['dist']['op=' + op[0]] += 1
        if d['res']:
            res['dist'][f'refused={d["res"]}'] += 1
        # a refusal must not move the state (the dumps are compared with the model's in any case)
        tnow = cur_texts(tx, seq[:n + 1])
        k1 = state_key(lf, d, tnow, {F}, ('chain', n))
        if k1 != key0 and not fails:
            res['fails'].append({'sig': 'C07:refusal-changed-store', 'what': f'{op} (expected to leave the store alone) changed '
                                 f'its concrete state', 'where': {'lf': lf, 'texts': tx, 'ops': seq[:n + 1], 'step': n}})
            break
    n_chain = len(steps) - at - 1
    res['n_chain'] = n_chain
    res['steps'] += n_chain
    # cut into pieces: prefix + a contiguous run of refusals (the refusals skipped in between change nothing,
    # neither in the code nor in the model; the text updates come last)
    res['chain'], res['chain_meta'] = [], []
    head = steps[:at + 1]
    cur, size = [], 0
    rendered = [f'({sd.coq_op(o)}, {sd.coq_dump(d)})' for o, d in steps]
    pre_txt = f'(mkscase {lf} {common.coq_list(common.coq_str(t) for t in tx)} '
    lo = at + 1
    first_text = next((n for n in range(at + 1, len(steps)) if steps[n][0][0] == 'set_text'), len(steps))
    for n in range(at + 1, len(steps) + 1):
        # the trailing text updates are one piece of their own (they may not be skipped: they change cached sizes)
        if n == len(steps) or (cur and n == first_text) or (cur and n < first_text and size + len(rendered[n]) > 2 * PIECE_BYTES):
            res['chain'].append(pre_txt + common.coq_list(rendered[:at + 1] + cur) + ')')
            res['chain_meta'].append((lf, tx, seq[:at + 1] + seq[lo:n]))
            cur, size, lo = [], 0, n
        if n < len(steps):
            cur.append(rendered[n])
            size += len(rendered[n]) + 2
    return res


# ---- the enumeration ---------------------------------------------------------------------------------
def initial_jobs(N: int, W: int):
    for lf in LFS:
        for k in range(N + 1):
            for texts in itertools.product(ALPHABET, repeat=k):
                ids = list(range(1, k + 1))
                yield lf, list(texts), [('from_tokens', ids)], False
                yield lf, list(texts), [('ins_after', None, ids)], False
        for k in range(N + 1, W + 1):                    # the wide slice: all plain, or one token with a line break
            ids = list(range(1, k + 1))
            for texts in [['a'] * k] + [['a'] * i + [NL] + ['a'] * (k - i - 1) for i in range(k)]:
                yield lf, texts, [('from_tokens', ids)], True
                yield lf, texts, [('ins_after', None, ids)], True


def _key_of_job(job):
    lf, texts, path, _ = job
    steps, fails = sd.run_history(lf, texts, path)
    d = steps[-1][1]
    key = None if fails else state_key(lf, d, cur_texts(texts, path), set(), (tuple(texts), repr(path)))
    return key, fails, len(d['obs'][-1]), len(d['blocks']), steps


def run_exhaustive(ctx: common.Ctx, prop_sigs: tuple[str, ...], N: int, L: int, M: int, W: int = 0,
                   workers: Optional[int] = None):
    """Enumerates, runs the implementation (with monitors), evaluates the model in Coq, records evidence."""
    t0 = time.time()
    workers = workers or max(2, min(14, (os.cpu_count() or 4) - 2))
    seen: dict[tuple, int] = {}                # state key -> level at which it was first reached
    succ_of: dict[tuple, Counter] = {}         # expanded state -> successor keys with multiplicity
    self_ops: dict[tuple, int] = {}            # expanded state -> number of refusals (they lead back to it)
    frontier: list[tuple] = []                 # (key, job)
    cnt: Counter = Counter()                   # sequences of the current length, by the state they end in
    n_initial = 0
    fans: list[str] = []
    fan_meta: list = []
    chains: list[str] = []
    chain_meta: list = []
    failures: list[dict] = []
    init_cases, init_meta = [], []
    wide_jobs: list[tuple] = []
    for job in initial_jobs(N, W):
        key, fails, n_live, n_blocks, steps = _key_of_job(job)
        n_initial += 1
        failures += fails
        init_cases.append(sd.coq_case(job[0], job[1], steps))
        init_meta.append(job)
        if key is None:
            continue
        cnt[key] += 1
        if job[3]:
            if key not in seen:                          # wide slice: one step, never expanded further
                seen[key] = 0
                wide_jobs.append((key, job))
            continue
        if key not in seen:
            seen[key] = 0
            if n_live <= M:
                frontier.append((key, job))
    size_of = {}
    n_seq = 0
    n_steps = 0
    n_wide_steps = 0
    n_expanded = 0
    n_unmerged = 0
    blocks_hist: Counter = Counter()
    dist: Counter = Counter()
    pool = multiprocessing.get_context('fork').Pool(workers) if workers > 1 else None
    try:
        for (key, job), r in zip(wide_jobs, pool.map(expand, [j for _, j in wide_jobs], chunksize=2) if pool
                                 else [expand(j) for _, j in wide_jobs]):
            failures += r['fails']
            dist.update(r['dist'])
            fans += r['fans']
            fan_meta += r['fan_meta']
            chains += r['chain'] or []
            chain_meta += r['chain_meta'] or []
            n_wide_steps += r['steps']
            for k2, tx, seq, n_live, n_blocks in r['succ']:
                blocks_hist[min(n_blocks, 6)] += 1
        n_seq += n_wide_steps                             # each of them is a sequence of length 1
        for level in range(L):
            jobs = [job for _, job in frontier]
            results = pool.map(expand, jobs, chunksize=4) if pool else [expand(j) for j in jobs]
            nxt: list[tuple] = []
            for (key, job), r in zip(frontier, results):
                n_expanded += 1
                failures += r['fails']
                dist.update(r['dist'])
                fans += r['fans']
                fan_meta += r['fan_meta']
                if r['chain'] is not None:
                    chains += r['chain']
                    chain_meta += r['chain_meta']
                n_steps += r['steps']
                sc: Counter = Counter()
                for k2, tx, seq, n_live, n_blocks in r['succ']:
                    if k2 is None:
                        continue
                    sc[k2] += 1
                    blocks_hist[min(n_blocks, 6)] += 1
                    if k2 not in seen:
                        seen[k2] = level + 1
                        size_of[k2] = n_live
                        if k2[1] == 'unmerged':
                            n_unmerged += 1          # an anomalous state (already reported by a monitor): not expanded
                        elif n_live <= M and level + 1 < L:
                            nxt.append((k2, (job[0], tx, seq, False)))
                succ_of[key] = sc
                self_ops[key] = r.get('n_chain', 0)
            # sequences of length level+1: extend every sequence of length `level` that ends in an expanded state
            cnt2: Counter = Counter()
            for k1, c in cnt.items():
                if k1 in succ_of:
                    for k2, mlt in succ_of[k1].items():
                        cnt2[k2] += c * mlt
                    cnt2[k1] += c * self_ops[k1]
            n_seq += sum(cnt2.values())
            cnt = cnt2
            frontier = nxt
            if len(failures) > 50:
                ctx.notes.append('exhaustive enumeration stopped early: more than 50 monitor failures')
                break
            ctx.notes.append(f'exhaustive level {level + 1}: {sum(cnt2.values())} sequences of length {level + 1}, '
                             f'{len(seen)} distinct states so far, {len(nxt)} new states to expand')
    finally:
        if pool:
            pool.close()
            pool.join()
    t_impl = time.time() - t0
    # ---- monitors
    for f in failures[:20]:
        if f['sig'].split(':')[0] in prop_sigs:
            ctx.monitor_failure(f['sig'], '[exhaustive] ' + f['what'], f['where'])
        else:
            ctx.count('other_property_failures')
            ctx.notes.append(f'(exhaustive; belongs to {f["sig"]}) {f["what"]}')
    # ---- the model, in Coq
    bad_init = ctx.run_coq_cases('exh_init', PREAMBLE, 'scase', 'check_case', init_cases, chunk=300)
    bad_fans = ctx.run_coq_cases('exh_fan', PREAMBLE, 'fcase', 'check_fan', fans, chunk=CHUNK, timeout=900)
    bad_chain = ctx.run_coq_cases('exh_chain', PREAMBLE, 'scase', 'check_case', chains, chunk=4, timeout=900)
    for name in ('exh_init', 'exh_fan', 'exh_chain'):              # the generated files are large: do not keep them
        if not (bad_init or bad_fans or bad_chain):
            for p in ctx.scratch.glob(f'cases_{name}_*.v'):
                p.unlink()
    witnesses = []
    for i in bad_init[:3]:
        lf, texts, path, _ = init_meta[i]
        witnesses.append((lf, texts, path))
    for i in bad_fans[:6]:
        lf, tx, path, ops = fan_meta[i]
        lin, lin_meta = [], []
        for op in ops:
            steps, _ = sd.run_history(lf, tx, path + [op])
            lin.append(sd.coq_case(lf, tx, steps))
            lin_meta.append((lf, tx, path + [op]))
        for j in ctx.run_coq_cases('exh_locate', PREAMBLE, 'scase', 'check_case', lin, chunk=60)[:4]:
            witnesses.append(lin_meta[j])
    for i in bad_chain[:3]:
        lf, tx, seq = chain_meta[i]
        witnesses.append(cut_chain(ctx, lf, tx, seq))
    witnesses.sort(key=lambda w: (len(w[2]), len(w[1]), sum(len(t) for t in w[1])))
    confirmed = [w for w in witnesses if _disagrees(ctx, *w)]
    if witnesses and not confirmed:
        ctx.fail('corr', 'store-correspondence-exhaustive-unconfirmed',
                 'a generated cases file of the exhaustive part was rejected, but the sequence agrees when evaluated alone '
                 '(a defect of the enumerator, not of the store)', {'lf': witnesses[0][0], 'texts': witnesses[0][1], 'ops': witnesses[0][2]})
    for lf, tx, seq in confirmed[:3]:
        lf, tx, seq = minimise(ctx, lf, tx, seq)
        ctx.fail('corr', 'store-correspondence-exhaustive',
                 'Store.v and token_store.py disagree on the concrete state after an operation sequence of the exhaustive small scope',
                 {'lf': lf, 'texts': tx, 'ops': seq})
        print(f'[exhaustive] minimal disagreeing sequence: lf={lf} texts={tx!r} ops={seq!r}')
    n_bad = len(bad_init) + len(bad_fans) + len(bad_chain)
    ctx.count('traces_validated_against_impl', len(init_cases) + len(fans) + len(chains) - n_bad)
    ctx.count('exhaustive_sequences', n_seq)
    ctx.count('exhaustive_steps', n_steps + n_wide_steps)
    ctx.count('exhaustive_wide_slice_steps', n_wide_steps)
    ctx.count('exhaustive_wide_slice_stores', len(wide_jobs))
    ctx.count('exhaustive_initial_stores', n_initial)
    ctx.count('exhaustive_states_expanded', n_expanded)
    ctx.count('exhaustive_states_reached', len(seen))
    ctx.count('exhaustive_states_unmerged', n_unmerged)
    ctx.count('impl_steps', n_steps + n_wide_steps)
    ctx.counters['exhaustive_bounds'] = bounds_text(N, L, M, W)
    for k, v in dist.items():
        ctx.dist(k, v)
    for k, v in blocks_hist.items():
        ctx.dist(f'exhaustive_blocks_after_step={k}', v)
    ctx.case({'exhaustive': bounds_text(N, L, M, W), 'sequences': n_seq, 'steps': n_steps + n_wide_steps}, nontrivial=True)
    ctx.notes.append(
        f'exhaustive small scope, enumerated COMPLETELY ({bounds_text(N, L, M, W)}): {n_seq} operation sequences over '
        f'{n_initial} initial stores are covered (each is a path through the merged states; not each is executed separately); {len(seen)} distinct states reached, {n_expanded} of them (those within the bounds) expanded '
        f'with every operation (plus {len(wide_jobs)} stores of the wide slice): {n_steps + n_wide_steps} distinct (state, operation) steps run on the implementation with the list monitors and '
        f'compared, full concrete state, with Store.v evaluated in Coq ({len(fans)} fans, {len(chains)} refusal chains, '
        f'{len(init_cases)} initial stores); iter(a, b) for every ordered pair on every expanded state. The sequence count assumes what the merging assumes: '
        f'the behaviour of model and code does not depend on token identities or on detached tokens. The rest of this check '
        f'(seeded histories) is not exhaustive. Implementation side {t_impl:.0f}s, total {time.time() - t0:.0f}s.')
    return n_seq, n_steps + n_wide_steps


def _disagrees(ctx, lf, tx, seq) -> bool:
    steps, _ = sd.run_history(lf, tx, seq)
    return bool(ctx.run_coq_cases('exh_shrink', PREAMBLE, 'scase', 'check_case', [sd.coq_case(lf, tx, steps)]))


def cut_chain(ctx, lf, tx, seq):
    """First disagreeing step of a refusal chain, then the refusals before it dropped."""
    steps, _ = sd.run_history(lf, tx, seq)
    lin = [sd.coq_case(lf, tx, steps[:n]) for n in range(1, len(steps) + 1)]
    bad = ctx.run_coq_cases('exh_locate_chain', PREAMBLE, 'scase', 'check_case', lin, chunk=8)
    n = min(bad) + 1 if bad else len(seq)
    return lf, tx, seq[:n]


def minimise(ctx, lf, tx, seq, budget: int = 30):
    """Drop operations (never the one that builds the store), then unused trailing tokens."""
    cur = list(seq)
    i, n = 0, 0
    for k in range(1, min(len(cur) - 1, 5)):             # first: the shortest prefix that still sets the scene + the last op
        cand = cur[:k] + [cur[-1]]
        n += 1
        try:
            if _disagrees(ctx, lf, tx, cand):
                cur = cand
                break
        except Exception:
            pass
    while i < len(cur) - 1 and n < budget:
        cand = cur[:i] + cur[i + 1:]
        n += 1
        try:
            if cand and _disagrees(ctx, lf, tx, cand):
                cur = cand
                continue
        except Exception:
            pass
        i += 1
    used = 0
    for op in cur:
        for a in op[1:]:
            for t in (a if isinstance(a, list) else [a]):
                if isinstance(t, int):
                    used = max(used, t)
    return lf, tx[:max(used, 0)], cur
