"""C10 - all views of a repeated field stay consistent with each other.

Three parts, all driven by ctx.rng:
  sweep     PySeq.v (the model of CPython's index/slice/list/bisect semantics and of indexes.py) is compared
            with CPython and the repo's indexes.py exhaustively for small lengths (finite sweep of the *model of
            Python*, not of the property).
  corr      random interleavings of mutations through the raw list and every view of small parsed ledgers are
            run on the real implementation; after every step the raw list, every view's `_raw_indexes` and the
            returned value / exception class are compared with Views.v evaluated inside Coq.
  monitor   after every step every view is compared with the raw list filtered at that moment, and the effect of
            the step with plain Python list / first-match ordered-dict semantics on the filtered list.
"""
from __future__ import annotations

import bisect
import datetime
import decimal
import itertools
import json
import traceback
from typing import Any, Optional

from harness import common
from harness.common import coq_z, coq_list, coq_zlist, coq_opt, coq_bool

PREAMBLE = 'From AB Require Import Prelude PySeq Views ViewsRun.'
D = decimal.Decimal

# ------------------------------------------------------------------------------------------------
# PySeq sweep
HM = 2305843009213693951
EXC = {'ValueError': 1, 'IndexError': 2, 'KeyError': 3, 'AssertionError': 4, 'TypeError': 5}


def _hash(l):
    x = 17
    for v in l:
        x = (x * 1000003 + v + 7) % HM
    return x


def _encl(f):
    try:
        r = f()
    except (ValueError, IndexError) as e:
        return [EXC[type(e).__name__]]
    return [0, len(r)] + list(r)


def _slice_row(indexes, n, a, b, k):
    l = list(range(n))
    sl = slice(a, b, k)
    out = []
    try:
        out += [0, *sl.indices(n)]
    except ValueError:
        out += [1]
    try:
        r = indexes.range_from_index(sl, n)
        out += [len(r)] + list(r)
        out += _encl(lambda: l[indexes.slice_from_range(r)])

        def setfresh():
            c = list(l)
            c[sl] = [100 + i for i in range(len(r))]
            return c
        out += _encl(setfresh)
    except ValueError:
        out += [1]
    out += _encl(lambda: l[sl])

    def dele():
        c = list(l)
        del c[sl]
        return c
    out += _encl(dele)

    def set2():
        c = list(l)
        c[sl] = [100, 101]
        return c
    out += _encl(set2)
    return _hash(out)


def _int_row(indexes, n, i):
    l = list(range(n))
    out = []
    try:
        out += [0, range(n)[i]]
    except IndexError:
        out += [2]
    try:
        out += [0, l[i]]
    except IndexError:
        out += [2]

    def seti():
        c = list(l)
        c[i] = 100
        return c
    out += _encl(seti)

    def deli():
        c = list(l)
        del c[i]
        return c
    out += _encl(deli)
    c = list(l)
    c.insert(i, 100)
    out += [c.index(100)] + c
    c = list(l)
    try:
        x = c.pop(i)
        out += [0, x] + c
    except IndexError:
        out += [2]
    try:
        r = indexes.range_from_index(i, n)
        out += [0, r.start, r.stop, r.step]
    except IndexError:
        out += [2]
    return _hash(out)


def sweep(ctx: common.Ctx):
    from autobean_refactor.models.internal import indexes
    nmax = 5 if ctx.quick else 6
    lim = 7 if ctx.quick else 8
    vals = [None] + list(range(-lim, lim + 1))
    cases, descr = [], []
    for n in range(nmax + 1):
        exp = [_slice_row(indexes, n, a, b, k) for a in vals for b in vals for k in vals]
        cases.append(f'mkpcase 0 {n} {coq_list(coq_opt(None if v is None else coq_z(v)) for v in vals)} [] [] {coq_zlist(exp)}')
        descr.append(('slices', n))
        ctx.count('pyseq_sweep_points', len(exp))
    ints = list(range(-lim - 2, lim + 3))
    for n in range(nmax + 2):
        exp = [_int_row(indexes, n, i) for i in ints]
        cases.append(f'mkpcase 1 {n} [] {coq_zlist(ints)} [] {coq_zlist(exp)}')
        descr.append(('ints', n))
        ctx.count('pyseq_sweep_points', len(exp))
    bvals, xs = [0, 1, 2, 3], [-1, 0, 1, 2, 3, 4]
    for k in range(0, 5 if ctx.quick else 6):
        exp = [bisect.bisect_left(list(l), x) for l in itertools.product(bvals, repeat=k) for x in xs]
        cases.append(f'mkpcase 2 {k} [] {coq_zlist(bvals)} {coq_zlist(xs)} {coq_zlist(exp)}')
        descr.append(('bisect_left', k))
        ctx.count('pyseq_sweep_points', len(exp))
    rvals, rxs = [0, 1, 2], [0, 1, 2, 3]
    for k in range(0, 5):
        exp = []
        for l in itertools.product(rvals, repeat=k):
            for x in rxs:
                def rem(l=l, x=x):
                    c = list(l)
                    c.remove(x)
                    return c
                exp += _encl(rem)
        cases.append(f'mkpcase 3 {k} [] {coq_zlist(rvals)} {coq_zlist(rxs)} {coq_zlist(exp)}')
        descr.append(('list.remove', k))
        ctx.count('pyseq_sweep_points', len(exp))
    bad = ctx.run_coq_cases('pyseq', PREAMBLE, 'pcase', 'check_pcase', cases, chunk=1)
    for i in bad[:3]:
        ctx.fail('corr', 'pyseq-sweep',
                 f'PySeq.v disagrees with CPython / indexes.py on the exhaustive sweep {descr[i]} '
                 f'(lengths 0..{nmax}, arguments -{lim}..{lim} and None)', {'sweep': descr[i]})
    ctx.count('pyseq_sweeps_agreeing', len(cases) - len(bad))


# ------------------------------------------------------------------------------------------------
# scenarios: a parsed ledger, one raw list, the views on it
def _models():
    from autobean_refactor import models
    return models


_PARSER = None


def parser():
    global _PARSER
    if _PARSER is None:
        from autobean_refactor import parser as p
        _PARSER = p.Parser()
    return _PARSER


CUSTOM_TYPES = ['EscapedString', 'Date', 'Bool', 'NumberExpr', 'Account', 'Amount']


def valrepr_value(v: Any) -> tuple:
    m = _models()
    if isinstance(v, bool):
        return ('b', v)
    if isinstance(v, str):
        return ('s', v)
    if isinstance(v, datetime.date):
        return ('d', v.isoformat())
    if isinstance(v, D):
        return ('n', str(v))
    if isinstance(v, m.Account):
        return ('a', v.value)
    if isinstance(v, m.Amount):
        return ('m', str(v.number), v.currency)
    if v is None:
        return ('none',)
    return ('?', type(v).__name__)


class Scn:
    """One raw list under test. layout: list of tags (and per-tag details) the initial text is built from."""

    def __init__(self, name: str, layout: list):
        self.name, self.layout = name, layout
        self.intern: dict[Any, int] = {}
        m = _models()
        build = getattr(self, 'build_' + name)
        build(m)

    # --- content codes -------------------------------------------------------------------------
    def code(self, key: Any) -> int:
        if key not in self.intern:
            self.intern[key] = len(self.intern) + 1
        return self.intern[key]

    def tag_of(self, x: Any) -> int:
        m = _models()
        if isinstance(x, m.BlockComment):
            return 0
        for t, cls in self.tagmap:
            if isinstance(x, cls):
                return t
        return 99

    def elem(self, x: Any) -> tuple[int, int, int]:
        m = _models()
        if isinstance(x, m.BlockComment):
            return (0, 0, self.code(('c', x.value)))
        if isinstance(x, m.MetaItem):
            return (1, self.code(('k', x.key)), self.code(('mv', repr(x.value))))
        if isinstance(x, m.Posting):
            return (1, 0, self.code(('p', x.account)))
        if self.name == 'directives':
            return (1, 0, self.code(('dir', type(x).__name__, x.account)))
        if self.name == 'custom':
            from autobean_refactor.models.custom import _simplify_value
            return (self.tag_of(x), 0, self.code(valrepr_value(_simplify_value(x))))
        return (self.tag_of(x), 0, self.code(('s', x.value)))

    # --- builders ------------------------------------------------------------------------------
    def build_directives(self, m):
        parts = []
        for i, t in enumerate(self.layout):
            parts.append(f'; c{i}' if t == 0 else f'2000-01-01 open Assets:D{i}')
        text = '\n\n'.join(parts) + ('\n' if parts else '')
        f = parser().parse(text, m.File, auto_claim_comments=False)
        self.root = f
        self.raw = f.raw_directives_with_comments
        self.owner, self.attr = f, 'raw_directives_with_comments'
        self.raw.claim_interleaving_comments()
        from autobean_refactor.models.generated.file import Directive
        from typing import get_args
        self.tagmap = [(1, get_args(Directive))]
        self.raw_tags = [0, 1]
        self.view_specs = {'raw_directives': dict(get=lambda: f.raw_directives, tags=[1], kind='KNode', mapping=None,
                                                  owner=f, attr='directives')}

    def _txn(self, m, meta, postings, tagslinks=''):
        lines = [f'2000-01-01 * "x"{tagslinks}']
        for i, t in enumerate(meta):
            lines.append(f'    ; mc{i}' if t == 0 else f'    k{i % 3}: {i}')
        for i, t in enumerate(postings):
            lines.append(f'    ; pc{i}' if t == 0 else f'    Assets:P{i}  {i} USD')
        text = '\n'.join(lines) + '\n'
        f = parser().parse(text, m.File, auto_claim_comments=False)
        self.root = f
        return f.raw_directives[0]

    def build_meta(self, m):
        t = self._txn(m, self.layout, [1])
        self.raw = t.raw_meta_with_comments
        self.owner, self.attr = t, 'raw_meta_with_comments'
        self.raw.claim_interleaving_comments()
        self.tagmap = [(1, m.MetaItem)]
        self.raw_tags = [0, 1]
        self.view_specs = {
            'raw_meta': dict(get=lambda: t.raw_meta, tags=[1], kind='KNode', mapping='raw', owner=t, attr='raw_meta'),
            'meta': dict(get=lambda: t.meta, tags=[1], kind='KNode', mapping='meta', owner=t, attr='meta'),
        }

    def build_postings(self, m):
        t = self._txn(m, [], self.layout)
        self.raw = t.raw_postings_with_comments
        self.owner, self.attr = t, 'raw_postings_with_comments'
        self.raw.claim_interleaving_comments()
        self.tagmap = [(1, m.Posting)]
        self.raw_tags = [0, 1]
        self.view_specs = {'postings': dict(get=lambda: t.postings, tags=[1], kind='KNode', mapping=None, owner=t,
                                            attr='postings')}

    def build_tagslinks(self, m):
        s = ''.join(f' #t{i % 2}' if t == 1 else f' ^l{i % 2}' for i, t in enumerate(self.layout))
        t = self._txn(m, [], [1], s)
        self.raw = t.raw_tags_links
        self.owner, self.attr = t, 'raw_tags_links'
        self.tagmap = [(1, m.Tag), (2, m.Link)]
        self.raw_tags = [1, 2]
        self.view_specs = {
            'tags': dict(get=lambda: t.tags, tags=[1], kind='KString', mapping=None, owner=t, attr='tags'),
            'links': dict(get=lambda: t.links, tags=[2], kind='KString', mapping=None, owner=t, attr='links'),
        }

    def build_currencies(self, m):
        cur = ', '.join(f'CU{chr(65 + i % 3)}' for i, _ in enumerate(self.layout))
        f = parser().parse(f'2000-01-01 open Assets:A {cur}'.rstrip() + '\n', m.File)
        self.root = f
        o = f.raw_directives[0]
        self.raw = o.raw_currencies
        self.owner, self.attr = o, 'raw_currencies'
        self.tagmap = [(1, m.Currency)]
        self.raw_tags = [1]
        self.view_specs = {'currencies': dict(get=lambda: o.currencies, tags=[1], kind='KString', mapping=None, owner=o,
                                              attr='currencies')}

    def build_custom(self, m):
        lit = {1: '"s{i}"', 2: '2000-01-0{d}', 3: 'TRUE', 4: '{i}.5', 5: 'Assets:C{i}', 6: '{i} USD'}
        vals = ' '.join(lit[t].format(i=i, d=i % 9 + 1) for i, t in enumerate(self.layout))
        f = parser().parse(f'2000-01-01 custom "x" {vals}'.rstrip() + '\n', m.File)
        self.root = f
        c = f.raw_directives[0]
        self.raw = c.raw_values
        self.owner, self.attr = c, 'raw_values'
        self.tagmap = [(1, m.EscapedString), (2, m.Date), (3, m.Bool), (4, m.NumberExpr), (5, m.Account),
                       (6, m.Amount)]
        self.raw_tags = [1, 2, 3, 4, 5, 6]
        self.view_specs = {'values': dict(get=lambda: c.values, tags=[1, 2, 3, 4, 5, 6], kind='KCustom', mapping=None,
                                          owner=c, attr='values')}

    def assign(self, wrapper: Any) -> None:
        """model.raw_xs = wrapper (whole-field reassignment); the assigned wrapper is the raw list from now on"""
        setattr(self.owner, self.attr, wrapper)
        self.raw = getattr(self.owner, self.attr)

    # --- values --------------------------------------------------------------------------------
    def make_raw(self, spec: dict) -> Any:
        """A fresh, free raw object from a JSON spec {'t': tag, 'n': int, ...}."""
        m = _models()
        t, n = spec['t'], spec['n']
        if self.name == 'custom':
            return [None, lambda: m.EscapedString.from_value(f'v{n}'),
                    lambda: m.Date.from_value(datetime.date(2001, 1, n % 27 + 1)),
                    lambda: m.Bool.from_value(n % 2 == 0), lambda: m.NumberExpr.from_value(D(n)),
                    lambda: m.Account.from_value(f'Assets:V{n}'),
                    lambda: m.Amount.from_value(D(n), 'EUR')][t]()
        if t == 0:
            indent = '' if self.name == 'directives' else '    '
            return m.BlockComment.from_value(f'n{n}', indent=indent)
        if self.name == 'directives':
            return parser().parse(f'2000-01-01 open Assets:N{n}', m.Open)
        if self.name == 'meta':
            return m.MetaItem.from_value(spec.get('k', f'k{n % 3}'), D(n), indent='    ')
        if self.name == 'postings':
            return parser().parse(f'    Assets:N{n}  {n} USD', m.Posting)
        if self.name == 'tagslinks':
            return (m.Tag if t == 1 else m.Link).from_value(spec.get('s', f'x{n % 3}'))
        if self.name == 'currencies':
            return m.Currency.from_value(spec.get('s', f'CN{chr(65 + n % 3)}'))
        raise ValueError(spec)

    def make_value(self, vname: str, spec: dict) -> Any:
        """A value as the view `vname` takes it (a node, a str, a simplified custom value)."""
        kind = self.view_specs[vname]['kind']
        m = _models()
        if kind == 'KNode':
            return self.make_raw(spec)
        if kind == 'KString':
            return spec['s']
        t, n = spec['t'], spec['n']
        return [None, f'v{n}', datetime.date(2001, 1, n % 27 + 1), n % 2 == 0, D(n),
                m.Account.from_value(f'Assets:V{n}'), m.Amount.from_value(D(n), 'EUR')][t]

    def value_elem(self, vname: str, v: Any) -> tuple[int, int, int]:
        """to_raw_type(v) as an elem (what the model's op carries)."""
        vs = self.view_specs[vname]
        if vs['kind'] == 'KNode':
            return self.elem(v)
        if vs['kind'] == 'KString':
            return (vs['tags'][0], 0, self.code(('s', v)))
        r = valrepr_value(v)
        tag = {'s': 1, 'd': 2, 'b': 3, 'n': 4, 'a': 5, 'm': 6}[r[0]]
        return (tag, 0, self.code(r))

    def conv(self, vname: str, x: Any) -> Any:
        """from_raw_type(x), as the reference computes it (independently of the wrapper)."""
        kind = self.view_specs[vname]['kind']
        if kind == 'KNode':
            return x
        if kind == 'KString':
            return x.value
        if isinstance(x, (_models().Account, _models().Amount)):
            return x
        return x.value

    def out_elem(self, vname: Optional[str], v: Any) -> tuple[int, int, int]:
        """a returned value, as the model's `from_raw` shows it"""
        if vname is None or self.view_specs[vname]['kind'] == 'KNode':
            return self.elem(v)
        if self.view_specs[vname]['kind'] == 'KString':
            return (0, 0, self.code(('s', v)))
        return (0, 0, self.code(valrepr_value(v)))


SCENARIOS = ['directives', 'meta', 'postings', 'tagslinks', 'currencies', 'custom']


def gen_layout(rng, name: str) -> list:
    n = rng.choice([0, 1, 2, 3, 4, 5, 6, 7])
    if name in ('directives', 'meta', 'postings'):
        return [rng.choice([0, 1, 1]) for _ in range(n)]
    if name == 'tagslinks':
        return [rng.choice([1, 2]) for _ in range(n)]
    if name == 'currencies':
        return [1] * n
    return [rng.choice([1, 2, 3, 4, 5, 6]) for _ in range(n)]


# ------------------------------------------------------------------------------------------------
# operations (JSON-able), generation
def gen_int(rng, n: int) -> int:
    return rng.randint(-n - 2, n + 2)


def gen_slice(rng, n: int) -> list:
    def b():
        return None if rng.random() < 0.3 else rng.randint(-n - 2, n + 2)
    k = rng.choice([None, None, 1, 1, -1, 2, -2, 3, -3, 0] if rng.random() < 0.5 else [None, 1, 1, 2, -1])
    return ['s', b(), b(), k]


def gen_idx(rng, n: int):
    return gen_int(rng, n) if rng.random() < 0.5 else gen_slice(rng, n)


def py_idx(idx):
    return idx if isinstance(idx, int) else slice(idx[1], idx[2], idx[3])


class Gen:
    def __init__(self, rng, scn: Scn):
        self.rng, self.scn, self.counter = rng, scn, 100

    def raw_spec(self, tags=None) -> dict:
        self.counter += 1
        t = self.rng.choice(tags or self.scn.raw_tags)
        spec = {'t': t, 'n': self.counter}
        if self.scn.name == 'meta' and t == 1:
            spec['k'] = 'k' + str(self.rng.randint(0, 3))
        if self.scn.name in ('tagslinks', 'currencies'):
            spec['s'] = self.str_value()
        return spec

    def str_value(self) -> str:
        if self.scn.name == 'currencies':
            return 'C' + self.rng.choice('ABNU') + self.rng.choice('ABC')
        return self.rng.choice(['x0', 'x1', 'x2', 't0', 't1', 'l0', 'l1'])

    def view_spec(self, vname: str) -> dict:
        vs = self.scn.view_specs[vname]
        if vs['kind'] == 'KString':
            return {'s': self.str_value()}
        return self.raw_spec(vs['tags'])

    def op(self, registered: list[str], nraw: int, nview: dict[str, int], keys: Optional[dict] = None) -> list:
        rng, scn = self.rng, self.scn
        unreg = [v for v in scn.view_specs if v not in registered]
        if unreg and (not registered or rng.random() < 0.15):
            return ['reg', rng.choice(unreg)]
        if not registered or rng.random() < 0.45:
            k = rng.choice(['r_set', 'r_set', 'r_set', 'r_del', 'r_del', 'r_insert', 'r_insert', 'r_append',
                            'r_extend', 'r_pop', 'r_pop', 'r_drop', 'r_clear', 'r_claim', 'r_unclaim', 'r_assign',
                            'r_iadd', 'r_reverse'])
            if k == 'r_reverse' and rng.random() < 0.6:
                k = 'r_set'
            if k == 'r_iadd':
                return [k, [self.raw_spec() for _ in range(rng.randint(0, 2))]]
            if k == 'r_assign':
                if rng.random() < 0.5:
                    return [k, gen_layout(rng, scn.name)]
                k = 'r_append'
            if k == 'r_clear' and rng.random() < 0.7:
                k = 'r_insert'
            if k in ('r_claim', 'r_unclaim') and (0 not in scn.raw_tags
                                                  or not hasattr(scn.raw, 'claim_interleaving_comments')):
                k = 'r_set'
            if k == 'r_set':
                idx = gen_idx(rng, nraw)
                if isinstance(idx, int):
                    return [k, idx, [{'copy': 0} if rng.random() < 0.2 else self.raw_spec()]]
                want = self.slice_len(idx, nraw)
                return [k, idx, [self.raw_spec() for _ in range(want)]]
            if k == 'r_del':
                return [k, gen_idx(rng, nraw)]
            if k == 'r_insert':
                return [k, gen_int(rng, nraw), self.raw_spec()]
            if k == 'r_append':
                return [k, self.raw_spec()]
            if k == 'r_extend':
                return [k, [self.raw_spec() for _ in range(rng.randint(0, 3))]]
            if k == 'r_pop':
                return [k, gen_int(rng, nraw)]
            if k == 'r_drop':
                if rng.random() < 0.6:     # in range, possibly negative / repeated
                    return [k, [rng.randint(-nraw, nraw - 1) for _ in range(rng.randint(0, 3))] if nraw else []]
                return [k, [rng.randint(-nraw - 1, nraw + 1) for _ in range(rng.randint(0, 3))]]
            return [k]
        v = rng.choice(registered)
        n = nview[v]
        kinds = ['v_get', 'v_get', 'v_len', 'v_iter', 'v_set', 'v_set', 'v_set', 'v_del', 'v_del', 'v_insert',
                 'v_insert', 'v_append', 'v_extend', 'v_pop', 'v_pop', 'v_remove', 'v_discard', 'v_clear',
                 'x_iadd', 'x_index', 'x_count', 'x_in', 'x_reversed', 'x_reverse']
        if scn.view_specs[v]['mapping']:
            kinds += ['m_get', 'm_contains', 'm_del', 'm_set', 'm_set', 'm_pop', 'm_pop', 'm_keys', 'm_values',
                      'm_items', 'm_popitem', 'x_get', 'x_setdefault', 'x_update', 'm_dict', 'm_dict', 'm_dict'] * 2
        k = rng.choice(kinds)
        if k == 'v_clear' and rng.random() < 0.7:
            k = 'v_insert'
        if k == 'x_reverse' and rng.random() < 0.6:
            k = 'x_reversed'
        if k in ('v_len', 'v_iter', 'v_clear', 'm_keys', 'm_values', 'm_items', 'm_popitem', 'x_reversed', 'x_reverse'):
            return [k, v]
        if k == 'x_iadd':
            return [k, v, [self.view_spec(v) for _ in range(rng.randint(0, 2))]]
        if k == 'm_dict':
            q = rng.choice(['iter', 'len', 'rev', 'in', 'in', 'in'])
            arg = None
            if q == 'in':
                arg = {'ref': rng.randrange(n)} if n and rng.random() < 0.6 else {'absent': rng.randint(0, 2)}
            return [k, v, rng.choice(['keys', 'values', 'items']), q, arg]
        if k in ('x_index', 'x_count', 'x_in'):
            if n and rng.random() < 0.7:
                return [k, v, {'ref': rng.randrange(n)}]
            return [k, v, self.view_spec(v)]
        if k in ('v_get', 'v_del'):
            return [k, v, gen_idx(rng, n)]
        if k == 'v_set':
            idx = gen_idx(rng, n)
            if isinstance(idx, int):
                if n and -n <= idx < n and rng.random() < 0.25:
                    return [k, v, idx, [{'copy': idx}]]
                return [k, v, idx, [self.view_spec(v)]]
            want = self.slice_len(idx, n, exact=True)
            return [k, v, idx, [self.view_spec(v) for _ in range(want)]]
        if k == 'v_insert':
            return [k, v, gen_int(rng, n), self.view_spec(v)]
        if k == 'v_append':
            return [k, v, self.view_spec(v)]
        if k == 'v_extend':
            return [k, v, [self.view_spec(v) for _ in range(rng.randint(0, 3))]]
        if k == 'v_pop':
            return [k, v, gen_int(rng, n)]
        if k in ('v_remove', 'v_discard'):
            if n and rng.random() < 0.75:
                return [k, v, {'ref': rng.randrange(n)}]
            return [k, v, self.view_spec(v)]
        key = 'k' + str(rng.randint(0, 4))
        present = (keys or {}).get(v) or []
        if present and rng.random() < 0.6:
            key = rng.choice(present)
        if k in ('m_get', 'm_contains', 'm_del'):
            return [k, v, key]
        if k == 'x_get':
            return [k, v, key]
        if k in ('m_set', 'x_setdefault', 'x_update'):
            if scn.view_specs[v]['mapping'] == 'raw':
                if key in present and rng.random() < 0.3:
                    return [k, v, key, {'copy_key': key}]
                spec = self.raw_spec([1])
                if rng.random() < 0.8:
                    spec['k'] = key
                return [k, v, key, spec]
            self.counter += 1
            return [k, v, key, {'mv': self.counter}]
        return ['m_pop', v, key, rng.random() < 0.5]

    def slice_len(self, idx, n: int, exact: bool = False) -> int:
        try:
            r = range(n)[py_idx(idx)]
        except ValueError:
            return self.rng.randint(0, 2)
        if (r.step == 1 and not exact and self.rng.random() < 0.7):
            return self.rng.randint(0, 3)
        return len(r) if self.rng.random() < 0.85 else len(r) + self.rng.choice([-1, 1, 2])


# ------------------------------------------------------------------------------------------------
# executing a history on the implementation, with the reference monitors
ANCHOR_FILES = ('value_properties.py', 'properties.py', 'indexes.py', 'interleaving_comments.py',
                'meta_item_internal.py')
LIST_LEVEL_FUNCS = ('__getitem__', '__setitem__', '__delitem__', '__iter__', '__len__', '__contains__', 'insert',
                    'append', 'clear', 'extend', 'pop', 'remove', 'discard', 'drop_many', 'range_from_index',
                    'slice_from_range', 'handle', 'handle_splice', '_notify', '_notify_splice', 'claim',
                    'claim_interleaving_comments', 'unclaim_interleaving_comments', '<genexpr>', '<listcomp>',
                    'keys', 'values', 'items', 'popitem', 'reverse')


def is_list_level(e: BaseException) -> bool:
    """Was the exception raised by the list/view logic (and not by the token layer underneath)?"""
    tb = traceback.extract_tb(e.__traceback__)
    if not tb:
        return False
    last = tb[-1]
    fn = last.filename.replace('\\', '/')
    if '_collections_abc' in fn:      # the MutableSequence / MutableMapping mixin methods
        return True
    return fn.endswith(ANCHOR_FILES) and last.name in LIST_LEVEL_FUNCS and '/autobean_refactor/' in fn


class _DEFAULT:
    pass


def raw_items(wrapper: Any) -> list:
    """The raw list through the public API (iteration); private `_repeated.items` only as a fallback."""
    try:
        return list(iter(wrapper))
    except Exception:  # noqa: BLE001
        rep = getattr(wrapper, 'repeated', None) or getattr(wrapper, '_repeated', None)
        return list(rep.items)


def _int_list(x: Any, n: int) -> bool:
    return isinstance(x, list) and len(x) == n and all(type(i) is int for i in x)


def observe_cache(view: Any, raw: Any) -> Optional[list]:
    """The view's private index cache if it can be observed (additional check), else None."""
    got = getattr(view, '_raw_indexes', None)
    if isinstance(got, list):
        return list(got)
    try:
        n = len(view)
    except Exception:  # noqa: BLE001
        return None
    cands = [x for x in getattr(view, '__dict__', {}).values() if _int_list(x, n)]
    if not cands:
        for h in getattr(raw, '_update_handlers', None) or []:
            hd = getattr(h, '__dict__', {})
            if any(val is view for val in hd.values()):
                cands += [x for x in hd.values() if _int_list(x, n)]
    if cands and all(c == cands[0] for c in cands):
        return list(cands[0])
    return None


def idx_class(idx) -> str:
    if isinstance(idx, int):
        return 'neg-int' if idx < 0 else 'int'
    k = idx[3]
    return 'slice' if k in (None, 1) else ('step0' if k == 0 else 'ext-slice')


def op_class(op: list, nraw: int) -> str:
    k = op[0]
    if k in ('r_set', 'r_del'):
        c = idx_class(op[1])
        if c == 'slice':
            r = range(nraw)[py_idx(op[1])]
            if r.stop < r.start:
                c = 'slice-start>stop'
        return f'{k}:{c}'
    if k in ('r_insert', 'r_pop'):
        return f'{k}:{"neg" if op[1] < 0 else "nonneg"}'
    if k in ('v_set', 'v_del', 'v_get'):
        return f'{k}:{idx_class(op[2])}'
    return k


class Runner:
    def __init__(self, scn_name: str, layout: list, ops: list):
        self.scn = Scn(scn_name, layout)
        self.ops = ops
        self.registered: list[str] = []
        self.views: dict[str, Any] = {}
        self.steps: list[tuple[str, str]] = []      # (coq op, coq obs)
        self.failures: list[dict] = []
        self.foreign: Optional[str] = None
        self.executed = 0
        self.init_items = [self.scn.elem(x) for x in raw_items(self.scn.raw)]
        self.unobservable = 0
        self.classes: list[str] = []

    # ---- encoding ----
    @staticmethod
    def E(e) -> str:
        return f'(E {coq_z(e[0])} {coq_z(e[1])} {coq_z(e[2])})'

    @staticmethod
    def IDX(idx) -> str:
        if isinstance(idx, int):
            return f'(IInt {coq_z(idx)})'
        o = [coq_opt(None if x is None else coq_z(x)) for x in idx[1:]]
        return f'(ISlice (SL {o[0]} {o[1]} {o[2]}))'

    def EL(self, es) -> str:
        return coq_list(self.E(e) for e in es)

    def items(self) -> list:
        return raw_items(self.scn.raw)

    def filtered(self, vname: str, items=None) -> list:
        tags = self.scn.view_specs[vname]['tags']
        return [x for x in (self.items() if items is None else items) if self.scn.tag_of(x) in tags]

    def same(self, vname: Optional[str], a: Any, b: Any) -> bool:
        if vname is None or self.scn.view_specs[vname]['kind'] == 'KNode':
            return a is b
        from autobean_refactor.models import base as _base
        if isinstance(a, _base.RawModel) or isinstance(b, _base.RawModel):
            return a is b or (type(a) is type(b) and valrepr_value(a) == valrepr_value(b))
        return type(a) is type(b) and a == b

    def same_list(self, vname, a, b) -> bool:
        return len(a) == len(b) and all(self.same(vname, x, y) for x, y in zip(a, b))

    # ---- one history ----
    def run(self) -> 'Runner':
        for k, op in enumerate(self.ops):
            if not self.step(op):
                break
            self.executed = k + 1
        return self

    def fail(self, sig: str, what: str):
        self.failures.append({'sig': sig, 'what': what, 'at': self.executed})

    def step_assign(self, op: list) -> bool:
        """model.raw_xs = deepcopy(<same field of another parsed model>) after views were read; afterwards every
        view that had been read is read again from the model and must show the new raw list."""
        import copy
        scn = self.scn
        donor = Scn(scn.name, op[1])
        new = copy.deepcopy(donor.raw)
        expected = raw_items(new)
        old_registered = list(self.registered)
        self.stale_views = getattr(self, 'stale_views', []) + list(self.views.values())   # kept alive
        try:
            scn.assign(new)
        except Exception as e:  # noqa: BLE001
            self.foreign = f'{type(e).__name__} in {traceback.extract_tb(e.__traceback__)[-1].name}'
            return False
        after = self.items()
        self.registered, self.views = [], {}
        self.steps.append((f'(RAssign {self.EL(scn.elem(x) for x in after)})',
                           f'(mkobs 0 [] {self.EL(scn.elem(x) for x in after)} true [])'))
        self.classes.append('r_assign')
        if scn.raw is not new or not (len(after) == len(expected) and all(a is b for a, b in zip(after, expected))):
            self.fail('C10:list-semantics', 'r_assign: the raw list is not the assigned wrapper / its elements')
            return False
        self.sig_view = 'C10:view-stale-after-wrapper-reassignment'
        try:
            for v in old_registered:
                if not self.step(['reg', v]):
                    return False
                if getattr(self.views[v], '_raw_wrapper', scn.raw) is not scn.raw:
                    self.fail(self.sig_view, f'after {scn.name}.{scn.attr} was reassigned, the model still serves the '
                                             f'view {v} built on the replaced wrapper')
                    return False
        finally:
            self.sig_view = 'C10:view-differs-from-filtered-raw'
        return True

    sig_view = 'C10:view-differs-from-filtered-raw'

    def step(self, op: list) -> bool:
        scn = self.scn
        kind = op[0]
        if kind == 'r_assign':
            return self.step_assign(op)
        before = self.items()
        nraw = len(before)
        vname = op[1] if kind[0] in 'vmx' else None
        self.force_out = None
        cls = op_class(op, nraw)
        self.post = None
        coq_op, call, expect = self.prepare(op, before)
        # ---- run on the implementation
        exc = None
        ret = None
        try:
            ret = call()
        except Exception as e:  # noqa: BLE001
            if not is_list_level(e):
                self.foreign = f'{type(e).__name__} in {traceback.extract_tb(e.__traceback__)[-1].name}'
                self.foreign_op = kind
                return False
            exc = common.exn_name(e)
        after = self.items()
        if kind in ('r_claim', 'r_unclaim'):
            coq_op = f'(RReset {self.EL(scn.elem(x) for x in after)})'
        # ---- returned value, encoded as the model shows it
        out = []
        if exc is None:
            out = self.encode_ret(op, vname, ret) if self.force_out is None else self.force_out(ret)
        code = 0 if exc is None else EXC.get(exc, 9)
        idxs = [observe_cache(self.views[v], scn.raw) for v in self.registered]
        has_idx = all(i is not None for i in idxs)
        if not has_idx:
            self.unobservable += 1
            idxs = []
        obs = (f'(mkobs {code} {self.EL(out)} {self.EL(scn.elem(x) for x in after)} {coq_bool(has_idx)} '
               f'{coq_list(coq_zlist(i) for i in idxs)})')
        self.steps.append((coq_op, obs))
        self.classes.append(cls + ('!' + exc if exc else ''))
        # ---- monitors
        ok = True
        if expect is not None:
            ok = self.check_semantics(op, vname, cls, expect, exc, ret, before, after) and ok
        if self.post is not None and exc is None:
            msg = self.post(after)
            if msg:
                self.fail('C10:mapping-semantics' if kind[0] == 'm' or kind in ('x_setdefault', 'x_update')
                          else 'C10:list-semantics', f'{cls} on {scn.name}.{vname or "raw"}: {msg}')
                ok = False
        elif self.post is not None:
            self.fail('C10:mapping-semantics', f'{cls} on {scn.name}.{vname}: raised {exc}')
            ok = False
        ok = ok and self.check_views(cls)
        return ok

    # M1: every view equals the raw list filtered / converted at this moment
    def check_views(self, cls: str) -> bool:
        scn = self.scn
        items = self.items()
        for v in self.registered:
            w = self.views[v]
            F = [scn.conv(v, x) for x in self.filtered(v, items)]
            try:
                got = list(w)
                n = len(w)
                singles = [w[i] for i in range(-len(F), len(F))] if n == len(F) else None
            except Exception as e:  # noqa: BLE001
                self.fail(self.sig_view,
                          f'reading view {scn.name}.{v} raised {type(e).__name__} after {cls} '
                          f'(_raw_indexes={observe_cache(w, scn.raw)}, raw length {len(items)})')
                return False
            positions = [i for i, x in enumerate(items) if scn.tag_of(x) in scn.view_specs[v]['tags']]
            cache = observe_cache(w, scn.raw)
            if n != len(F) or not self.same_list(v, got, F) or (cache is not None and cache != positions) or \
                    not self.same_list(v, singles, [F[i] for i in range(-len(F), len(F))]):
                self.fail(self.sig_view,
                          f'view {scn.name}.{v} differs from the raw list filtered at that moment after {cls}: '
                          f'_raw_indexes={cache} but matching positions are '
                          f'{[i for i, x in enumerate(items) if scn.tag_of(x) in scn.view_specs[v]["tags"]]}')
                return False
            if scn.view_specs[v]['mapping']:
                keys = [x.key for x in F]
                try:
                    okm = list(w.keys()) == keys and len(w) == len(keys)
                    for key in set(keys) | {'k9'}:
                        first = next((x for x in F if x.key == key), None)
                        okm = okm and ((key in w) == (first is not None))
                        if first is not None:
                            got1 = w[key]
                            okm = okm and (got1 is first if scn.view_specs[v]['mapping'] == 'raw'
                                           else got1 == first.value)
                    if scn.view_specs[v]['mapping'] == 'meta':
                        okm = okm and [repr(x) for x in w.values()] == [repr(x.value) for x in F]
                    else:
                        okm = okm and all(a is b for a, b in zip(w.values(), F))
                except Exception as e:  # noqa: BLE001
                    okm = False
                if not okm:
                    self.fail('C10:mapping-view-differs-from-filtered-raw',
                              f'mapping view {scn.name}.{v} is not the first-match ordered mapping of the '
                              f'filtered raw list after {cls}')
                    return False
        return True

    # M2: the step has plain Python list / first-match mapping semantics on the (filtered) list
    def check_semantics(self, op, vname, cls, expect, exc, ret, before, after) -> bool:
        scn = self.scn
        exp_exc, exp_list, exp_ret = expect
        what = None
        if exp_exc != exc:
            what = f'raised {exc} where a Python list / mapping raises {exp_exc}'
        elif exc is None:
            got = after if vname is None else [scn.conv(vname, x) for x in self.filtered(vname, after)]
            if not self.same_list(vname, got, exp_list):
                what = 'the resulting list is not the one the same operation gives on a Python list'
            elif op[0][0] == 'x' or op[0] in ('m_popitem', 'm_dict'):
                def eqv(a, b):
                    if isinstance(a, (list, tuple)) and isinstance(b, (list, tuple)):
                        return len(a) == len(b) and all(eqv(p, q) for p, q in zip(a, b))
                    return a is b or (type(a) is type(b) and a == b)
                if exp_ret is not None and not (exp_ret is _DEFAULT and op[0] != 'x_get') and not eqv(ret, exp_ret):
                    what = 'returned a different value than the Python list / first-match mapping does'
            elif exp_ret is not _DEFAULT:
                if isinstance(exp_ret, list) and op[0][0] == 'm':
                    if not (isinstance(ret, list) and len(ret) == len(exp_ret)
                            and all(a is b or a == b for a, b in zip(ret, exp_ret))):
                        what = 'keys()/values()/items() differ from the ordered first-match mapping'
                elif isinstance(exp_ret, list):
                    if not (isinstance(ret, list) and self.same_list(vname, ret, exp_ret)):
                        what = 'returned a different list than a Python list does'
                elif op[0] == 'm_pop' and not (ret is exp_ret or ret == exp_ret):
                    what = 'returned a different value than the first-match mapping'
                elif op[0] != 'm_pop' and not self.same(vname if op[0][0] != 'm' else None, ret, exp_ret) \
                        and not ret == exp_ret:
                    what = 'returned a different value than a Python list / mapping does'
        else:
            got = after if vname is None else [scn.conv(vname, x) for x in self.filtered(vname, after)]
            ref = before if vname is None else [scn.conv(vname, x) for x in self.filtered(vname, before)]
            if not self.same_list(vname, got, ref) and op[0] != 'v_set':
                what = f'raised {exc} but changed the list'
        if what:
            target = scn.name + ('.' + vname if vname else '.raw')
            sem = 'mapping' if op[0][0] == 'm' else 'list'
            self.fail(f'C10:{sem}-semantics', f'{cls} on {target}: {what}')
            return False
        return True

    def encode_ret(self, op, vname, ret) -> list:
        scn = self.scn
        k = op[0]
        if k == 'v_len':
            return [(0, 0, ret)]
        if k in ('v_iter',):
            return [scn.out_elem(vname, x) for x in ret]
        if k == 'v_get':
            return [scn.out_elem(vname, x) for x in ret] if isinstance(ret, list) else [scn.out_elem(vname, ret)]
        if k == 'v_pop':
            return [scn.out_elem(vname, ret)]
        if k == 'r_pop':
            return [scn.elem(ret)]
        if k == 'm_contains':
            return [(0, 0, 1 if ret else 0)]
        if k == 'm_keys':
            return [(0, scn.code(('k', x)), 0) for x in ret]
        if k == 'm_popitem':
            kk, x = ret
            second = scn.elem(x) if scn.view_specs[vname]['mapping'] == 'raw' else (0, 0, scn.code(('mv', repr(x))))
            return [(0, scn.code(('k', kk)), 0), second]
        if k == 'm_values':
            if scn.view_specs[vname]['mapping'] == 'raw':
                return [scn.elem(x) for x in ret]
            return [(0, 0, scn.code(('mv', repr(x)))) for x in ret]
        if k == 'm_items':
            if scn.view_specs[vname]['mapping'] == 'raw':
                return [scn.elem(x) for _, x in ret]
            return [(0, scn.code(('k', kk)), scn.code(('mv', repr(x)))) for kk, x in ret]
        if k in ('m_get', 'm_pop'):
            if ret is _DEFAULT:
                return [(-1, 0, 0)]
            if scn.view_specs[vname]['mapping'] == 'raw':
                return [scn.elem(ret)]
            return [(0, 0, scn.code(('mv', repr(ret))))]
        return []

    def prepare(self, op: list, before: list):
        """-> (coq op text, thunk running the op on the implementation, expectation of the reference or None).
        expectation = (exception class or None, expected (filtered, converted) list, expected return or _DEFAULT)"""
        scn = self.scn
        k = op[0]
        raw = scn.raw

        def ref_apply(lst, f):
            c = list(lst)
            try:
                r = f(c)
            except (IndexError, ValueError, KeyError) as e:
                return (type(e).__name__, None, _DEFAULT)
            return (None, c, r)

        if k == 'reg':
            v = op[1]
            vs = scn.view_specs[v]

            def call():
                self.views[v] = vs['get']()
                self.registered.append(v)
            return f'(ORegister {coq_zlist(vs["tags"])} {vs["kind"]})', call, None
        if k[0] == 'r':
            if k == 'r_set':
                idx = op[1]
                if isinstance(idx, int) and 'copy' in op[2][0]:
                    import copy
                    vals = [copy.deepcopy(before[idx])] if -len(before) <= idx < len(before) else \
                        [scn.make_raw({'t': scn.raw_tags[-1], 'n': 997, 's': 'zx'})]
                else:
                    vals = [scn.make_raw(s) for s in op[2]]
                pi = py_idx(idx)
                if isinstance(idx, int):
                    def f(c):
                        c[pi] = vals[0]
                        return _DEFAULT
                    return (f'(RSet {self.IDX(idx)} {self.EL(scn.elem(x) for x in vals)})',
                            lambda: raw.__setitem__(pi, vals[0]), ref_apply(before, f))

                def f(c):
                    c[pi] = vals
                    return _DEFAULT
                return (f'(RSet {self.IDX(idx)} {self.EL(scn.elem(x) for x in vals)})',
                        lambda: raw.__setitem__(pi, vals), ref_apply(before, f))
            if k == 'r_del':
                pi = py_idx(op[1])

                def f(c):
                    del c[pi]
                    return _DEFAULT
                return f'(RDel {self.IDX(op[1])})', lambda: raw.__delitem__(pi), ref_apply(before, f)
            if k == 'r_insert':
                x = scn.make_raw(op[2])
                return (f'(RInsert {coq_z(op[1])} {self.E(scn.elem(x))})', lambda: raw.insert(op[1], x),
                        ref_apply(before, lambda c: (c.insert(op[1], x), _DEFAULT)[1]))
            if k == 'r_append':
                x = scn.make_raw(op[1])
                return (f'(RAppend {self.E(scn.elem(x))})', lambda: raw.append(x),
                        ref_apply(before, lambda c: (c.append(x), _DEFAULT)[1]))
            if k == 'r_extend':
                xs = [scn.make_raw(s) for s in op[1]]
                return (f'(RExtend {self.EL(scn.elem(x) for x in xs)})', lambda: raw.extend(xs),
                        ref_apply(before, lambda c: (c.extend(xs), _DEFAULT)[1]))
            if k == 'r_clear':
                return '(RClear)', lambda: raw.clear(), ref_apply(before, lambda c: (c.clear(), _DEFAULT)[1])
            if k == 'r_pop':
                return f'(RPop {coq_z(op[1])})', lambda: raw.pop(op[1]), ref_apply(before, lambda c: c.pop(op[1]))
            if k == 'r_drop':
                ps = op[1]

                def f(c):
                    n = len(c)
                    if any(not -n <= i < n for i in ps):
                        raise IndexError('drop_many')
                    gone = {i + n if i < 0 else i for i in ps}
                    c[:] = [x for i, x in enumerate(c) if i not in gone]
                    return _DEFAULT
                return f'(RDropMany {coq_zlist(ps)})', lambda: raw.drop_many(list(ps)), ref_apply(before, f)
            if k == 'r_iadd':
                xs = [scn.make_raw(sp) for sp in op[1]]
                import operator

                def call():     # exactly `model.raw_xs += xs`
                    setattr(scn.owner, scn.attr, operator.iadd(getattr(scn.owner, scn.attr), xs))
                views_before = dict(self.views)

                def post(after):
                    if getattr(scn.owner, scn.attr) is not raw:
                        return 'raw += values replaced the raw wrapper'
                    if any(scn.view_specs[n]['get']() is not w0 for n, w0 in views_before.items()):
                        return 'raw += values dropped / rebuilt a cached view'
                    return None
                self.post = post
                return (f'(RIAdd {self.EL(scn.elem(x) for x in xs)})', call,
                        ref_apply(before, lambda c: (c.extend(xs), _DEFAULT)[1]))
            if k == 'r_reverse':
                return '(RReverse)', lambda: raw.reverse(), ref_apply(before, lambda c: (c.reverse(), _DEFAULT)[1])
            if k == 'r_claim':
                return '', lambda: raw.claim_interleaving_comments(), None
            if k == 'r_unclaim':
                return '', lambda: raw.unclaim_interleaving_comments(), None
            raise ValueError(op)
        # ---- through a view
        v = op[1]
        w = self.views[v]
        vi = self.registered.index(v)
        Fb = self.filtered(v, before)
        Cb = [scn.conv(v, x) for x in Fb]

        def val(spec):
            if 'copy' in spec:      # a free deep copy of the element currently at that place (equal, not identical)
                import copy
                if Cb and scn.view_specs[v]['kind'] == 'KNode':
                    return copy.deepcopy(Cb[spec['copy'] % len(Cb)])
                return scn.make_value(v, {'t': scn.view_specs[v]['tags'][0], 'n': 998, 's': 'zy'})
            if 'ref' in spec:
                return Cb[spec['ref'] % len(Cb)] if Cb else scn.make_value(v, {'t': scn.view_specs[v]['tags'][0], 'n': 999, 's': 'zz'})
            return scn.make_value(v, spec)

        def eq(a, b):
            return self.same(v, a, b) if scn.view_specs[v]['kind'] != 'KNode' else (a is b or a == b)

        if k == 'x_iadd':
            xs = [val(sp) for sp in op[2]]
            import operator
            vs = scn.view_specs[v]

            def call():         # exactly `model.view += xs`
                setattr(vs['owner'], vs['attr'], operator.iadd(getattr(vs['owner'], vs['attr']), xs))

            def post(after):
                return None if vs['get']() is w else 'view += values replaced the cached view object'
            self.post = post
            return (f'(VIAdd {vi} {self.EL(scn.value_elem(v, x) for x in xs)})', call,
                    ref_apply(Cb, lambda c: (c.extend(xs), _DEFAULT)[1]))
        if k == 'x_reverse':
            return f'(VReverse {vi})', lambda: w.reverse(), ref_apply(Cb, lambda c: (c.reverse(), _DEFAULT)[1])
        if k in ('x_index', 'x_count', 'x_in', 'x_reversed'):
            x = val(op[2]) if k != 'x_reversed' else None

            def pos_of(c):
                for i, y in enumerate(c):
                    if eq(y, x):
                        return i
                raise ValueError('absent')
            self.force_out = lambda ret: [(0, 0, len(w))]
            if k == 'x_index':
                exp = ref_apply(Cb, pos_of)
                coq = f'(VLen {vi})' if exp[0] is None else f'(VRemove {vi} {self.E(scn.out_elem(v, x))})'
                return coq, lambda: w.index(x), exp
            if k == 'x_count':
                return f'(VLen {vi})', lambda: w.count(x), (None, Cb, sum(1 for y in Cb if eq(y, x)))
            if k == 'x_in':
                return f'(VLen {vi})', lambda: x in w, (None, Cb, any(eq(y, x) for y in Cb))
            return f'(VLen {vi})', lambda: list(reversed(w)), (None, Cb, list(reversed(Cb)))
        if k == 'v_len':
            return f'(VLen {vi})', lambda: len(w), (None, Cb, len(Cb))
        if k == 'v_iter':
            return f'(VIter {vi})', lambda: list(w), (None, Cb, list(Cb))
        if k == 'v_get':
            pi = py_idx(op[2])
            return f'(VGet {vi} {self.IDX(op[2])})', lambda: w[pi], ref_apply(Cb, lambda c: c[pi])
        if k == 'v_set':
            idx, vals = op[2], [val(s) for s in op[3]]
            pi = py_idx(idx)
            coq = f'(VSet {vi} {self.IDX(idx)} {self.EL(scn.value_elem(v, x) for x in vals)})'
            if isinstance(idx, int):
                def f(c):
                    c[pi] = vals[0]
                    return _DEFAULT
                return coq, lambda: w.__setitem__(pi, vals[0]), ref_apply(Cb, f)

            def f(c):
                # the wrapper documents one restriction: a slice is only assigned a sequence of its own length
                if len(range(len(c))[pi]) != len(vals):
                    raise ValueError('length')
                c[pi] = vals
                return _DEFAULT
            return coq, lambda: w.__setitem__(pi, vals), ref_apply(Cb, f)
        if k == 'v_del':
            pi = py_idx(op[2])

            def f(c):
                del c[pi]
                return _DEFAULT
            return f'(VDel {vi} {self.IDX(op[2])})', lambda: w.__delitem__(pi), ref_apply(Cb, f)
        if k == 'v_insert':
            x = val(op[3])
            return (f'(VInsert {vi} {coq_z(op[2])} {self.E(scn.value_elem(v, x))})', lambda: w.insert(op[2], x),
                    ref_apply(Cb, lambda c: (c.insert(op[2], x), _DEFAULT)[1]))
        if k == 'v_append':
            x = val(op[2])
            return (f'(VAppend {vi} {self.E(scn.value_elem(v, x))})', lambda: w.append(x),
                    ref_apply(Cb, lambda c: (c.append(x), _DEFAULT)[1]))
        if k == 'v_extend':
            xs = [val(s) for s in op[2]]
            return (f'(VExtend {vi} {self.EL(scn.value_elem(v, x) for x in xs)})', lambda: w.extend(xs),
                    ref_apply(Cb, lambda c: (c.extend(xs), _DEFAULT)[1]))
        if k == 'v_clear':
            return f'(VClear {vi})', lambda: w.clear(), ref_apply(Cb, lambda c: (c.clear(), _DEFAULT)[1])
        if k == 'v_pop':
            return f'(VPop {vi} {coq_z(op[2])})', lambda: w.pop(op[2]), ref_apply(Cb, lambda c: c.pop(op[2]))
        if k == 'v_remove':
            x = val(op[2])

            def f(c):
                for i, y in enumerate(c):
                    if eq(y, x):
                        del c[i]
                        return _DEFAULT
                raise ValueError('absent')
            return f'(VRemove {vi} {self.E(scn.out_elem(v, x))})', lambda: w.remove(x), ref_apply(Cb, f)
        if k == 'v_discard':
            x = val(op[2])

            def f(c):
                c[:] = [y for y in c if not eq(y, x)]
                return _DEFAULT
            return f'(VDiscard {vi} {self.E(scn.out_elem(v, x))})', lambda: w.discard(x), ref_apply(Cb, f)
        # ---- mapping layer (reference: first match in the ordered list of items)
        rawmap = scn.view_specs[v]['mapping'] == 'raw'
        if k == 'm_keys':
            return f'(MKeys {vi})', lambda: list(w.keys()), (None, Cb, [x.key for x in Fb])
        if k == 'm_values':
            return (f'(MValues {vi} {coq_bool(rawmap)})', lambda: list(w.values()),
                    (None, Cb, list(Fb) if rawmap else [x.value for x in Fb]))
        if k == 'm_items':
            return (f'(MItems {vi} {coq_bool(rawmap)})', lambda: list(w.items()),
                    (None, Cb, [(x.key, x) if rawmap else (x.key, x.value) for x in Fb]))
        if k == 'm_dict':
            which, q, arg = op[2], op[3], op[4]
            wi = {'keys': 0, 'values': 1, 'items': 2}[which]
            val_of = (lambda x: x) if rawmap else (lambda x: x.value)
            L = [x.key if wi == 0 else val_of(x) if wi == 1 else (x.key, val_of(x)) for x in Fb]

            def enc(o):
                def ev(x):
                    return scn.elem(x) if rawmap else (0, 0, scn.code(('mv', repr(x))))
                if wi == 0:
                    return (0, scn.code(('k', o)), 0)
                if wi == 1:
                    return ev(o)
                e0 = ev(o[1])
                return (e0[0], scn.code(('k', o[0])), e0[2])
            dv = lambda: getattr(w, which)()   # noqa: E731
            if q == 'iter':
                self.force_out = lambda ret: [enc(o) for o in ret]
                return f'(MDict {vi} {wi} {coq_bool(rawmap)} DIter)', lambda: list(dv()), (None, Cb, list(L))
            if q == 'rev':
                self.force_out = lambda ret: [enc(o) for o in ret]
                return (f'(MDict {vi} {wi} {coq_bool(rawmap)} DReversed)', lambda: list(reversed(dv())),
                        (None, Cb, list(reversed(L))))
            if q == 'len':
                self.force_out = lambda ret: [(0, 0, ret)]
                return f'(MDict {vi} {wi} {coq_bool(rawmap)} DLen)', lambda: len(dv()), (None, Cb, len(L))
            if 'ref' in arg and L:
                qv = L[arg['ref'] % len(L)]
            else:
                fresh_v = scn.make_raw({'t': 1, 'n': 990 + arg.get('absent', 0), 'k': 'k9'}) if rawmap else D(99990)
                other = L[0] if L else None
                qv = 'k9' if wi == 0 else fresh_v if wi == 1 else \
                    (('k9', other[1]) if other is not None and arg.get('absent') == 1 else ('k9', fresh_v))
            self.force_out = lambda ret: [(0, 0, 1 if ret else 0)]
            return (f'(MDict {vi} {wi} {coq_bool(rawmap)} (DIn {self.E(enc(qv))}))', lambda: qv in dv(),
                    (None, Cb, any(o is qv or o == qv for o in L)))
        if k == 'm_popitem':
            exp = ('KeyError', None, _DEFAULT) if not Fb else \
                (None, Cb[1:], (Fb[0].key, Fb[0] if rawmap else Fb[0].value))
            return f'(MPopItem {vi} {coq_bool(rawmap)})', lambda: w.popitem(), exp
        key = op[2]
        kc = scn.code(('k', key))
        pos = next((i for i, x in enumerate(Fb) if x.key == key), None)

        def raw_item(spec):
            if 'copy_key' in spec:
                import copy
                return copy.deepcopy(Fb[pos]) if pos is not None else scn.make_raw({'t': 1, 'n': 996, 'k': key})
            return scn.make_raw(spec)
        if k == 'x_get':
            self.force_out = lambda ret: [(0, 0, 0 if ret is _DEFAULT else 1)]
            return (f'(MContains {vi} {kc})', lambda: w.get(key, _DEFAULT),
                    (None, Cb, _DEFAULT if pos is None else (Fb[pos] if rawmap else Fb[pos].value)))
        if k in ('x_setdefault', 'x_update'):
            if rawmap:
                x = raw_item(op[3])
                call = (lambda: w.setdefault(key, x)) if k == 'x_setdefault' else (lambda: w.update({key: x}))
                if k == 'x_setdefault' and pos is not None:
                    self.force_out = lambda ret: [scn.elem(ret)]
                    return f'(MGet {vi} true {kc})', call, (None, Cb, Fb[pos])
                self.force_out = lambda ret: []
                exp_list = Cb + [x] if pos is None else Cb[:pos] + [x] + Cb[pos + 1:]
                return (f'(MSet {vi} true {kc} {self.E(scn.elem(x))})', call,
                        (None, exp_list, x if k == 'x_setdefault' else None))
            mv = D(op[3]['mv'])
            call = (lambda: w.setdefault(key, mv)) if k == 'x_setdefault' else (lambda: w.update({key: mv}))
            if k == 'x_setdefault' and pos is not None:
                self.force_out = lambda ret: [(0, 0, scn.code(('mv', repr(ret))))]
                return f'(MGet {vi} false {kc})', call, (None, Cb, Fb[pos].value)
            self.force_out = lambda ret: []
            xe = (1, kc, scn.code(('mv', repr(mv))))

            def post(after):
                Fa = self.filtered(v, after)
                if pos is not None:
                    good = self.same_list(v, Fa, Fb) and Fb[pos].value == mv
                else:
                    good = (len(Fa) == len(Fb) + 1 and self.same_list(v, Fa[:-1], Fb)
                            and Fa[-1].key == key and Fa[-1].value == mv)
                return None if good else f'{k} did not set the first match / append one item'
            self.post = post
            return (f'(MSet {vi} false {kc} {self.E(xe)})', call, None)
        if k == 'm_get':
            exp = ('KeyError', None, _DEFAULT) if pos is None else \
                (None, Cb, Fb[pos] if rawmap else Fb[pos].value)
            return f'(MGet {vi} {coq_bool(rawmap)} {kc})', lambda: w[key], exp
        if k == 'm_contains':
            return f'(MContains {vi} {kc})', lambda: key in w, (None, Cb, pos is not None)
        if k == 'm_del':
            exp = ('KeyError', None, _DEFAULT) if pos is None else (None, Cb[:pos] + Cb[pos + 1:], _DEFAULT)
            return f'(MDel {vi} {kc})', lambda: w.__delitem__(key), exp
        if k == 'm_pop':
            dflt = op[3]
            if pos is None:
                exp = (None, Cb, _DEFAULT) if dflt else ('KeyError', None, _DEFAULT)
            else:
                exp = (None, Cb[:pos] + Cb[pos + 1:], Fb[pos] if rawmap else Fb[pos].value)
            call = (lambda: w.pop(key, _DEFAULT)) if dflt else (lambda: w.pop(key))
            return f'(MPop {vi} {coq_bool(rawmap)} {kc} {coq_bool(dflt)})', call, exp
        if k == 'm_set':
            if rawmap:
                x = raw_item(op[3])
                exp = (None, Cb + [x] if pos is None else Cb[:pos] + [x] + Cb[pos + 1:], _DEFAULT)
                return (f'(MSet {vi} true {kc} {self.E(scn.elem(x))})', lambda: w.__setitem__(key, x), exp)
            mv = D(op[3]['mv'])
            xe = (1, kc, scn.code(('mv', repr(mv))))
            # value assignment keeps the list of items (same objects); a new key appends one item
            def post(after):
                Fa = self.filtered(v, after)
                if pos is not None:
                    good = self.same_list(v, Fa, Fb) and Fb[pos].value == mv
                else:
                    good = (len(Fa) == len(Fb) + 1 and self.same_list(v, Fa[:-1], Fb)
                            and Fa[-1].key == key and Fa[-1].value == mv)
                return None if good else 'meta[key] = value did not set the first match / append one item'
            self.post = post
            return (f'(MSet {vi} false {kc} {self.E(xe)})', lambda: w.__setitem__(key, mv), None)
        raise ValueError(op)


def run_history(scn_name: str, layout: list, ops: list) -> Runner:
    return Runner(scn_name, layout, ops).run()


def coq_case(r: Runner) -> str:
    steps = coq_list(f'({o}, {b})' for o, b in r.steps)
    return f'mkvcase {r.EL(r.init_items)} {steps}'


# ------------------------------------------------------------------------------------------------
def gen_history(rng, n_ops: int):
    name = rng.choice(SCENARIOS)
    layout = gen_layout(rng, name)
    # ops are generated against a dry run so that indices are in a useful range
    scn_ops: list = []
    g = None
    r = Runner(name, layout, [])
    g = Gen(rng, r.scn)
    for _ in range(n_ops):
        nraw = len(r.items())
        nview = {v: len(r.filtered(v)) for v in r.registered}
        keys = {v: [x.key for x in r.filtered(v)] for v in r.registered if r.scn.view_specs[v]['mapping']}
        op = g.op(r.registered, nraw, nview, keys)
        scn_ops.append(op)
        if not r.step(op):
            break
        r.executed += 1
    r.ops = scn_ops
    return name, layout, scn_ops, r


# directed histories (run first on every run): the mapping layer with claimed standalone comments before the key,
# identity of an assigned equal-but-not-identical node, += through attributes, dict views with duplicate keys
DIRECTED = [
    ('meta', [0, 1, 0, 1, 1], [['reg', 'meta'], ['reg', 'raw_meta'], ['m_del', 'meta', 'k0'], ['m_del', 'raw_meta', 'k1'],
                               ['m_dict', 'meta', 'keys', 'iter', None]]),
    ('meta', [0, 0, 1, 0, 1, 1, 0, 1], [['reg', 'meta'], ['m_del', 'meta', 'k1'], ['m_pop', 'meta', 'k2', False],
                                        ['m_del', 'meta', 'k1'], ['v_iter', 'meta']]),
    ('meta', [0, 1, 1, 0, 1], [['reg', 'raw_meta'], ['m_set', 'raw_meta', 'k1', {'copy_key': 'k1'}],
                               ['v_set', 'raw_meta', 1, [{'copy': 1}]], ['v_set', 'raw_meta', -1, [{'copy': -1}]],
                               ['r_set', 0, [{'copy': 0}]], ['r_set', 2, [{'copy': 0}]]]),
    ('postings', [1, 0, 1, 1], [['reg', 'postings'], ['v_set', 'postings', 1, [{'copy': 1}]], ['r_set', 3, [{'copy': 0}]],
                                ['x_iadd', 'postings', [{'t': 1, 'n': 801}]], ['r_iadd', [{'t': 0, 'n': 802}]]]),
    ('directives', [0, 1, 0, 1], [['reg', 'raw_directives'], ['v_set', 'raw_directives', 0, [{'copy': 0}]],
                                  ['x_iadd', 'raw_directives', [{'t': 1, 'n': 803}]], ['r_iadd', [{'t': 1, 'n': 804}]]]),
    ('tagslinks', [1, 2, 1], [['reg', 'tags'], ['reg', 'links'], ['x_iadd', 'tags', [{'s': 'zz'}]],
                              ['x_iadd', 'links', [{'s': 'yy'}]], ['r_iadd', [{'t': 2, 'n': 805, 's': 'xx'}]]]),
    ('currencies', [1, 1], [['reg', 'currencies'], ['x_iadd', 'currencies', [{'s': 'CAA'}]]]),
    ('custom', [1, 5, 4], [['reg', 'values'], ['x_iadd', 'values', [{'t': 3, 'n': 806}]]]),
    ('meta', [1, 1, 1, 1, 1], [['reg', 'meta'], ['reg', 'raw_meta'],
                               ['m_dict', 'meta', 'keys', 'in', {'ref': 3}], ['m_dict', 'meta', 'items', 'in', {'ref': 4}],
                               ['m_dict', 'raw_meta', 'values', 'in', {'ref': 0}], ['m_dict', 'raw_meta', 'items', 'in', {'absent': 1}],
                               ['m_dict', 'meta', 'values', 'rev', None], ['m_dict', 'raw_meta', 'keys', 'len', None],
                               ['m_dict', 'meta', 'keys', 'in', {'absent': 0}], ['x_iadd', 'raw_meta', [{'t': 1, 'n': 807, 'k': 'k0'}]],
                               ['m_dict', 'meta', 'keys', 'iter', None]]),
]


def run_all(ctx: common.Ctx):
    n_hist = ctx.scale(700, 6000)
    cases, metas = [], []
    for h in range(-len(DIRECTED), n_hist):
        if h < 0:
            name, layout, ops = DIRECTED[h + len(DIRECTED)]
            r = run_history(name, layout, ops)
            ctx.count('directed_histories')
        else:
            name, layout, ops, r = gen_history(ctx.rng, ctx.rng.choice([6, 10, 16, 24]))
        if r.foreign:
            ops = ops[:r.executed]
        views_used = len(r.registered)
        ctx.case({'scenario': name, 'layout': layout, 'ops': r.classes[:10], 'views': r.registered},
                 nontrivial=views_used >= 1 and len(r.steps) >= 3)
        ctx.dist('scenario=' + name)
        ctx.dist(f'views={views_used}')
        ctx.dist(f'len0={len(layout)}')
        for c in r.classes:
            ctx.dist('op=' + c)
        ctx.count('impl_steps', len(r.steps))
        if r.unobservable:
            ctx.count('private_state_unobservable', r.unobservable)
        if r.foreign and getattr(r, 'foreign_op', '') in ('r_reverse', 'x_reverse'):
            ctx.count('reverse_refused_cannot_reuse_node')
            if not any('reverse()' in n for n in ctx.notes):
                ctx.notes.append('reverse() of a node list / node view is refused on this tree (MutableSequence.reverse '
                                 'assigns attached nodes: ValueError "Cannot reuse node"); see fixes/repeated-reverse.patch')
        if r.foreign:
            ctx.count('histories_cut_by_token_layer_exception')
            ctx.dist('token-layer:' + r.foreign)
        for f in r.failures:
            ctx.monitor_failure(f['sig'], f['what'], {'scenario': name, 'layout': layout, 'ops': ops})
        if r.steps:
            cases.append(coq_case(r))
            metas.append((name, layout, ops, len(r.steps)))
    if ctx.counters.get('private_state_unobservable') and not any('private index cache' in n for n in ctx.notes):
        ctx.notes.append('the private index cache of the views (_raw_indexes) could not be observed on this tree: only the '
                         'behavioural correspondence (results, exception classes, raw list, list(view)/len/view[i]) was '
                         'checked on those steps')
    bad = ctx.run_coq_cases('views', PREAMBLE, 'vcase', 'check_case', cases, chunk=25)
    ctx.count('traces_validated_against_impl', len(cases) - len(bad))
    if bad:
        hyp_bad = set(ctx.run_coq_cases('hyps', PREAMBLE, 'vcase', 'check_hyps', [cases[i] for i in bad], chunk=25))
        for n, i in enumerate(bad):
            if n in hyp_bad and len([f for f in ctx.failures if f.signature == 'theorem-hypotheses']) < 3:
                name, layout, ops = metas[i][:3]
                ctx.fail('corr', 'theorem-hypotheses',
                         'a hypothesis of the C10 theorems (AllInv on the dumped state, value of the view\'s type, node '
                         'view under the mapping layer) is false on a state the implementation produced',
                         {'scenario': name, 'layout': layout, 'ops': ops})
    ctx.count('states_with_theorem_hypotheses_evaluated', sum(m[3] for m in metas) if metas and len(metas[0]) > 3 else 0)
    for i in bad[:3]:
        name, layout, ops = metas[i][:3]
        small = shrink(ctx, name, layout, ops)
        asfound = not disagrees(ctx, *small, fn='check_case_asfound')
        ctx.fail('corr', 'views-correspondence',
                 'Views.v and the implementation disagree on the raw list / _raw_indexes / result after an operation '
                 'history' + (' (the implementation behaves like the code before fixes/c10-*.patch)' if asfound else ''),
                 {'scenario': small[0], 'layout': small[1], 'ops': small[2]})


def disagrees(ctx, name, layout, ops, fn='check_corr') -> bool:
    r = run_history(name, layout, ops)
    if not r.steps:
        return False
    return bool(ctx.run_coq_cases('shrink', PREAMBLE, 'vcase', fn, [coq_case(r)]))


def shrink(ctx, name, layout, ops, budget: int = 24):
    cur = list(ops)
    n = 0
    lo, hi = 1, len(cur)
    while lo < hi and n < budget:
        mid = (lo + hi) // 2
        n += 1
        if disagrees(ctx, name, layout, cur[:mid]):
            hi = mid
        else:
            lo = mid + 1
    cur = cur[:hi]
    i = 0
    while i < len(cur) - 1 and n < budget:
        cand = cur[:i] + cur[i + 1:]
        n += 1
        try:
            if disagrees(ctx, name, layout, cand):
                cur = cand
                continue
        except Exception:  # noqa: BLE001
            pass
        i += 1
    return name, layout, cur


def shrink_monitor(name, layout, ops, sig):
    """Smallest prefix / sub-history that still produces a monitor failure of the same signature."""
    def fails(o):
        try:
            return any(f['sig'] == sig for f in run_history(name, layout, o).failures)
        except Exception:  # noqa: BLE001
            return False
    cur = list(ops)
    i = 0
    n = 0
    while i < len(cur) - 1 and n < 60:
        cand = cur[:i] + cur[i + 1:]
        n += 1
        if fails(cand):
            cur = cand
        else:
            i += 1
    return cur


# ------------------------------------------------------------------------------------------------
def run(ctx: common.Ctx):
    ctx.rule = ('seeded interleavings (6..24 steps) of every mutator of the raw list and of every view (int, negative, '
                'out-of-range, slice, extended slice, step 0; mapping keys present/absent/duplicated) over six '
                'scenarios (file directives, transaction meta with raw_meta+meta, postings, tags+links, open '
                'currencies, custom values) with 0..7 initial elements and interleaved standalone comments, whole-field '
                'reassignment (model.raw_xs = deepcopy of another model\'s field) after views were read, views '
                'registered at random moments; a case is non-trivial when at least one view is registered and at '
                'least 3 steps ran; distinct by (scenario, layout, op classes, views)')
    ctx.assumptions += [
        'CPython list/slice/range/bisect semantics as modelled in PySeq.v (validated by the exhaustive sweep of this run)',
        'the items/notification level only: which tokens move is C03/C05, which comments claim_interleaving_comments finds is C14 (RReset takes the new list as given)',
        'a view is only given values of its own type; assigning a slice through a view requires a sequence of the slice\'s own length (documented restriction of RepeatedValueWrapper.__setitem__)',
        'elements are compared by class tag, key and value content, not by object identity, across the Coq boundary (identity is checked by the monitor)',
        'MutableSequence/MutableMapping mixin methods (reverse, +=, update, setdefault, ...) are compositions of the modelled primitives',
        'theorem hypotheses (AllInv, values of the view\'s type, node view under the mapping layer) are evaluated inside Coq on every dumped implementation state (check_hyps; soundness: C10_dumped_state_hypothesis_sound)',
    ]
    ok = ctx.require_coq(['properties/C10'], extra_targets=['ViewsRun', 'WholeFieldRun'])
    if ok:
        sweep(ctx)
    run_all(ctx)
    probe_update_from_view(ctx)
    from harness import wholefield
    wholefield.run_all(ctx)          # whole-field assignment, its caches, += and wrapper copies (WholeField.v)
    # shrink monitor witnesses
    for f in ctx.failures:
        if f.kind == 'monitor' and isinstance(f.witness, dict) and 'ops' in f.witness and 'scenario' in f.witness:
            f.witness['ops'] = shrink_monitor(f.witness['scenario'], f.witness['layout'], f.witness['ops'], f.signature)


def probe_update_from_view(ctx: common.Ctx):
    """A meta mapping view used as the SOURCE of update(): with repeated keys the view is a first-match mapping, so
    after target.meta.update(source.meta) every key reads in the target what it reads in the source - exactly what
    dict.update(source.meta) gives."""
    from autobean_refactor import models
    P = parser()
    texts = ['2000-01-01 open Assets:Src\n  aa: 1\n  bb: "x"\n  aa: 2\n  cc: TRUE\n  bb: "y"\n2000-01-02 close Assets:Dst\n  zz: 0\n  aa: 9\n',
             '2000-01-01 open Assets:Src\n  kk: 2000-01-01\n  kk: 2000-01-02\n  kk: 2000-01-03\n2000-01-02 close Assets:Dst\n']
    for text in texts:
        f = P.parse(text, models.File)
        src, dst = f.raw_directives
        ctx.count('update_from_view_probes')
        ref = {'zz': None}
        ref = dict(dst.meta.items()) if False else {k: dst.meta[k] for k in dst.meta.keys()}
        ref.update(src.meta)                       # the reference: a plain dict updated from the same view
        try:
            dst.meta.update(src.meta)
        except Exception as e:
            ctx.monitor_failure('C10:update-from-view', f'dst.meta.update(src.meta) raised {type(e).__name__}: {e}', {'text': text})
            continue
        got = {k: dst.meta[k] for k in dst.meta.keys()}
        want = {k: src.meta[k] for k in src.meta.keys()}
        if any(got.get(k) != v for k, v in want.items()) or got != ref:
            ctx.monitor_failure('C10:update-from-view', f'after dst.meta.update(<meta view of the source, keys repeated>) the target reads '
                                f'{got}; the source view reads {want} and dict.update gives {ref}', {'text': text})


def search(ctx: common.Ctx):
    run_all(ctx)
    from harness import wholefield
    wholefield.run_all(ctx)
    for f in ctx.failures:
        if f.kind == 'monitor' and isinstance(f.witness, dict) and 'ops' in f.witness and 'scenario' in f.witness:
            f.witness['ops'] = shrink_monitor(f.witness['scenario'], f.witness['layout'], f.witness['ops'], f.signature)


def replay(ctx: common.Ctx, path: str) -> int:
    data = json.loads(open(path).read())
    f = data.get('failure') or (data.get('what_no_longer_checks') or [{}])[0]
    w = f.get('witness') or {}
    if w.get('wholefield'):
        from harness import wholefield
        return wholefield.replay(ctx, w)
    if 'ops' not in w:
        print(json.dumps(f, indent=1))
        return 1
    r = run_history(w['scenario'], w['layout'], w['ops'])
    print(f'scenario {w["scenario"]} layout {w["layout"]}')
    for op, c in zip(w['ops'], r.classes):
        print('  ', json.dumps(op), '->', c)
    for x in r.failures:
        print('monitor:', x['sig'], '-', x['what'])
    bad = ctx.run_coq_cases('replay', PREAMBLE, 'vcase', 'check_case', [coq_case(r)]) if r.steps else []
    print('model/implementation agree' if not bad else 'model/implementation DISAGREE')
    return 1 if (r.failures or bad) else 0
