"""C07 - the token store behaves exactly like a plain ordered sequence."""
from harness import common, store_check, store_exhaustive

SIGS = ('C07',)


def run(ctx: common.Ctx):
    ctx.rule = ('seeded operation histories (insert_after/before, splice incl. re-inserting tokens of the removed '
                'range, remove, replace, text updates, refusals) over stores with load factor 2..16; a case is '
                'non-trivial when the store reached >= 2 blocks or an operation was refused; distinct by '
                '(lf, token count, op kinds, max blocks). Plus an exhaustive small scope (every operation sequence up to '
                'a bound over every small initial store, load factors 2 and 3: counters exhaustive_*; the bounds are the '
                'string counter exhaustive_bounds), as correspondence and monitor input, not as proof')
    ctx.assumptions += ['inserted tokens are free or inside the removed range (the contract of splice)',
                        'CPython list/slice semantics as modelled in Store.v (list_setslice, list_pop, py_nth)']
    ctx.require_coq(['properties/C07'], extra_targets=['StoreRun', 'StoreRunFan'])
    store_check.run_store(ctx, SIGS, 60, 600)
    exhaustive(ctx)


def exhaustive(ctx: common.Ctx):
    """The small scope enumerated completely (harness/store_exhaustive.py). Quick: stores of <= 2 tokens (closed under
    the operations after one step, so every longer sequence inside the bound is covered too); thorough: <= 4 tokens,
    plus the wide slice of 5..7 tokens (three and four blocks)."""
    if ctx.quick:
        store_exhaustive.run_exhaustive(ctx, SIGS, N=2, L=3, M=2, W=0)
    else:
        store_exhaustive.run_exhaustive(ctx, SIGS, N=4, L=3, M=4, W=7)


def search(ctx: common.Ctx):
    store_check.run_store(ctx, SIGS, 60, 600)


def replay(ctx, path):
    return store_check.replay(ctx, path, SIGS)
