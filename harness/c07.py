"""C07 - the token store behaves exactly like a plain ordered sequence."""
from harness import common, store_check

SIGS = ('C07',)


def run(ctx: common.Ctx):
    ctx.rule = ('seeded operation histories (insert_after/before, splice incl. re-inserting tokens of the removed '
                'range, remove, replace, text updates, refusals) over stores with load factor 2..16; a case is '
                'non-trivial when the store reached >= 2 blocks or an operation was refused; distinct by '
                '(lf, token count, op kinds, max blocks)')
    ctx.assumptions += ['inserted tokens are free or inside the removed range (the contract of splice)',
                        'CPython list/slice semantics as modelled in Store.v (list_setslice, list_pop, py_nth)']
    ctx.require_coq(['properties/C07'], extra_targets=['StoreRun'])
    store_check.run_store(ctx, SIGS, 60, 600)


def search(ctx: common.Ctx):
    store_check.run_store(ctx, SIGS, 60, 600)


def replay(ctx, path):
    return store_check.replay(ctx, path, SIGS)
