"""Writes /verif/MANIFEST.json from the table below (kept valid at all times)."""
import json
from pathlib import Path

NOTE_COMMON = ('Trusted: Coq 8.16.1 kernel + VM; the hand-written model is tied to /repo by a per-run '
               'correspondence (differential execution inside Coq via vm_compute of the model against the real '
               'implementation, full concrete state) - generator quality bounds it; CPython/lark semantics as '
               'modelled. No axioms; Print Assumptions checked on every run.')

CHECKS = {
    'C07': dict(
        text='Theorems about Store.v (a statement-by-statement Gallina model of token_store.py with explicit '
             'handles, block indexes and caches): invariant + refinement to a plain list for every operation, '
             'history and load factor >= 2. Tied to the code by full-state correspondence after every step and a '
             'plain-list monitor on the implementation.',
        design='DESIGN.md §7 C07', technique='Coq proof: invariant + refinement to list spec; model/impl correspondence'),
}

ALL = [f'C{i:02d}' for i in range(1, 21)]
NOT_YET = 'check not built yet in this session (work in progress; will be claimed once its model, theorems and correspondence run)'


def main():
    checks = []
    for pid, c in CHECKS.items():
        checks.append({
            'property_id': pid,
            'quick_cmd': f'./check {pid} --tier quick',
            'thorough_cmd': f'./check {pid} --tier thorough',
            'evidence_file': f'/verif/evidence/{pid}.json',
            'replay_cmd_template': f'./check {pid} --replay {{path}}',
            'engine': 'coq-model+correspondence',
            'level_claimed': {'category': 'proof', 'text': c['text'], 'design_ref': c['design']},
            'level_note': c.get('note', NOTE_COMMON),
            'technique': c['technique'],
        })
    m = {
        'version': 1,
        'setup_cmd': 'make -C /verif setup',
        'hooks': {'guard': 'AUTOBEAN_REFACTOR_VERIF', 'enable': 'no source hooks: the harness reads private attributes and sets token_store load-factor constants in-process',
                  'baseline_off_cmd': 'cd /repo && /venv/bin/python -m pytest -ra -q -p no:cacheprovider --timeout=900 --continue-on-collection-errors',
                  'source_commits': [], 'add_only': True},
        'engines': [{'name': 'coq-model+correspondence', 'path': '/verif/check',
                     'serves_properties': list(CHECKS), 'kind_free_text': 'Coq 8.16.1 theorems over executable Gallina models; per-run model/implementation correspondence via generated cases files evaluated with vm_compute; implementation-level monitors for counter-example search'}],
        'checks': checks,
        'notes': 'See DESIGN.md. known_findings.json lists recorded findings and repaired defects.',
        'not_applicable': [{'property_id': p, 'reason': NOT_YET} for p in ALL if p not in CHECKS],
    }
    Path('/verif/MANIFEST.json').write_text(json.dumps(m, indent=1) + '\n')


if __name__ == '__main__':
    main()
