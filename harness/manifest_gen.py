"""Writes /verif/MANIFEST.json from the table below (kept valid at all times).
A property is listed under `checks` only when READY (its check exits 0 on the unchanged tree)."""
import json
from pathlib import Path

NOTE = ('Trusted: Coq 8.16.1 kernel + VM (vm_compute; no native_compute), no axioms (Print Assumptions audited on every '
        'run: Closed under the global context); the hand-written Gallina model is tied to /repo on every run by a '
        'correspondence check (the model is evaluated inside Coq on the same seeded inputs/histories as the real '
        'implementation and full observable state is compared) - differential testing, bounded by generator quality; ')

T = {
    'C01': ('Theorems about PostLex.v/Builder.v (transcriptions of PostLex.process and ModelBuilder): post-lexing preserves the text, the builder tiles the lexeme stream exactly once in order, hence File prints its input and every sub-model prints its span; non-File targets: _refuted + _partial (known finding). lark is an oracle whose contract (tiling, leaf order) is evaluated on every input.',
            'lark contextual lexer + LALR engine, CPython re are oracles (hypotheses H-tile/H-order checked per input)', 'Coq proof over PostLex/Builder model + oracle contracts checked per input'),
    'C02': ('Theorems about Store.v: a text update keeps the token sequence (identity, order) and every other token\'s text, for tokens in a store or free, all four cache branches of update(); lifted to assignment sequences. Document-level monitor: printed text = old text with that token span replaced.',
            'value codecs are C12\'s', 'Coq proof: frame theorem for set_text/update over the store invariant'),
    'C03': ('Theorems about Repeated.v/Fields.v (transcriptions of RepeatedNodeWrapper._insert_tokens/_del_tokens/__setitem__/insert/pop/..., optional field create/remove): every operation rewrites one window, siblings keep their tokens, only separator-kind tokens adjacent to the child change; layout invariant preserved, lifted to histories. Removal of an optional child follows the repaired code (both branches: separators dropped, or kept when the child was glued to its other neighbour) with the exact set of tokens that go; directed glued layouts in the monitor corpus.',
            'value-level routes are compositions validated by correspondence', 'Coq proof: frame + layout invariant over token-list model'),
    'C04': ('Theorems about Comments.v (claim/unclaim/shift as list surgery): every step permutes only zero-width placeholders, the subsequence of visible tokens is identical, hence printed text unchanged, for every call sequence; read-only API by snapshot monitor.',
            'getters are pure in the model; that the implementation\'s getters do not write is established by the snapshot monitor', 'Coq proof: permutation-of-placeholders invariant'),
    'C05': ('Theorems over the generic tree model driven by descriptors re-extracted from models/generated on every run (GeneratedWf by vm_compute): the C05 statement as a predicate WF with a verified checker wf_b (sound), preserved by reattach, clone, construction (full: ConstructFull.v) and by the tree edits of TreeEdit.v at any path (through fields and into items of repeated fields): plugging a re-attached well-formed subtree, inserting an item with its separators (both placements of _insert_tokens), removing an item (both branches of _del_tokens), creating / removing the child of an optional field next to the pivot the extracted chain designates (left and right fields); pop() returns a self-contained well-formed tree; C05_history_all_slots: every sequence of such edits (required, optional, repeated slots) keeps HWF (hence WF); each edit kind is compared with real edits of the implementation on every run (TreeRun.check_ecase2 / check_ocase); counter-lemma: without reattach the result is not WF. wf_b is evaluated on every implementation state the run dumps (parsed, edited, popped, copied, constructed) and the WF statement is monitored after every edit of seeded/focused histories over the whole API. remove_opt follows repo fix b46d2bd (separators kept when the child touches its other neighbour; TreeEditProofs6: regap keeps HWF). Health monitor (tree, cached views, positions) after every step.',
            'batch/slice forms are sequences of the single-item edits at tree level and are covered by the token-list theorems of C03 plus per-state validation by the verified checker; hand-written classes by correspondence only', 'translator (ast, fail-closed) + Coq proof over generic tree model (WF checker sound, compositional edits) + per-state validation + WF monitor'),
    'C06': ('Partial: the re-parse statement needs the real lexer/parser (oracle) and is decided by the monitor (print, re-parse, compare content, value views and comment texts after every edit). Proved: separation of repeated-field items is preserved by every delete/insert/replace (RepeatedSep), tight fields demand nothing; the lexical half over the hand-written recognisers of all 16 terminals that Tokens.v models (TokensStable.v): a complete lexeme followed by text r is recognised with exactly the same extent whenever boundary_K r holds (weakest such condition for 8 terminals), every blank / line end / comma-blank is a boundary for every value kind, hence items printed with such gaps scan back into exactly the lexemes (C06_separated_relex; converse witnesses 1 ++ ,234 / #a ++ b / BBB ++ USD); formatted layouts enumerate declared fields in order; pivots are the scheme chains and are recomputed on every access (translator refuses a cached pivot). C06_remove_keeps_separation: removing an optional child that touches what lies on its other side keeps every separator between pivot and child (repo fix b46d2bd); directed glued texts with every optional child removed alone and cumulatively; stale-view and whole-field scenarios.',
            'lark (choice of terminal by the LALR state, the contextual lexer) is an oracle: the recognisers are compared with lark and CPython re on every run incl. lexeme+continuation texts; optional-field separators covered by C03 slot theorems + monitor', 'Coq proof of separation invariant + lexeme-extent stability + translator facts; re-parse monitor'),
    'C07': ('Theorems about Store.v, a statement-by-statement Gallina model of token_store.py (explicit handles, block indexes, caches, load factor a variable): invariant + refinement to a plain list for every operation and history and every load factor >= 2; observers equal list functions. Full-state correspondence after every step (LF 2..16), a plain-list monitor, and an exhaustive small-scope correspondence (store_exhaustive.py: every operation with every argument combination from every store of <= 4 tokens over a 3-text alphabet, LF 2 and 3, all sequences up to length 3 with states merged up to renaming - thorough tier: ~220k distinct steps compared inside Coq; a slice in the quick tier).',
            'contract of splice: inserted tokens are free or inside the removed range', 'Coq proof: invariant + refinement to list spec'),
    'C08': ('Theorems about Store.v: get_position = advance over the concatenated text before the token, get_index = ordinal, under the store invariant; update() keeps the size caches exact in all four branches; token_size is a monoid morphism. Correspondence on text-update-heavy histories + position monitor on stores and parsed documents.',
            '"\\n" is the only line break (as _token_size counts); 0-based positions', 'Coq proof: position theorem over store invariant'),
    'C09': ('Theorems about Cost.v/Txn.v (branch-for-branch transcription of the CostSpec setters, unordered_node_property, payee/narration): refinement to the record-of-optionals spec from every normal concrete form, refusals atomic, for every assignment sequence; MetaValue.v (optional_meta_value_property, update_value, from_value, custom._update_raw with the type tests in source order): get(set v) = v for every value and slot content, in-place iff the kinds match, raw models stored as given, the one refusal. Correspondence + record-model monitor + generic get-after-set on every value property.',
            'component list operations and value codecs validated, not proved', 'Coq proof: refinement to record-of-optionals spec'),
    'C10': ('Theorems about PySeq.v/Views.v: the _raw_indexes cache of every registered view equals the positions of matching elements after any interleaving of mutations through the raw list or any view (handle_splice bisect+shift lemma), and each view operation has Python-list semantics. PySeq validated exhaustively against CPython for small sizes each run. WholeField.v (heap of instance dicts, wrappers with handler lists, Repeateds): after every history of reads, whole-field assignments, +=, wrapper copies and list edits through every handle ever obtained, every cached view is built on the cached wrapper of the held Repeated with exact indexes; as-found and seeded variants refuted by witness; compared step by step with the implementation (wholefield.py).',
            'PySeq is a model of CPython sequence semantics (finite sweep each run)', 'Coq proof: view invariant over all interleavings'),
    'C11': ('Theorems about Tree.v clone (driven by extracted c_clone lists): the copy is equal, its leaves are the image of the original\'s under the fresh-token map (disjoint, complete), all nodes on the new store. Monitor: deep copies at every depth + edit independence both ways. Wrapper deep copies (WholeField.v): different wrappers never share a Repeated, an edit through one leaves the other untouched (empty lists included; the sharing variant refuted).',
            'token _clone methods by correspondence', 'translator + Coq proof over generic tree model + independence monitor'),
    'C12': ('Theorems about Tokens.v (exact transcriptions of _format_value/_parse_value and hand-written recognisers of the terminals): parse(format v) = v and the text is one lexeme, verbatim acceptance, coherence after assignment sequences. Regex texts pinned; codecs and recognisers compared with the implementation and the real lexer.',
            'CPython re / str primitives as modelled; decimal/date formatting validated', 'Coq proof: codec round-trips + recognisers'),
    'C13': ('Theorems about NumExpr.v (every constructor/dunder of number_expr.py; arithmetic carrier abstract): printed text re-parses to the same tree, value = evaluation, operator results and parenthesisation, operands untouched, chains by induction.',
            'decimal arithmetic is a Section variable; lark lexer oracle', 'Coq proof: parse/print/eval over expression trees'),
    'C14': ('Theorems about Comments.v/CommentsOwn/CommentsRestore: ownership invariant (<= 1 owner, claimed flag coherent) preserved by all six claim/unclaim calls, auto-claim sequences and node-level assignment of comments, for every history; unclaim-claim restores (surrounding and interleaving: full, the latter under the position hypothesis claimable_b, refuted without it = known finding for appended entries); the interleaving claimer claims exactly the unclaimed comments of its range (CommentsRange/CommentsComplete: covers, frame, where the scan stops), hence no comment unowned after File.auto_claim_comments and idempotence of the File-level auto-claim without assuming everything claimed; single-claim rule declaratively (iff); the attribution rule over layouts (CommentsRule.v): attrib_spec, the first surrounding claim called while the comment is unclaimed and adjacent wins, the call order decides (leading over trailing because of the generated order, read off Generated.v by vm_compute), standalone fall-through into the first field whose range holds the comment, refuted for the one cross-field inversion (Transaction: postings before meta = known finding). Every theorem hypothesis is a boolean evaluated per trace of the implementation. Monitors: ownership tables, none unowned, parse(flag)=parse+claim, idempotence, restore, hand-over histories, rule from the line layout. Placement (CommentsPlacement.v): claimed entries tight against the field, placeholder in front, kept by every claim/unclaim history; two same-owners-wrong-side rewrites refuted.',
            'that a comment is still unclaimed and adjacent / in range when its call comes is validated per trace (attrib_spec_b against the final owner), not proved', 'Coq proof: ownership invariant over histories + declarative claim rule'),
    'C15': ('Theorems about Construct.v (generic from_children over the extracted layouts): constructed node conforms, its kids are the arguments, token texts in layout order with the declared separators, WF and whole-store for every generated class and argument combination with both former run-level hypotheses discharged (ConstructFull.v: edges_ok per class by vm_compute, args_fresh = the condition under which the implementation does not refuse), hereditary well-formedness, constructed models are admissible donors (construct-insert-history closes the C05 loop); CustomValues.v (custom._disambiguate_values statement by statement): the disambiguated value list prints to tokens that split back into exactly those values (refuted without disambiguation: [1; -2]), values kept, idempotent, refusal atomic; layouts enumerate every declared field once in order (per-run, generated classes). Re-parse equality decided by the monitor over every class with from_value x optional-argument subsets, argument read-back, root comments, File assembly; the verified WF checker runs on every constructed model.',
            'lark is an oracle; two recorded findings for comments that end up adjacent', 'translator + Coq proof of generic construction; construct-print-reparse monitor'),
    'C16': ('Theorems about Editor.v over a model file system (glob/normpath/parse/print as Section variables with stated laws): unchanged not written, changed = printed model exactly, removed unlinked, added created, each reachable path parsed once (BFS terminates), raise => no write. Real Editor run in temp dirs; FS-operation traces compared.',
            'OS file semantics, glob, normpath are Section variables; encodings/permissions/concurrency not modelled', 'Coq proof over model file system + trace correspondence'),
    'C17': ('Theorems about Spacing.v: getter = maximal spacing run modulo zero-width tokens (scan form full; text-adjacent form partial + refuted witness), both sides agree when no zero-width mark splits the run (refuted otherwise: recorded finding), setter changes only whitespace tokens in that gap with exact length difference, get(set s) = s for non-empty s in the spacing language.',
            'finding C17:both-sides:blanks-before-eol', 'Coq proof over token-list model'),
    'C18': ('Theorems about Indent.v (_get_indent/_get_default_indent, mapping and comment routes): new item takes siblings\' indent else parent indent ++ indent_by; raw nodes keep theirs; existing indents unchanged.',
            '', 'Coq proof over indent model'),
    'C19': ('Theorems about Repeated.v/Fields.v in a statement-order-preserving model: every mutator that returns Err leaves document, items and donors unchanged, at every point of any history, including attached and duplicate donors; attached donors always refused (partial: refuted witness for a child spanning its free parent). Monitor: snapshot equality after every exception for every refusal kind named in the property (reuse, index/key, size mismatch, comments not found, illegal cost combination, unrepresentable raw text, arithmetic operand, foreign-store tokens). Whole-field assignment (WholeField.v): a refused assignment returns the heap unchanged, an attached donor is always refused; cache-first variant refuted. Probes: ancestor-into-descendant, mapping batches with repeated keys, extended-slice batches.',
            'D15 known finding; out-of-domain values out of contract', 'Coq proof: atomicity of refusals over histories'),
    'C20': ('Theorems about Tree.v node_eq driven by the extracted c_eq lists: symmetric, implies equal text and class, and for wf classes is exactly equality on every declared field (no forgotten field); GeneratedWf per run. Monitor: parse-twice, cross pairs vs structural dump, perturbations, hash consistency.',
            'placeholder layout after claim+unclaim: known finding', 'translator + Coq proof over generic tree model'),
}

DESIGN = {p: f'DESIGN.md §7 {p}' for p in T}
READY = [f'C{i:02d}' for i in range(1, 21)]
ALL = [f'C{i:02d}' for i in range(1, 21)]
NOT_YET = 'check not claimed yet in this session (its machinery is being built; claimed once it exits 0 on the unchanged tree)'


def main():
    checks = []
    for pid in ALL:
        if pid not in READY:
            continue
        text, extra, tech = T[pid]
        checks.append({
            'property_id': pid,
            'quick_cmd': f'./check {pid} --tier quick',
            'thorough_cmd': f'./check {pid} --tier thorough',
            'evidence_file': f'/verif/evidence/{pid}.json',
            'replay_cmd_template': f'./check {pid} --replay {{path}}',
            'engine': 'coq-model+correspondence',
            'level_claimed': {'category': 'proof', 'text': text, 'design_ref': DESIGN[pid]},
            'level_note': NOTE + extra,
            'technique': tech,
        })
    m = {
        'version': 1,
        'setup_cmd': 'make -C /verif setup',
        'hooks': {'guard': 'AUTOBEAN_REFACTOR_VERIF',
                  'enable': 'no source hooks: the harness reads private attributes and sets the token_store load-factor constants in-process',
                  'baseline_off_cmd': 'cd /repo && /venv/bin/python -m pytest -ra -q -p no:cacheprovider --timeout=900 --continue-on-collection-errors',
                  'source_commits': [], 'add_only': True},
        'engines': [{'name': 'coq-model+correspondence', 'path': '/verif/check',
                     'serves_properties': [p for p in ALL if p in READY],
                     'kind_free_text': 'Coq 8.16.1 theorems over executable Gallina models (coq/theories); translator translate/gen.py regenerates Generated.v from the source each run; per-run model/implementation correspondence via generated cases files evaluated with vm_compute; implementation-level monitors search for concrete counter-examples'}],
        'checks': checks,
        'notes': 'See DESIGN.md. known_findings.json lists recorded findings (suppress only their own signature) and repaired defects.',
        'not_applicable': [{'property_id': p, 'reason': NOT_YET} for p in ALL if p not in READY],
    }
    Path('/verif/MANIFEST.json').write_text(json.dumps(m, indent=1) + '\n')


if __name__ == '__main__':
    main()
