"""Document-level monitors shared by C05 (well-formed tree after any edit history), C06 (re-parse of the
printed text), C11 (deep copy) and C20 (equality): the property statements evaluated on the real
implementation over generated ledgers and seeded edit histories (harness/edits.py)."""
from __future__ import annotations

import copy
import random
from typing import Any, Optional

from harness import common, edits, gen_docs, treewalk
from harness import store_driver as sd


def diff(a, b, path='') -> Optional[str]:
    if type(a) != type(b):
        return f'{path}: {a!r} vs {b!r}'
    if isinstance(a, dict):
        for k in sorted(set(a) | set(b)):
            if k not in a or k not in b:
                return f'{path}.{k}: present on one side only'
            d = diff(a[k], b[k], path + '.' + k)
            if d:
                return d
        return None
    if isinstance(a, (list, tuple)):
        if len(a) != len(b):
            return f'{path}: length {len(a)} vs {len(b)}'
        for i, (x, y) in enumerate(zip(a, b)):
            d = diff(x, y, f'{path}[{i}]')
            if d:
                return d
        return None
    return None if a == b else f'{path}: {a!r} vs {b!r}'


def documents(ctx: common.Ctx, n: int, *, auto_claim: Optional[bool] = None):
    for _ in range(n):
        lf = ctx.rng.choice([3, 6, 1000, 1000])
        sd.set_load_factor(lf)
        text = gen_docs.ledger(ctx.rng)
        ac = auto_claim if auto_claim is not None else ctx.rng.random() < 0.8
        f = gen_docs.parse_ok(text, ac)
        if f is None:
            ctx.count('rejected_documents')
            continue
        yield text, ac, lf, f
    sd.set_load_factor(1000)


def replay_history(text: str, auto_claim: bool, lf: int, seed: int, n_edits: int):
    """Deterministic re-execution of a history: same seed -> same edits."""
    sd.set_load_factor(lf)
    f = gen_docs.parse_ok(text, auto_claim)
    r = random.Random(seed)
    out = []
    for _ in range(n_edits):
        e = edits.random_edit(r, f)
        out.append(repr(e))
    sd.set_load_factor(1000)
    return f, out


# ---- C05 -------------------------------------------------------------------------------------------
def run_c05(ctx: common.Ctx):
    from autobean_refactor.models.internal import properties as props
    for text, ac, lf, f in documents(ctx, ctx.scale(60, 600)):
        seed = ctx.rng.randrange(1 << 30)
        r = random.Random(seed)
        n_edits = ctx.rng.choice([2, 5, 10] if ctx.quick else [5, 10, 25])
        hist = []
        ok_edits = 0
        p0 = treewalk.wf_problems(f, expect_whole_store=True)
        if p0:
            ctx.monitor_failure('C05:parsed-not-wf', f'freshly parsed document is not well-formed: {p0[0]}',
                                {'text': text, 'auto_claim': ac})
            continue
        for k in range(n_edits):
            e = edits.random_edit(r, f)
            if e is None:
                continue
            hist.append(repr(e))
            ctx.dist('edit=' + e.desc.split('(')[0].split(' = ')[0].split('.')[-1].split('[')[0][:24])
            if e.exc is not None:
                ctx.dist('refused=' + type(e.exc).__name__)
                continue
            ok_edits += 1
            probs = treewalk.wf_problems(f)
            if probs:
                ctx.monitor_failure('C05:not-wf-after-edit', f'after {hist[-1]}: {probs[0]}',
                                    {'text': text, 'auto_claim': ac, 'lf': lf, 'edit_seed': seed, 'n_edits': k + 1,
                                     'history': hist, 'problems': probs[:5]})
                break
        # pop() returns a complete self-contained tree
        wrappers = []
        for p, m in treewalk.walk(f):
            if isinstance(m, edits.base.RawTreeModel) and not isinstance(m, edits.internal.Repeated):
                for name, prop in edits.class_props(type(m)).items():
                    if isinstance(prop, props.repeated_node_property) and not name.startswith('_'):
                        try:
                            w = getattr(m, name)
                        except Exception:
                            continue
                        if len(w):
                            wrappers.append((f'{p}.{name}', w))
        if wrappers:
            name, w = r.choice(wrappers)
            i = r.randrange(len(w))
            try:
                node = w.pop(i)
            except Exception as x:
                node = None
            if node is not None and isinstance(node, edits.base.RawTreeModel):
                probs = treewalk.wf_problems(node, expect_whole_store=True)
                hist.append(f'{name}.pop({i})')
                if probs:
                    ctx.monitor_failure('C05:popped-not-selfcontained', f'{name}.pop({i}) returned a tree that is not '
                                        f'self-contained: {probs[0]}', {'text': text, 'auto_claim': ac, 'lf': lf,
                                                                       'edit_seed': seed, 'history': hist})
                probs = treewalk.wf_problems(f)
                if probs:
                    ctx.monitor_failure('C05:not-wf-after-edit', f'after {name}.pop({i}): {probs[0]}',
                                        {'text': text, 'auto_claim': ac, 'lf': lf, 'edit_seed': seed, 'history': hist})
        ctx.case({'chars': len(text), 'auto_claim': ac, 'lf': lf, 'history': hist[:6]}, nontrivial=ok_edits > 0)
        ctx.count('edits_applied', ok_edits)


# ---- C06 -------------------------------------------------------------------------------------------
def classify_c06(d: str, out: str) -> str:
    if '._values' in d:
        return 'C06:custom-values-adjacent-numbers'
    if d.rstrip().endswith("\\r')") or ('_ignored' in d and '\\r' in d):
        return 'C06:ignored-line-crlf'
    return 'C06:reparse-content-differs'


def run_c06(ctx: common.Ctx):
    for text, ac, lf, f in documents(ctx, ctx.scale(60, 600), auto_claim=True):
        seed = ctx.rng.randrange(1 << 30)
        r = random.Random(seed)
        n_edits = ctx.rng.choice([1, 3, 6] if ctx.quick else [3, 6, 15])
        hist = []
        ok_edits = 0
        for k in range(n_edits):
            e = edits.random_edit(r, f)
            if e is None:
                continue
            hist.append(repr(e))
            if e.exc is not None:
                continue
            ok_edits += 1
            out = treewalk.text_of(f)
            g = gen_docs.parse_ok(out, True)
            w = {'text': text, 'lf': lf, 'edit_seed': seed, 'n_edits': k + 1, 'history': hist, 'printed': out}
            if g is None:
                ctx.monitor_failure('C06:printed-text-rejected', f'after {hist[-1]} the printed document no longer parses', w)
                break
            d = diff(treewalk.content(f), treewalk.content(g))
            if d:
                ctx.monitor_failure(classify_c06(d, out), f'after {hist[-1]} the re-parsed document differs from the model at {d}', w)
                break
        ctx.case({'chars': len(text), 'lf': lf, 'history': hist[:6]}, nontrivial=ok_edits > 0)
        ctx.count('edits_applied', ok_edits)
        ctx.count('reparses', ok_edits)


# ---- C11 -------------------------------------------------------------------------------------------
def span_text(m) -> str:
    return ''.join(t.raw_text for t in m.token_store.iter(m.first_token, m.last_token)) if m.token_store else ''


def run_c11(ctx: common.Ctx):
    from autobean_refactor.models import base
    for text, ac, lf, f in documents(ctx, ctx.scale(50, 500)):
        # optionally edit first, so copies are taken from documents with moved placeholders etc.
        seed = ctx.rng.randrange(1 << 30)
        r = random.Random(seed)
        pre = []
        for _ in range(ctx.rng.choice([0, 0, 2, 4])):
            e = edits.random_edit(r, f)
            if e is not None:
                pre.append(repr(e))
        for pick in range(5):
            nodes = [(p, m) for p, m in treewalk.walk(f) if isinstance(m, base.RawTreeModel)]
            p, m = nodes[0] if pick == 0 else r.choice(nodes)
            w = {'text': text, 'auto_claim': ac, 'lf': lf, 'edit_seed': seed, 'pre_edits': pre, 'path': p}
            try:
                c = copy.deepcopy(m)
            except Exception as x:
                ctx.monitor_failure('C11:deepcopy-raised', f'deepcopy({p}) raised {type(x).__name__}: {x}', w)
                continue
            ctx.count('copies')
            if not (c == m) or not (m == c):
                ctx.monitor_failure('C11:copy-not-equal', f'deepcopy({p}) != original', w)
            if treewalk.text_of(c) != span_text(m):
                ctx.monitor_failure('C11:copy-text-differs', f'deepcopy({p}) prints {treewalk.text_of(c)!r}, original spans {span_text(m)!r}', w)
            orig_ids = {id(t) for t in f.token_store}
            if any(id(t) in orig_ids for t in c.token_store) or any(id(t) in orig_ids for t in treewalk.leaves(c)):
                ctx.monitor_failure('C11:copy-shares-token', f'deepcopy({p}) shares a token with the original', w)
            probs = treewalk.wf_problems(c, expect_whole_store=True)
            if probs:
                ctx.monitor_failure('C11:copy-not-wf', f'deepcopy({p}) is not a complete tree in its own store: {probs[0]}', w)
                continue
            # independence: edit the copy, the original must not move; then edit the original
            before_text, before_dump = treewalk.text_of(f), treewalk.dump(f)
            ch = []
            for _ in range(3):
                e = edits.random_edit(r, c)
                if e is not None:
                    ch.append(repr(e))
            if treewalk.text_of(f) != before_text or treewalk.dump(f) != before_dump:
                ctx.monitor_failure('C11:copy-edit-changed-original', f'editing deepcopy({p}) [{ch}] changed the original document', dict(w, copy_edits=ch))
            ctext, cdump = treewalk.text_of(c), treewalk.dump(c)
            oh = []
            for _ in range(3):
                e = edits.random_edit(r, f)
                if e is not None:
                    oh.append(repr(e))
            if treewalk.text_of(c) != ctext or treewalk.dump(c) != cdump:
                ctx.monitor_failure('C11:original-edit-changed-copy', f'editing the original [{oh}] changed deepcopy({p})', dict(w, orig_edits=oh))
            ctx.case({'path': p, 'class': type(m).__name__, 'pre_edits': len(pre), 'copy_edits': ch[:3]},
                     nontrivial=bool(ch or oh))


# ---- C20 -------------------------------------------------------------------------------------------
def run_c20(ctx: common.Ctx):
    from autobean_refactor.models import base
    for text, ac, lf, f in documents(ctx, ctx.scale(50, 500)):
        g = gen_docs.parse_ok(text, ac)
        w = {'text': text, 'auto_claim': ac}
        nf = [(p, m) for p, m in treewalk.walk(f)]
        ng = [(p, m) for p, m in treewalk.walk(g)]
        if len(nf) != len(ng):
            ctx.monitor_failure('C20:parse-twice-shape', 'parsing the same text twice gives trees of different shape', w)
            continue
        seed = ctx.rng.randrange(1 << 30)
        r = random.Random(seed)
        idxs = [0] + [r.randrange(len(nf)) for _ in range(6)]
        for i in idxs:
            (p, a), (_, b) = nf[i], ng[i]
            if not (a == b):
                ctx.monitor_failure('C20:parse-twice-unequal', f'{p}: same text parsed twice compares unequal', dict(w, path=p))
            if (a == b) != (b == a):
                ctx.monitor_failure('C20:asymmetric', f'{p}: a == b is {a == b} but b == a is {b == a}', dict(w, path=p))
            if isinstance(a, base.RawTokenModel) and a == b and hash(a) != hash(b):
                ctx.monitor_failure('C20:hash-inconsistent', f'{p}: equal tokens with different hash', dict(w, path=p))
            ctx.count('pairs_compared')
        # different types / different text are unequal, and symmetric
        for _ in range(6):
            (p, a), (q, b) = r.choice(nf), r.choice(ng)
            same = (type(a) is type(b)) and treewalk.dump(a) == treewalk.dump(b) \
                and ([(t.RULE, t.raw_text) for t in a.tokens] == [(t.RULE, t.raw_text) for t in b.tokens])
            try:
                eq1, eq2 = (a == b), (b == a)
            except Exception as x:
                ctx.monitor_failure('C20:eq-raised', f'{p} == {q} raised {type(x).__name__}', dict(w, a=p, b=q))
                continue
            if eq1 != eq2:
                ctx.monitor_failure('C20:asymmetric', f'{p} == {q} is {eq1} but the reverse is {eq2}', dict(w, a=p, b=q))
            if eq1 != same:
                ctx.monitor_failure('C20:eq-vs-structure', f'{p} == {q} is {eq1} but same type/text/structure is {same}', dict(w, a=p, b=q))
            ctx.count('pairs_compared')
        # a single edit makes the document unequal to its untouched twin
        hist = []
        for k in range(3):
            before = (treewalk.text_of(f), treewalk.dump(f))
            e = edits.random_edit(r, f)
            if e is None or e.exc is not None:
                continue
            hist.append(repr(e))
            after = (treewalk.text_of(f), treewalk.dump(f))
            changed = before != after
            twin = gen_docs.parse_ok(before[0], ac) if k else g
            if k:
                # the twin of an edited document is not available by parsing (attribution may differ): use a copy taken before
                pass
            if k == 0:
                if changed and (f == g or g == f):
                    ctx.monitor_failure('C20:edit-still-equal', f'after {hist[-1]} (text or structure changed) the document still equals its untouched twin',
                                        dict(w, edit_seed=seed, history=hist))
                if not changed and not (f == g):
                    ctx.monitor_failure('C20:noop-unequal', f'after {hist[-1]} (nothing changed) the document no longer equals its twin',
                                        dict(w, edit_seed=seed, history=hist))
            break
        ctx.case({'chars': len(text), 'auto_claim': ac, 'history': hist[:3]}, nontrivial=True)


def run_c20_claim_unclaim(ctx: common.Ctx):
    """Equality after claim + unclaim (which permutes zero-width placeholders): same type, text and structure
    must still compare equal to an untouched twin."""
    layouts = [
        '2000-01-01 *\n    kk: 1\n    ; c\n    Assets:A 1 USD\n',
        '2000-01-01 open Assets:A\n; c\n2000-01-02 close Assets:A\n',
        '2000-01-01 *\n    Assets:A 1 USD\n    ; c\n    Assets:B\n',
        '; c\n2000-01-01 open Assets:A\n',
    ]
    for text in layouts:
        for side in ('trailing', 'leading'):
            a, b = gen_docs.parse_ok(text, False), gen_docs.parse_ok(text, False)
            if a is None:
                continue
            done = False
            for p, m in treewalk.walk(a):
                if hasattr(m, f'claim_{side}_comment'):
                    try:
                        c = getattr(m, f'claim_{side}_comment')()
                    except Exception:
                        continue
                    if c is None:
                        continue
                    getattr(m, f'unclaim_{side}_comment')()
                    done = True
                    same = treewalk.dump(a) == treewalk.dump(b) and treewalk.text_of(a) == treewalk.text_of(b)
                    ctx.count('pairs_compared')
                    if same and not (a == b):
                        ctx.monitor_failure('C20:claim-unclaim-moves-placeholder',
                                            f'{p}.claim_{side}_comment() then unclaim: same type, text and structure but == is False',
                                            {'text': text, 'path': p, 'side': side})
                    break
            ctx.case({'layout': text, 'side': side, 'claimed': done}, nontrivial=done)
