"""Document-level monitors shared by C05 (well-formed tree after any edit history), C06 (re-parse of the
printed text), C11 (deep copy) and C20 (equality): the property statements evaluated on the real
implementation over generated ledgers and seeded edit histories (harness/edits.py)."""
from __future__ import annotations

import copy
import random
from typing import Any, Optional

from harness import common, edits, gen_docs, health, treewalk
from harness import store_driver as sd


def diff(a, b, path='') -> Optional[str]:
    if type(a) != type(b):
        return f'{path}: {a!r} vs {b!r}'
    if isinstance(a, dict):
        for k in sorted(set(a) | set(b)):
            if k not in a or k not in b:
                return f'{path}.{k}: present on one side only'
            d = diff(a[k], b[k], path + '.' + k)
            if d:
                return d
        return None
    if isinstance(a, (list, tuple)):
        if len(a) != len(b):
            return f'{path}: length {len(a)} vs {len(b)}'
        for i, (x, y) in enumerate(zip(a, b)):
            d = diff(x, y, f'{path}[{i}]')
            if d:
                return d
        return None
    return None if a == b else f'{path}: {a!r} vs {b!r}'


def documents(ctx: common.Ctx, n: int, *, auto_claim: Optional[bool] = None):
    sd.LF_PINNED = True          # this generator draws (and records) the load factor itself
    for _ in range(n):
        lf = ctx.rng.choice([2, 2, 3, 5, 1000])
        sd.set_load_factor(lf)
        text = gen_docs.ledger(ctx.rng)
        ac = auto_claim if auto_claim is not None else ctx.rng.random() < 0.8
        f = gen_docs.parse_ok(text, ac)
        if f is None:
            ctx.count('rejected_documents')
            continue
        yield text, ac, lf, f
    sd.set_load_factor(1000)
    sd.LF_PINNED = False


def gen_edits(r: random.Random, f, n_edits: int, p_focus: float):
    """The edit histories of C05/C06 (and their replays): with probability p_focus most edits of the history hit
    one model (focused), otherwise every edit picks its model afresh. Yields (k, Edit or None) after applying."""
    focus = edits.pick_focus(r, f) if r.random() < p_focus else None
    if focus is not None:
        # read every public property of the focus model first: value-level views get created (and cached) before
        # the raw-level edits that must keep them in step
        for name in edits.class_props(type(focus)):
            if not name.startswith('_'):
                try:
                    v = getattr(focus, name)
                    if hasattr(v, '__len__') and not isinstance(v, str):
                        list(v)
                except Exception:
                    pass
    only = edits.toggle_names(r, focus) if (focus is not None and r.random() < 0.6) else None
    for k in range(n_edits):
        on_focus = focus is not None and r.random() < 0.85
        e = edits.random_edit(r, f, focus=focus if on_focus else None, only=only if on_focus else None)
        yield k, e


def replay_history(text: str, auto_claim: bool, lf: int, seed: int, n_edits: int, p_focus: float = 0.0):
    """Deterministic re-execution of a history: same seed -> same edits."""
    sd.set_load_factor(lf)
    f = gen_docs.parse_ok(text, auto_claim)
    r = random.Random(seed)
    out = [repr(e) for _, e in gen_edits(r, f, n_edits, p_focus)]
    sd.set_load_factor(1000)
    return f, out


# ---- C05 -------------------------------------------------------------------------------------------
def run_c05(ctx: common.Ctx):
    from autobean_refactor.models.internal import properties as props
    for text, ac, lf, f in documents(ctx, ctx.scale(900, 6000)):
        seed = ctx.rng.randrange(1 << 30)
        r = random.Random(seed)
        n_edits = ctx.rng.choice([2, 5, 10] if ctx.quick else [5, 10, 25])
        hist = []
        ok_edits = 0
        p0 = treewalk.wf_problems(f, expect_whole_store=True)
        if p0:
            ctx.monitor_failure('C05:parsed-not-wf', f'freshly parsed document is not well-formed: {p0[0]}',
                                {'text': text, 'auto_claim': ac})
            continue
        for k, e in gen_edits(r, f, n_edits, 0.4):
            if e is None:
                continue
            hist.append(repr(e))
            ctx.dist('edit=' + e.desc.split('(')[0].split(' = ')[0].split('.')[-1].split('[')[0][:24])
            if e.exc is not None:
                ctx.dist('refused=' + type(e.exc).__name__)
                continue
            ok_edits += 1
            probs = treewalk.wf_problems(f)
            if not probs:
                probs = [f'[{k_}] {m_}' for k_, m_ in health.problems(f, wf=False)]
            if getattr(e, 'damaged_donor', False):
                probs = probs or ['a node still attached elsewhere was accepted and its old tree was left damaged']
            if probs:
                ctx.monitor_failure('C05:not-wf-after-edit', f'after {hist[-1]}: {probs[0]}',
                                    {'text': text, 'auto_claim': ac, 'lf': lf, 'edit_seed': seed, 'n_edits': k + 1, 'p_focus': 0.4,
                                     'history': hist, 'problems': probs[:5]})
                break
        # pop() returns a complete self-contained tree
        wrappers = []
        for p, m in treewalk.walk(f):
            if isinstance(m, edits.base.RawTreeModel) and not isinstance(m, edits.internal.Repeated):
                for name, prop in edits.class_props(type(m)).items():
                    if name.startswith('raw_') and isinstance(prop, edits.internal.base_ro_property):
                        try:
                            w = getattr(m, name)
                        except Exception:
                            continue
                        if isinstance(w, props.RepeatedNodeWrapper) and len(w):
                            wrappers.append((f'{p}.{name}', w))
        if wrappers:
            name, w = r.choice(wrappers)
            i = r.randrange(len(w))
            try:
                node = w.pop(i)
            except Exception as x:
                node = None
            if node is not None and isinstance(node, edits.base.RawTreeModel):
                probs = treewalk.wf_problems(node, expect_whole_store=True)
                hist.append(f'{name}.pop({i})')
                if probs:
                    ctx.monitor_failure('C05:popped-not-selfcontained', f'{name}.pop({i}) returned a tree that is not '
                                        f'self-contained: {probs[0]}', {'text': text, 'auto_claim': ac, 'lf': lf,
                                                                       'edit_seed': seed, 'history': hist})
                probs = treewalk.wf_problems(f)
                if probs:
                    ctx.monitor_failure('C05:not-wf-after-edit', f'after {name}.pop({i}): {probs[0]}',
                                        {'text': text, 'auto_claim': ac, 'lf': lf, 'edit_seed': seed, 'history': hist})
        # meta.pop(key) through the value-level mapping: a value that is a tree model kept as it is (an Amount) comes
        # back as a complete self-contained tree, and the document stays well-formed
        holders = [(p, m) for p, m in treewalk.walk(f) if hasattr(m, 'meta') and hasattr(m, 'raw_meta') and p != 'root']
        r.shuffle(holders)
        for p, m in holders[:3]:
            try:
                keyed = [(it.key, it.raw_value) for it in m.raw_meta if isinstance(it.raw_value, edits.base.RawTreeModel)]
            except Exception:
                continue
            if not keyed:
                continue
            key, _ = r.choice(keyed)
            try:
                v = m.meta.pop(key)
            except Exception:
                continue
            hist.append(f'{p}.meta.pop({key!r})')
            ctx.count('meta_pop_tree_values')
            if isinstance(v, edits.base.RawTreeModel):
                probs = treewalk.wf_problems(v, expect_whole_store=True)
                if probs:
                    ctx.monitor_failure('C05:popped-not-selfcontained', f'{p}.meta.pop({key!r}) returned a tree that is not '
                                        f'self-contained: {probs[0]}', {'text': text, 'auto_claim': ac, 'lf': lf, 'edit_seed': seed, 'history': hist})
            probs = treewalk.wf_problems(f)
            if probs:
                ctx.monitor_failure('C05:not-wf-after-edit', f'after {hist[-1]}: {probs[0]}',
                                    {'text': text, 'auto_claim': ac, 'lf': lf, 'edit_seed': seed, 'history': hist})
            break
        ctx.case({'chars': len(text), 'auto_claim': ac, 'lf': lf, 'history': hist[:6]}, nontrivial=ok_edits > 0)
        ctx.count('edits_applied', ok_edits)


def value_views(root):
    """What the value-level list views (tags, links, currencies, custom values …) of every model say, by path."""
    from autobean_refactor.models import base
    from autobean_refactor.models.internal import value_properties as vprops
    from autobean_refactor.models.internal.repeated import Repeated
    out = []          # in document order (paths differ between model and re-parse when comment entries differ)
    for p, m in treewalk.walk(root):
        if not isinstance(m, base.RawTreeModel) or isinstance(m, Repeated):
            continue
        for name in edits.class_props(type(m)):
            if name.startswith('_') or name.startswith('raw_'):
                continue
            try:
                v = getattr(m, name)
            except Exception:
                continue
            if isinstance(v, vprops.RepeatedValueWrapper) and not isinstance(v, vprops.RepeatedFilteredNodeWrapper):
                try:
                    out.append((type(m).__name__, name, [repr(x) if not isinstance(x, base.RawModel) else treewalk.text_of(x) for x in v]))
                except Exception as e:
                    out.append((type(m).__name__, name, f'raised {type(e).__name__}'))
    return out


# ---- C06 -------------------------------------------------------------------------------------------
def glued_unclaimed_comment(f) -> bool:
    """An unowned block comment that does not start its line (the visible token in front of it is not a line
    break): it re-lexes as the inline comment of what precedes it."""
    at_line_start = True
    for t in f.token_store:
        if not t.raw_text:
            continue
        if type(t).__name__ == 'BlockComment' and not t.claimed and not at_line_start:
            return True
        if type(t).__name__ not in ('Indent', 'Whitespace'):
            at_line_start = t.raw_text.endswith('\n')
    return False


def classify_c06(d: str, out: str, f=None) -> str:
    if '._values' in d:
        return 'C06:custom-values-adjacent-numbers'
    if f is not None and "_inline_comment: None vs ('InlineComment'" in d and glued_unclaimed_comment(f):
        return 'C06:first-item-before-unclaimed-comment'
    if d.rstrip().endswith("\\r')") or ('_ignored' in d and '\\r' in d):
        return 'C06:ignored-line-crlf'
    return 'C06:reparse-content-differs'


def removal_glued_neighbours(before: str, after: str, last_edit: str) -> bool:
    """The textual shape of the recorded finding C06:optional-child-removed-next-to-glued-token: the edit `x = None`
    deleted ONE span `d` = (blanks, then a child that was glued to the token after it) or (a child glued to the token
    before it, then blanks), so that two non-blank characters which the blanks used to separate are adjacent now."""
    if not last_edit.rstrip().endswith('= None') or len(after) >= len(before):
        return False
    i = 0
    while i < len(after) and before[i] == after[i]:
        i += 1
    j = 0
    while j < len(after) - i and before[len(before) - 1 - j] == after[len(after) - 1 - j]:
        j += 1
    if i + j != len(after) or i == 0 or j == 0:
        return False
    d = before[i:len(before) - j]
    a, b = before[i - 1], before[len(before) - j]
    if a.isspace() or b.isspace() or not d:
        return False
    # (the child may be an expression with blanks inside: only the two ends of the span matter)
    left = d[0].isspace() and not d[-1].isspace()
    right = d[-1].isspace() and not d[0].isspace()
    return left or right


def run_c06(ctx: common.Ctx):
    for text, ac, lf, f in documents(ctx, ctx.scale(500, 4000), auto_claim=True):
        seed = ctx.rng.randrange(1 << 30)
        r = random.Random(seed)
        n_edits = ctx.rng.choice([1, 3, 6] if ctx.quick else [3, 6, 15])
        hist = []
        ok_edits = 0
        n_edits += 2
        prev_out = text
        for k, e in gen_edits(r, f, n_edits, 0.5):
            if e is None:
                continue
            hist.append(repr(e))
            if e.exc is not None:
                continue
            ok_edits += 1
            out = treewalk.text_of(f)
            g = gen_docs.parse_ok(out, True)
            w = {'text': text, 'lf': lf, 'edit_seed': seed, 'n_edits': k + 1, 'p_focus': 0.5, 'history': hist, 'printed': out}
            glued = removal_glued_neighbours(prev_out, out, hist[-1])
            prev_out = out
            hp = health.problems(f)
            if hp:
                ctx.monitor_failure(f'C06:health:{hp[0][0]}', f'after {hist[-1]}: {hp[0][1]} (the model no longer describes its own tokens, '
                                    f'so what it says cannot be what the text says)', w)
                break
            if g is None:
                ctx.monitor_failure('C06:optional-child-removed-next-to-glued-token' if glued else 'C06:printed-text-rejected',
                                    f'after {hist[-1]} the printed document no longer parses', w)
                break
            d = diff(treewalk.content(f), treewalk.content(g))
            if d:
                ctx.monitor_failure('C06:optional-child-removed-next-to-glued-token' if glued else classify_c06(d, out, f),
                                    f'after {hist[-1]} the re-parsed document differs from the model at {d}', w)
                break
            # block comments: attribution may differ after re-parse (C06 excludes it), their texts and order may not
            cf = [t.raw_text for t in f.token_store if type(t).__name__ == 'BlockComment']
            cg = [t.raw_text for t in g.token_store if type(t).__name__ == 'BlockComment']
            norm = lambda xs: [ln.rstrip('\r') for ln in '\n'.join(x.strip('\r\n') for x in xs).split('\n')]
            if norm(cf) != norm(cg):       # adjacent comments re-lex as one token; a CR before the LF belongs to the line end
                ctx.monitor_failure('C06:comment-text-differs', f'after {hist[-1]} the block comment lines of the model {cf!r} are not '
                                    f'those of the re-parsed text {cg!r}', w)
                break
            d = diff(value_views(f), value_views(g))
            if d:
                sig = 'C06:value-view-differs-from-text'
                ctx.monitor_failure(sig, f'after {hist[-1]} a value-level view of the model disagrees with the re-parsed text at {d}', w)
                break
        ctx.case({'chars': len(text), 'lf': lf, 'history': hist[:6]}, nontrivial=ok_edits > 0)
        ctx.count('edits_applied', ok_edits)
        ctx.count('reparses', ok_edits)


class DocumentUnusable(Exception):
    pass


def guarded_edit(ctx, r, target, sig: str, w: dict, hist: list):
    """edits.random_edit, but an exception that escapes from the IMPLEMENTATION while the edit engine merely walks,
    copies or reads the document (innermost frame outside /verif) is a concrete finding: an earlier accepted edit
    left the document in a state in which it cannot be read / copied any more."""
    import traceback
    try:
        return edits.random_edit(r, target)
    except Exception as x:
        tb = traceback.extract_tb(x.__traceback__)
        if tb and not tb[-1].filename.startswith(str(common.VERIF) + '/'):
            where = next((f'{fr.name} ({fr.filename.split("/")[-1]}:{fr.lineno})' for fr in reversed(tb) if not fr.filename.startswith(str(common.VERIF) + '/')), '?')
            ctx.monitor_failure(sig, f'after the edits {hist[-4:]} the document can no longer be walked / copied / read: '
                                     f'{type(x).__name__}: {x} in {where}', dict(w, history=list(hist)))
            raise DocumentUnusable() from x
        raise


# ---- C11 -------------------------------------------------------------------------------------------
def span_text(m) -> str:
    return ''.join(t.raw_text for t in m.token_store.iter(m.first_token, m.last_token)) if m.token_store else ''


def run_c11(ctx: common.Ctx):
    from autobean_refactor.models import base
    for text, ac, lf, f in documents(ctx, ctx.scale(200, 2000)):
        # optionally edit first, so copies are taken from documents with moved placeholders etc.
        seed = ctx.rng.randrange(1 << 30)
        r = random.Random(seed)
        pre = []
        try:
            for _ in range(ctx.rng.choice([0, 0, 2, 4])):
                e = guarded_edit(ctx, r, f, 'C11:document-unusable-after-edit', {'text': text, 'auto_claim': ac, 'lf': lf, 'edit_seed': seed}, pre)
                if e is not None:
                    pre.append(repr(e))
        except DocumentUnusable:
            continue
        for pick in range(5):
            nodes = [(p, m) for p, m in treewalk.walk(f) if isinstance(m, base.RawTreeModel)]
            p, m = nodes[0] if pick == 0 else r.choice(nodes)
            w = {'text': text, 'auto_claim': ac, 'lf': lf, 'edit_seed': seed, 'pre_edits': pre, 'path': p}
            # models may carry a non-default indent_by (assigned by the user or by from_value(indent_by=...))
            if r.random() < 0.3:
                holders = [x for _, x in treewalk.walk(m) if isinstance(x, base.RawTreeModel) and 'indent_by' in x.__dict__]
                if holders:
                    r.choice(holders).indent_by = r.choice(['  ', '\t', '      '])
            try:
                c = copy.deepcopy(m)
            except Exception as x:
                ctx.monitor_failure('C11:deepcopy-raised', f'deepcopy({p}) raised {type(x).__name__}: {x}', w)
                continue
            ctx.count('copies')
            sig_o = [(type(t).__name__, t.raw_text, getattr(t, 'claimed', None)) for t in m.token_store.iter(m.first_token, m.last_token)]
            sig_c = [(type(t).__name__, t.raw_text, getattr(t, 'claimed', None)) for t in c.token_store]
            if sig_o != sig_c:
                ctx.monitor_failure('C11:copy-tokens-differ', f'deepcopy({p}): the copy\'s tokens (type, text, claimed) differ from the '
                                    f'original span at {diff(sig_o, sig_c)}', w)
            if treewalk.dump(c) != treewalk.dump(m):
                ctx.monitor_failure('C11:copy-structure-differs', f'deepcopy({p}) differs structurally from the original at '
                                    f'{diff(treewalk.dump(m), treewalk.dump(c))} (classes, fields, token texts, claimed flags, indent_by)', w)
            if not (c == m) or not (m == c):
                ctx.monitor_failure('C11:copy-not-equal', f'deepcopy({p}) != original', w)
            if treewalk.text_of(c) != span_text(m):
                ctx.monitor_failure('C11:copy-text-differs', f'deepcopy({p}) prints {treewalk.text_of(c)!r}, original spans {span_text(m)!r}', w)
            orig_ids = {id(t) for t in f.token_store}
            if any(id(t) in orig_ids for t in c.token_store) or any(id(t) in orig_ids for t in treewalk.leaves(c)):
                ctx.monitor_failure('C11:copy-shares-token', f'deepcopy({p}) shares a token with the original', w)
            probs = treewalk.wf_problems(c, expect_whole_store=True)
            if probs:
                ctx.monitor_failure('C11:copy-not-wf', f'deepcopy({p}) is not a complete tree in its own store: {probs[0]}', w)
                continue
            # independence: edit the copy, the original must not move; then edit the original
            before_text, before_dump = treewalk.text_of(f), treewalk.dump(f)
            ch = []
            try:
                for _ in range(3):
                    e = guarded_edit(ctx, r, c, 'C11:copy-unusable-after-edit', w, ch)
                    if e is not None:
                        ch.append(repr(e))
            except DocumentUnusable:
                break
            if treewalk.text_of(f) != before_text or treewalk.dump(f) != before_dump:
                ctx.monitor_failure('C11:copy-edit-changed-original', f'editing deepcopy({p}) [{ch}] changed the original document', dict(w, copy_edits=ch))
            ctext, cdump = treewalk.text_of(c), treewalk.dump(c)
            oh = []
            try:
                for _ in range(3):
                    e = guarded_edit(ctx, r, f, 'C11:document-unusable-after-edit', w, pre + oh)
                    if e is not None:
                        oh.append(repr(e))
            except DocumentUnusable:
                break
            if treewalk.text_of(c) != ctext or treewalk.dump(c) != cdump:
                ctx.monitor_failure('C11:original-edit-changed-copy', f'editing the original [{oh}] changed deepcopy({p})', dict(w, orig_edits=oh))
            for who, doc_ in (('the copy', c), ('the original', f)):
                hp = health.problems(doc_)
                if hp:
                    ctx.monitor_failure(f'C11:health:{hp[0][0]}', f'after the edits of copy {ch} and original {oh}, {who}: {hp[0][1]}',
                                        dict(w, copy_edits=ch, orig_edits=oh))
                    break
            ctx.case({'path': p, 'class': type(m).__name__, 'pre_edits': len(pre), 'copy_edits': ch[:3]},
                     nontrivial=bool(ch or oh))
        # deep copies of node LISTS (model.raw_xs wrappers): editing the copied list must not reach the original's
        # value views (tags, links, postings, meta, ...) nor its text, and vice versa
        from autobean_refactor.models.internal import properties as props_
        f3 = gen_docs.parse_ok(text, ac)
        cands = []
        for p_, m_ in ([] if f3 is None else treewalk.walk(f3)):
            if not isinstance(m_, base.RawTreeModel) or isinstance(m_, edits.internal.Repeated):
                continue
            for name in edits.class_props(type(m_)):
                if name.startswith('raw_'):
                    try:
                        w_ = getattr(m_, name)
                    except Exception:
                        continue
                    if isinstance(w_, props_.RepeatedNodeWrapper):
                        cands.append((p_, m_, name, w_))
        r.shuffle(cands)
        empties = [c_ for c_ in cands if len(c_[3]) == 0]
        for p_, m_, name, w_ in [c_ for c_ in cands if len(c_[3])][:2] + empties[:2]:
            def views_now():
                out = {}
                for vn in edits.class_props(type(m_)):
                    if vn.startswith('_'):
                        continue
                    try:
                        v = getattr(m_, vn)
                        if hasattr(v, '__len__') and hasattr(v, '__iter__') and not isinstance(v, (str, bytes)):
                            out[vn] = [(id(x) if isinstance(x, base.RawModel) else repr(x)) for x in v]
                    except Exception as x:
                        out[vn] = f'raised {type(x).__name__}'
                return out
            before_views, before_text = views_now(), treewalk.text_of(f3)
            wl = {'text': text, 'auto_claim': ac, 'path': p_, 'list': name}
            try:
                wc = copy.deepcopy(w_)
            except Exception as x:
                ctx.monitor_failure('C11:deepcopy-raised', f'deepcopy({p_}.{name}) raised {type(x).__name__}: {x}', wl)
                continue
            ctx.count('list_copies')
            ops_done = []
            if len(w_) == 0:
                # the copy of an EMPTY list is a list of its own too: filling it (with a copy of an item of a sibling
                # list of the same kind, when there is one) must not write into the document
                donors = [x for _, m2, n2, w2 in cands if n2 == name and len(w2) for x in w2]
                try:
                    if donors:
                        wc.append(copy.deepcopy(donors[0]))
                        ops_done.append('append(copy of an item of a sibling list)')
                except Exception:
                    pass
                if views_now() != before_views or treewalk.text_of(f3) != before_text:
                    ctx.monitor_failure('C11:copy-edit-changed-original', f'appending to deepcopy({p_}.{name}) (an empty list) changed the '
                                        f'original document', dict(wl, copy_edits=ops_done))
                continue
            try:
                item = copy.deepcopy(wc[0])
                wc.pop(0)
                ops_done.append('pop(0)')
                wc.append(item)
                ops_done.append('append(copy of the popped item)')
                if len(wc) > 1:
                    del wc[0]
                    ops_done.append('del [0]')
            except Exception:
                pass
            if views_now() != before_views or treewalk.text_of(f3) != before_text:
                ctx.monitor_failure('C11:copy-edit-changed-original', f'editing deepcopy({p_}.{name}) [{ops_done}] changed the views / text of '
                                    f'the original model', dict(wl, copy_edits=ops_done))
                continue
        # ONE deepcopy call that reaches several models of the document at once (a list / tuple / dict holding an
        # ancestor and its descendant, the same model twice, siblings): every element of the result must again be
        # an equal, exact, complete and disjoint copy of its original
        f2 = gen_docs.parse_ok(text, ac)
        if f2 is None:
            continue
        trees = [(p, m) for p, m in treewalk.walk(f2) if isinstance(m, base.RawTreeModel)]
        for _ in range(2):
            p1, m1 = r.choice(trees)
            inner = [(q, x) for q, x in treewalk.walk(m1) if isinstance(x, base.RawTreeModel) and x is not m1]
            picks = [(p1, m1)]
            if inner:
                q_in, x_in = r.choice(inner)
                picks.append((f'{p1}/{q_in}', x_in))
            if r.random() < 0.5:
                picks.append(r.choice(trees))
            if r.random() < 0.3:
                picks.append(picks[0])
            r.shuffle(picks)
            shape = r.choice(['list', 'tuple', 'dict'])
            box = {'list': lambda xs: list(xs), 'tuple': lambda xs: tuple(xs),
                   'dict': lambda xs: {i: x for i, x in enumerate(xs)}}[shape]([m for _, m in picks])
            w = {'text': text, 'auto_claim': ac, 'container': shape, 'paths': [q for q, _ in picks]}
            try:
                cb = copy.deepcopy(box)
            except Exception as x:
                ctx.monitor_failure('C11:container-deepcopy-raised', f'deepcopy of a {shape} holding the models at {w["paths"]} of one '
                                    f'document raised {type(x).__name__}: {x}', w)
                continue
            ctx.count('container_copies')
            orig_ids = {id(t) for t in f2.token_store}
            for (q, m), c in zip(picks, cb.values() if shape == 'dict' else cb):
                if type(c) is not type(m) or not (c == m) or treewalk.text_of(c) != span_text(m):
                    ctx.monitor_failure('C11:container-copy-differs', f'element {q} of a deep-copied {shape} is not an equal, exact copy', w)
                elif any(id(t) in orig_ids for t in c.token_store):
                    ctx.monitor_failure('C11:container-copy-shares-token', f'element {q} of a deep-copied {shape} shares a token with the original', w)
                else:
                    probs = treewalk.wf_problems(c, expect_whole_store=True)
                    if probs:
                        ctx.monitor_failure('C11:container-copy-not-wf', f'element {q} of a deep-copied {shape} is not complete in its own store: {probs[0]}', w)


# ---- C20 -------------------------------------------------------------------------------------------
def run_c20(ctx: common.Ctx):
    from autobean_refactor.models import base
    for text, ac, lf, f in documents(ctx, ctx.scale(200, 2000)):
        # the twin is parsed under ANOTHER token-store load factor: how a store happens to be cut into blocks is no
        # part of type, text or structure, so it must not take part in equality
        lf_g = ctx.rng.choice([x for x in (2, 3, 5, 7, 1000) if x != lf])
        sd.set_load_factor(lf_g)
        g = gen_docs.parse_ok(text, ac)
        sd.set_load_factor(lf)
        w = {'text': text, 'auto_claim': ac, 'lf': lf, 'lf_twin': lf_g}
        nf = [(p, m) for p, m in treewalk.walk(f)]
        ng = [(p, m) for p, m in treewalk.walk(g)]
        if len(nf) != len(ng):
            ctx.monitor_failure('C20:parse-twice-shape', 'parsing the same text twice gives trees of different shape', w)
            continue
        seed = ctx.rng.randrange(1 << 30)
        r = random.Random(seed)
        idxs = [0] + [r.randrange(len(nf)) for _ in range(6)]
        for i in idxs:
            (p, a), (_, b) = nf[i], ng[i]
            if not (a == b):
                ctx.monitor_failure('C20:parse-twice-unequal', f'{p}: same text parsed twice compares unequal', dict(w, path=p))
            if (a == b) != (b == a):
                ctx.monitor_failure('C20:asymmetric', f'{p}: a == b is {a == b} but b == a is {b == a}', dict(w, path=p))
            if isinstance(a, base.RawTokenModel) and a == b and hash(a) != hash(b):
                ctx.monitor_failure('C20:hash-inconsistent', f'{p}: equal tokens with different hash', dict(w, path=p))
            ctx.count('pairs_compared')
        # different types / different text are unequal, and symmetric
        for _ in range(6):
            (p, a), (q, b) = r.choice(nf), r.choice(ng)
            same = (type(a) is type(b)) and treewalk.dump(a) == treewalk.dump(b) \
                and ([(t.RULE, t.raw_text) for t in a.tokens] == [(t.RULE, t.raw_text) for t in b.tokens])
            try:
                eq1, eq2 = (a == b), (b == a)
            except Exception as x:
                ctx.monitor_failure('C20:eq-raised', f'{p} == {q} raised {type(x).__name__}', dict(w, a=p, b=q))
                continue
            if eq1 != eq2:
                ctx.monitor_failure('C20:asymmetric', f'{p} == {q} is {eq1} but the reverse is {eq2}', dict(w, a=p, b=q))
            if eq1 != same:
                ctx.monitor_failure('C20:eq-vs-structure', f'{p} == {q} is {eq1} but same type/text/structure is {same}', dict(w, a=p, b=q))
            ctx.count('pairs_compared')
        # whole files whose texts differ only BEHIND the last directive (tokens that belong to no child: only File's own
        # token comparison can see them): one more / one fewer final line break, a blanks-only last line; both ways round
        for tail_name, text2 in (('plus-newline', text + '\n'), ('plus-blank-line', text + '  \n'),
                                 ('minus-final-newline', text[:-1] if text.endswith('\n') else None),
                                 ('plus-two-newlines', text + '\n\n')):
            if text2 is None or text2 == text:
                continue
            h = gen_docs.parse_ok(text2, ac)
            if h is None:
                continue
            try:
                e1, e2 = (f == h), (h == f)
            except Exception as x:
                ctx.monitor_failure('C20:eq-raised', f'File == File({tail_name}) raised {type(x).__name__}', dict(w, variant=tail_name))
                continue
            if e1 or e2:
                ctx.monitor_failure('C20:eq-vs-structure', f'two files whose texts differ only behind the last directive ({tail_name}: '
                                    f'{text[-12:]!r} vs {text2[-12:]!r}) compare equal ({e1}, reversed {e2})', dict(w, variant=tail_name, text2=text2))
            ctx.count('pairs_compared')
        # models of the same document that span the same tokens but differ in type (NumberExpr / NumberAddExpr /
        # NumberMulExpr / Number ...) or in structure must be unequal; a model always equals itself
        trees = [(p, m) for p, m in nf if isinstance(m, base.RawTreeModel)]
        by_span = {}
        for p, m in trees:
            try:
                by_span.setdefault((id(m.first_token), id(m.last_token)), []).append((p, m))
            except Exception:
                pass
        groups = [g_ for g_ in by_span.values() if len(g_) > 1]
        r.shuffle(groups)
        for g_ in groups[:4]:
            for i in range(len(g_)):
                for j in range(len(g_)):
                    (p1, a1), (p2, b1) = g_[i], g_[j]
                    same = type(a1) is type(b1) and treewalk.dump(a1) == treewalk.dump(b1)
                    if (a1 == b1) != same:
                        ctx.monitor_failure('C20:same-span-different-model', f'{p1} ({type(a1).__name__}) == {p2} ({type(b1).__name__}) is {a1 == b1}, '
                                            f'same type and structure is {same}', dict(w, a=p1, b=p2))
                    ctx.count('pairs_compared')
        # "changing the text of any one token makes the result unequal" - also for a spacing token that lies directly
        # between the children of an INLINE model (Amount, CostSpec, price, tolerance, number expression ...), compared
        # at the level of that model itself, not only through an enclosing entry
        inl = []
        for (p, a), (_, b) in zip(nf, ng):
            if isinstance(a, base.RawTreeModel) and getattr(type(a), 'INLINE', False) and type(a) is type(b):
                try:
                    inner = [t for t in a.token_store.iter(a.first_token, a.last_token)][1:-1]
                except Exception:
                    continue
                ws = [t for t in inner if type(t).__name__ == 'Whitespace' and t.raw_text]
                if ws and a == b:
                    inl.append((p, a, b, ws))
        r.shuffle(inl)
        for p, a, b, ws in inl[:3]:
            t = r.choice(ws)
            old_text = t.raw_text
            t.raw_text = old_text + ' ' if r.random() < 0.5 else ('\t' if old_text != '\t' else '  ')
            try:
                if a == b or b == a:
                    ctx.monitor_failure('C20:edit-still-equal', f'{p} ({type(a).__name__}): after the blank between its children was changed from '
                                        f'{old_text!r} to {t.raw_text!r} it still equals its untouched twin (texts {treewalk.text_of(a)!r} / '
                                        f'{treewalk.text_of(b)!r})', dict(w, path=p))
            finally:
                t.raw_text = old_text
            ctx.count('pairs_compared')
        # hash stays consistent with == for tokens across edits: hash, edit, compare with an equal fresh token
        vtoks = [(p, t) for p, t in nf if isinstance(t, base.RawTokenModel) and edits.sample_for(type(t), r) is not None
                 and hasattr(t, 'value') and not (hasattr(t, 'claimed') and not t.claimed)]
        for p, t in vtoks[:0] + ([r.choice(vtoks)] if vtoks else []):
            t_in_g = [y for q_, y in ng if q_ == p]
            h0 = hash(t)
            s_ = edits.sample_for(type(t), r)
            try:
                t.value = s_[1]
                fresh = type(t).from_raw_text(t.raw_text)
            except Exception:
                continue
            if t == fresh and hash(t) != hash(fresh):
                ctx.monitor_failure('C20:hash-stale-after-edit', f'{p}: after value = {s_[1]!r} the token equals a fresh token with the same '
                                    f'text but hashes differently', dict(w, path=p, value=repr(s_[1])))
            if not (t == fresh):
                ctx.monitor_failure('C20:token-unequal-same-text', f'{p}: token with text {t.raw_text!r} != fresh token of the same type and text', dict(w, path=p))
            # restore so the single-edit step below still starts from twins
            if t_in_g:
                try:
                    t_in_g[0].value = s_[1]
                except Exception:
                    pass
            ctx.count('pairs_compared')
        # "a deep copy equals its original" - also for models that carry a non-default indent_by (assigned by the user
        # or given to from_value/from_children); the copy must be equal both ways, the original equal to itself
        for p, m in ([trees[0]] if trees else []) + ([r.choice(trees)] if trees else []):
            h = copy.deepcopy(m)
            holders = [x for _, x in treewalk.walk(h) if isinstance(x, base.RawTreeModel) and 'indent_by' in x.__dict__]
            if holders and r.random() < 0.6:
                r.choice(holders).indent_by = r.choice(['  ', '\t', '      '])
            try:
                c = copy.deepcopy(h)
            except Exception:
                continue              # a failing deepcopy is C11's business
            if not (c == h) or not (h == c) or not (h == h):
                ctx.monitor_failure('C20:copy-unequal', f'{p}: a deep copy does not equal its original (same type '
                                    f'{type(c) is type(h)}, same text {treewalk.text_of(c) == treewalk.text_of(h)}, same structure '
                                    f'{treewalk.dump(c) == treewalk.dump(h)})', dict(w, path=p))
            ctx.count('pairs_compared')
        # a single edit makes the document unequal to its untouched twin
        hist = []
        for k in range(3):
            before = (treewalk.text_of(f), treewalk.dump(f))
            e = edits.random_edit(r, f)
            if e is None or e.exc is not None:
                continue
            hist.append(repr(e))
            after = (treewalk.text_of(f), treewalk.dump(f))
            changed = before != after
            hp = health.problems(f)
            if hp:
                ctx.monitor_failure(f'C20:health:{hp[0][0]}', f'after {hist[-1]}: {hp[0][1]}', dict(w, edit_seed=seed, history=hist))
            # whatever the edit was (in-place arithmetic, assignments, list operations): a deep copy of the edited
            # document equals it, both ways
            try:
                cp = copy.deepcopy(f)
                if not (cp == f) or not (f == cp):
                    ctx.monitor_failure('C20:copy-unequal', f'after {hist[-1]} a deep copy of the document does not equal it (same text '
                                        f'{treewalk.text_of(cp) == after[0]}, same structure {treewalk.dump(cp) == after[1]})',
                                        dict(w, edit_seed=seed, history=hist))
            except Exception:
                pass          # a failing deepcopy is C11's business
            twin = gen_docs.parse_ok(before[0], ac) if k else g
            if k:
                # the twin of an edited document is not available by parsing (attribution may differ): use a copy taken before
                pass
            if k == 0:
                if changed and (f == g or g == f):
                    ctx.monitor_failure('C20:edit-still-equal', f'after {hist[-1]} (text or structure changed) the document still equals its untouched twin',
                                        dict(w, edit_seed=seed, history=hist))
                if not changed and not (f == g):
                    ctx.monitor_failure('C20:noop-unequal', f'after {hist[-1]} (nothing changed) the document no longer equals its twin',
                                        dict(w, edit_seed=seed, history=hist))
            break
        ctx.case({'chars': len(text), 'auto_claim': ac, 'history': hist[:3]}, nontrivial=True)


def run_c20_claim_unclaim(ctx: common.Ctx):
    """Equality after claim + unclaim (which permutes zero-width placeholders): same type, text and structure
    must still compare equal to an untouched twin."""
    layouts = [
        '2000-01-01 *\n    kk: 1\n    ; c\n    Assets:A 1 USD\n',
        '2000-01-01 open Assets:A\n; c\n2000-01-02 close Assets:A\n',
        '2000-01-01 *\n    Assets:A 1 USD\n    ; c\n    Assets:B\n',
        '; c\n2000-01-01 open Assets:A\n',
    ]
    for text in layouts:
        for side in ('trailing', 'leading'):
            a, b = gen_docs.parse_ok(text, False), gen_docs.parse_ok(text, False)
            if a is None:
                continue
            done = False
            for p, m in treewalk.walk(a):
                if hasattr(m, f'claim_{side}_comment'):
                    try:
                        c = getattr(m, f'claim_{side}_comment')()
                    except Exception:
                        continue
                    if c is None:
                        continue
                    getattr(m, f'unclaim_{side}_comment')()
                    done = True
                    same = treewalk.dump(a) == treewalk.dump(b) and treewalk.text_of(a) == treewalk.text_of(b)
                    ctx.count('pairs_compared')
                    if same and not (a == b):
                        ctx.monitor_failure('C20:claim-unclaim-moves-placeholder',
                                            f'{p}.claim_{side}_comment() then unclaim: same type, text and structure but == is False',
                                            {'text': text, 'path': p, 'side': side})
                    break
            ctx.case({'layout': text, 'side': side, 'claimed': done}, nontrivial=done)
    # ownership of a standalone (interleaving) comment: releasing it changes which model owns a comment, so the
    # document must no longer equal its untouched copy; claiming it back must restore equality
    for text in ['2000-01-01 open Assets:A\n\n; standalone\n\n2000-01-02 close Assets:A\n',
                 '; top\n\n2000-01-01 open Assets:A\n', '2000-01-01 *\n  Assets:A 1 USD\n\n; tail\n\n; tail2\n']:
        a = gen_docs.parse_ok(text, True)
        if a is None:
            continue
        b = copy.deepcopy(a)
        w = b.raw_directives_with_comments
        n_comments = sum(1 for x in w if type(x).__name__ == 'BlockComment')
        released = w.unclaim_interleaving_comments()
        ctx.count('pairs_compared')
        ctx.case({'layout': text, 'interleaving_released': len(released)}, nontrivial=bool(released))
        if released and (a == b or b == a):
            ctx.monitor_failure('C20:ownership-change-still-equal', f'after unclaim_interleaving_comments() on a copy ({len(released)} '
                                f'standalone comment(s) released) the copy still equals the original', {'text': text})
        if released:
            w.claim_interleaving_comments(released)
            if not (a == b) and treewalk.dump(a) == treewalk.dump(b):
                # placeholders may have moved (recorded finding C20:claim-unclaim-moves-placeholder) - only report a
                # different structure
                pass


# ---- C15 -------------------------------------------------------------------------------------------
def _arg(r, cls_name: str, pname: str, full: bool):
    """An in-domain argument for a from_value parameter, by parameter name."""
    import datetime
    from decimal import Decimal as D
    from autobean_refactor import models
    E = edits
    strings = ['plain', '', 'q"uote', 'back\\slash', 'two\nlines', 'ünï', 'bs\\"q', 'C:\\dir\\"f"', '\\"']
    if pname == 'date':
        return r.choice([E.s_date(r), datetime.date(999, 1, 2)])
    if pname in ('account', 'source_account'):
        return E.s_account(r)
    if pname == 'currency':
        if cls_name in ('Posting', 'UnitPrice', 'TotalPrice', 'CostSpec'):
            return r.choice([None, E.s_currency(r)])
        return E.s_currency(r)
    if pname == 'currencies':
        return [E.s_currency(r) for _ in range(r.choice([0, 1, 3]))]
    if pname in ('booking', 'config'):
        return r.choice([None, 'STRICT', 'a "b"'])
    if pname in ('number', 'number_per', 'number_total'):
        if cls_name in ('Posting', 'UnitPrice', 'TotalPrice', 'CostSpec', 'CompoundAmount'):
            return r.choice([None, D('1'), D('-2.50'), D('1000.25'), D('0'), D('0.00')])
        return r.choice([D('0'), D('12.5'), D('-3'), D('1000000')])
    if pname == 'tolerance':
        return r.choice([None, D('0.01')])
    if pname in ('leading_comment', 'trailing_comment'):
        return r.choice([None, None, 'c', 'two\nlines', '', 'a\n  \nb', ' ', 'a\n\t\nb', 'x\n\ny'])
    if pname == 'inline_comment':
        # values ending in blanks / tabs are in the domain (the lexeme keeps them); leading blanks are not
        return r.choice([None, None, 'ic', '', 'trail ', 'tab\t', '\t', 'a  b  '])
    if pname == 'meta':
        return r.choice([None, {}, {'kk': 'v'}, {'aa': D('1'), 'bb': None, 'cc': datetime.date(2020, 1, 2), 'dd': True,
                                                 'ee': 'two\nlines'}])
    if pname in ('tags',):
        return [E.s_tag(r) for _ in range(r.choice([0, 1, 2]))]
    if pname in ('links',):
        return [E.s_link(r) for _ in range(r.choice([0, 1, 2]))]
    if pname in ('payee', 'narration'):
        return r.choice([None, r.choice(strings)])
    if pname == 'postings':
        return [E.make_posting(r) for _ in range(r.choice([0, 1, 3]))]
    if pname == 'flag':
        return r.choice(['*', '!']) if cls_name == 'Transaction' else r.choice([None, '!', '*'])
    if pname in ('type', 'description', 'name', 'query_string', 'filename', 'comment', 'label'):
        if pname == 'label' and cls_name == 'CostSpec':
            return r.choice([None, 'lbl'])
        return r.choice(strings)
    if pname == 'key':
        return r.choice(strings) if cls_name == 'Option' else E.s_key(r)
    if pname == 'value':
        if cls_name == 'Option':
            return r.choice(strings)
        if cls_name == 'NumberExpr':
            return r.choice([D('1'), D('-7.5'), D('0')])
        return E.s_meta_value(r)
    if pname == 'tag':
        return E.s_tag(r)
    if pname == 'indent_by':
        return r.choice(['    ', '  ', '\t'])
    if pname == 'indent':
        return r.choice(['    ', '  ', '\t'])
    if pname == 'values':
        pool = [lambda: 's', lambda: datetime.date(2020, 1, 2), lambda: True, lambda: D('1'), lambda: D('-2'),
                lambda: D('3'), lambda: models.Amount.from_value(D('-4'), 'USD'),
                lambda: models.Account.from_value('Assets:X'), lambda: D('-5'),
                lambda: models.NumberExpr.from_value(D('-2')) + 5,            # signed, two additive terms
                lambda: models.NumberExpr.from_value(D('-2')) * 3 - 1,
                lambda: models.Amount.from_children(models.NumberExpr.from_value(D('-2')) + 5, models.Currency.from_value('USD')),
                lambda: +models.NumberExpr.from_value(D('4')) if hasattr(models.NumberExpr, '__pos__') else D('4'),
                lambda: D('0')]
        return [r.choice(pool)() for _ in range(r.choice([0, 1, 2, 4]))]
    if pname == 'amount':
        return models.Amount.from_value(r.choice([D('1'), D('-2.5')]), E.s_currency(r))
    if pname == 'cost':
        return r.choice([None, models.CostSpec.from_value(D('2'), None, 'USD'), models.CostSpec.from_value(D('0'), None, 'USD'),
                         models.CostSpec.from_value(None, D('5'), 'EUR', date=datetime.date(2020, 1, 1), label='l', merge=True),
                         models.CostSpec.from_value(None, None, None)])
    if pname == 'price':
        return r.choice([None, models.UnitPrice.from_value(D('1.5'), 'USD'), models.TotalPrice.from_value(None, 'EUR'),
                         models.UnitPrice.from_value(None, None)])
    if pname == 'merge':
        return r.choice([False, True])
    if pname == 'directives':
        return [E.make_directive(r) for _ in range(r.choice([0, 1, 3]))]
    raise KeyError(pname)


def run_c15(ctx: common.Ctx):
    import inspect
    from autobean_refactor import models
    from autobean_refactor.models import base
    classes = []
    for name in sorted(dir(models)):
        c = getattr(models, name)
        if isinstance(c, type) and issubclass(c, base.RawTreeModel) and hasattr(c, 'from_value'):
            classes.append(c)
    p = gen_docs._PARSER if hasattr(gen_docs, '_PARSER') else None
    from autobean_refactor import parser as parser_lib
    parser = parser_lib.Parser()
    n_per_class = ctx.scale(30, 250)
    for cls in classes:
        sig = inspect.signature(cls.from_value)
        for k in range(n_per_class):
            seed = ctx.rng.randrange(1 << 30)
            r = random.Random(seed)
            kwargs = {}
            try:
                for prm in sig.parameters.values():
                    optional = prm.default is not inspect._empty
                    if optional and r.random() < 0.4:
                        continue
                    kwargs[prm.name] = _arg(r, cls.__name__, prm.name, True)
            except KeyError as e:
                ctx.fail('tie', 'c15-unknown-parameter', f'{cls.__name__}.from_value has a parameter the harness does not know: {e}')
                break
            w = {'class': cls.__name__, 'arg_seed': seed, 'args': {a: repr(b)[:80] for a, b in kwargs.items()}}
            try:
                m = cls.from_value(**kwargs)
            except ValueError as e:
                # documented rejections (e.g. CostSpec per+total without …) are not this property's concern
                ctx.dist('ctor_refused=' + cls.__name__)
                continue
            ctx.dist('class=' + cls.__name__)
            ctx.case({'class': cls.__name__, 'args': sorted(kwargs)}, nontrivial=len(kwargs) > 1)
            probs = treewalk.wf_problems(m, expect_whole_store=True)
            if probs:
                ctx.monitor_failure('C15:constructed-not-wf', f'{cls.__name__}.from_value(...) is not well-formed: {probs[0]}', w)
                continue
            # the constructed model reads back the arguments it was built from (plain-valued ones)
            import datetime as _dt
            import decimal as _dec
            for an, av in kwargs.items():
                if an in ('meta', 'values', 'postings', 'directives', 'amount', 'cost', 'price', 'indent_by') or not hasattr(m, an):
                    continue
                exp = av
                if cls.__name__ == 'Transaction' and an == 'narration' and av is None and kwargs.get('payee') is not None:
                    exp = ''
                try:
                    got = getattr(m, an)
                except Exception:
                    continue
                if isinstance(exp, list) and all(isinstance(x, str) for x in exp):
                    got = list(got)
                elif not (exp is None or isinstance(exp, (str, bool, _dec.Decimal, _dt.date))):
                    continue
                if got != exp or type(got) is not type(exp):
                    ctx.monitor_failure('C15:field-differs-from-argument', f'{cls.__name__}.from_value({an}={exp!r}): the model reads '
                                        f'{an} = {got!r}', w)
                    break
            if 'indent_by' in kwargs and hasattr(m, 'indent_by') and m.indent_by != kwargs['indent_by']:
                ctx.monitor_failure('C15:field-differs-from-argument', f'{cls.__name__}.from_value(indent_by={kwargs["indent_by"]!r}): the model '
                                    f'reads indent_by = {m.indent_by!r}', w)
            text = treewalk.text_of(m)
            try:
                g = parser.parse(text, cls)
            except Exception as e:
                ctx.monitor_failure('C15:constructed-text-rejected', f'{cls.__name__}.from_value(...) prints {text!r} which parse() rejects ({type(e).__name__})', dict(w, printed=text))
                continue
            for cn in ('leading_comment', 'trailing_comment', 'inline_comment'):
                if cn in kwargs and hasattr(g, cn):
                    want, got_c = getattr(m, cn), getattr(g, cn)
                    if cn == 'inline_comment' and isinstance(want, str):
                        want = want.lstrip(' ')
                        got_c = got_c.lstrip(' ') if isinstance(got_c, str) else got_c
                    if want != got_c:
                        ctx.monitor_failure('C15:comment-differs-after-reparse', f'{cls.__name__}.from_value({cn}={kwargs[cn]!r}) prints '
                                            f'{text!r}; the re-parsed model reads {cn} = {got_c!r}', dict(w, printed=text))
                        break
            d = diff(treewalk.content(m), treewalk.content(g))
            if d:
                sig_ = 'C15:custom-values-adjacent-numbers' if ('._values' in d and cls.__name__ == 'Custom') else 'C15:reparse-content-differs'
                ctx.monitor_failure(sig_, f'{cls.__name__}.from_value(...) prints {text!r}; re-parsed content differs at {d}', dict(w, printed=text))
            # assembled into a file
            if isinstance(m, tuple(type(x) for x in [m]) ) and cls.__name__ not in ('File',) and hasattr(models.File, 'from_value'):
                pass
    # classes that offer from_children only (no from_value): IgnoredLine
    for raw in ('* Assets', '** sub heading', ': x', '# hash line', '! bang'):
        try:
            il = models.IgnoredLine.from_children(models.Ignored.from_raw_text(raw))
        except Exception as e:
            ctx.monitor_failure('C15:ctor-raised', f'IgnoredLine.from_children raised {type(e).__name__}: {e}', {'raw': raw})
            continue
        ctx.count('from_children_only_constructions')
        for target, text in ((models.IgnoredLine, treewalk.text_of(il)),):
            try:
                g = parser.parse(text, target)
                got = g.raw_ignored.raw_text if hasattr(g, 'raw_ignored') else treewalk.text_of(g)
            except Exception as e:
                ctx.monitor_failure('C15:constructed-text-rejected', f'IgnoredLine.from_children({raw!r}) prints {text!r} which parse() rejects ({type(e).__name__})', {'raw': raw})
                continue
            if got != raw or treewalk.wf_problems(il, expect_whole_store=True):
                ctx.monitor_failure('C15:reparse-content-differs', f'IgnoredLine.from_children({raw!r}) prints {text!r}; the re-parsed ignored text is {got!r}', {'raw': raw})
        try:
            f_il = models.File.from_children([il])
            g = parser.parse(treewalk.text_of(f_il), models.File)
            got = [treewalk.text_of(d) for d in g.raw_directives]
            if [x.rstrip('\r\n') for x in got] != [raw]:
                ctx.monitor_failure('C15:reparse-content-differs', f'a File holding IgnoredLine {raw!r} prints {treewalk.text_of(f_il)!r} and re-parses to {got}', {'raw': raw})
        except Exception:
            pass
    # directives assembled into a file
    for k in range(ctx.scale(20, 200)):
        seed = ctx.rng.randrange(1 << 30)
        r = random.Random(seed)
        ds = [edits.make_directive(r) for _ in range(r.choice([1, 2, 4]))]
        try:
            f = models.File.from_value(ds)
        except Exception as e:
            ctx.monitor_failure('C15:file-ctor-raised', f'File.from_value raised {type(e).__name__}: {e}', {'arg_seed': seed})
            continue
        probs = treewalk.wf_problems(f, expect_whole_store=True)
        text = treewalk.text_of(f)
        w = {'arg_seed': seed, 'printed': text}
        if probs:
            ctx.monitor_failure('C15:constructed-not-wf', f'File.from_value(...) is not well-formed: {probs[0]}', w)
            continue
        g = gen_docs.parse_ok(text, True)
        if g is None:
            ctx.monitor_failure('C15:constructed-text-rejected', f'File.from_value(...) prints text that parse() rejects', w)
            continue
        d = diff(treewalk.content(f), treewalk.content(g))
        if d:
            ctx.monitor_failure('C15:reparse-content-differs', f'File.from_value(...): re-parsed content differs at {d}', w)
        ctx.case({'class': 'File', 'n': len(ds)}, nontrivial=True)


COST_FORMS = ['{}', '{{}}', '{1}', '{{1}}', '{USD}', '{{USD}}', '{1 USD}', '{{1 USD}}', '{1 # 2 USD}', '{{1 # 2 USD}}',
              '{# 2 USD}', '{{# 2 USD}}', '{1 # USD}', '{{12.34 # USD}}', '{2000-01-01, 1 USD}', '{"lbl", *, 1 USD}',
              '{{1 USD, 2000-01-01, "l"}}', '{*}', '{1 + 2 USD}']


def run_c05_costs(ctx: common.Ctx):
    """Directed: every concrete cost form x random sequences of the dependent setters; the tree must stay
    well-formed (the cost node, its braces and components are replaced/re-typed by the setters)."""
    import datetime
    from decimal import Decimal as D
    from autobean_refactor import models
    choices = {'number_per': [None, D('2.5'), D('0')], 'number_total': [None, D('7'), D('0')],
               'currency': [None, 'CAD', 'EUR'], 'date': [None, datetime.date(2020, 2, 3)],
               'label': [None, 'x', ''], 'merge': [True, False]}
    plans = [(form, [(n, v)]) for form in COST_FORMS for n, vs in choices.items() for v in vs]     # every single assignment
    for _ in range(ctx.scale(150, 2000)):                                                         # random longer sequences
        r = random.Random(ctx.rng.randrange(1 << 30))
        plans.append((r.choice(COST_FORMS), [(n, r.choice(choices[n])) for n in
                                             (r.choice(list(choices)) for _ in range(r.choice([2, 3, 5])))]))
    for form, plan in plans:
        text = f'2000-01-01 *\n    Assets:Foo  100.00 GBP {form}\n    Assets:Bar\n'
        f = gen_docs.parse_ok(text, True)
        if f is None:
            continue
        cost = f.raw_directives[0].raw_postings[0].cost
        hist = []
        for name, v in plan:
            hist.append(f'cost.{name} = {v!r}')
            try:
                setattr(cost, name, v)
            except ValueError:
                hist[-1] += ' -> ValueError'
                continue
            probs = treewalk.wf_problems(f)
            if probs:
                ctx.monitor_failure('C05:not-wf-after-edit', f'cost {form}: after {hist[-1]}: {probs[0]}',
                                    {'text': text, 'history': hist})
                break
        ctx.case({'cost_form': form, 'history': hist}, nontrivial=bool(hist))


def run_c15_expressions(ctx: common.Ctx):
    """Directed: the hand-written expression classes built with from_children from free-standing operand trees
    (numbers, signed atoms, parenthesised sums - every position, incl. the LAST operand): the result must be a
    complete well-formed tree in its own store, print the operands joined by the operators, and - wrapped into a
    NumberExpr, the parse target the grammar offers - re-parse to an equal model with the same value."""
    import copy
    from autobean_refactor import models
    from autobean_refactor import parser as parser_lib
    parser = parser_lib.Parser()

    def atom(text):
        e = parser.parse(text, models.NumberExpr)
        return copy.deepcopy(e.raw_number_add_expr.raw_operands[0].raw_operands[0])

    def mul(texts, ops):
        return models.NumberMulExpr.from_children(tuple(atom(t) for t in texts), tuple(models.MulOp.from_raw_text(o) for o in ops))

    atoms = ['2', '-3', '(4)', '-(1 + 2)', '+5', '(6 * 7)', '10.50']
    for _ in range(ctx.scale(40, 400)):
        r = random.Random(ctx.rng.randrange(1 << 30))
        n_terms = r.choice([1, 2, 3])
        terms, add_ops, parts = [], [], []
        try:
            for i in range(n_terms):
                k = r.choice([1, 2, 3])
                ts = [r.choice(atoms) for _ in range(k)]
                os_ = [r.choice(['*', '/']) for _ in range(k - 1)]
                terms.append((ts, os_))
            muls = [mul(ts, os_) for ts, os_ in terms]
            add_ops = [r.choice(['+', '-']) for _ in range(n_terms - 1)]
            w = {'terms': terms, 'add_ops': add_ops}
            ctx.count('expression_constructions')
            for (ts, os_), m_ in zip(terms, muls):
                exp = ts[0] + ''.join(f' {o} {t}' for o, t in zip(os_, ts[1:]))
                probs = treewalk.wf_problems(m_, expect_whole_store=True)
                if probs or treewalk.text_of(m_) != exp:
                    ctx.monitor_failure('C15:constructed-not-wf', f'NumberMulExpr.from_children({ts}, {os_}) is not a complete tree printing '
                                        f'{exp!r}: {probs[0] if probs else treewalk.text_of(m_)!r}', w)
                    raise StopIteration
                for i, (t, o) in enumerate(zip(ts, m_.raw_operands)):
                    if treewalk.text_of(o) != t or o.token_store is not m_.token_store:
                        ctx.monitor_failure('C15:constructed-not-wf', f'NumberMulExpr.from_children({ts}, {os_}): operand {i} prints '
                                            f'{treewalk.text_of(o)!r} / lives in another store, expected {t!r}', w)
                        raise StopIteration
                parts.append(exp)
            a = models.NumberAddExpr.from_children(tuple(muls), tuple(models.AddOp.from_raw_text(o) for o in add_ops))
            exp = parts[0] + ''.join(f' {o} {t}' for o, t in zip(add_ops, parts[1:]))
            probs = treewalk.wf_problems(a, expect_whole_store=True)
            if probs or treewalk.text_of(a) != exp:
                ctx.monitor_failure('C15:constructed-not-wf', f'NumberAddExpr.from_children(...) is not a complete tree printing {exp!r}: '
                                    f'{probs[0] if probs else treewalk.text_of(a)!r}', w)
                continue
            e = models.NumberExpr.from_children(a)
            probs = treewalk.wf_problems(e, expect_whole_store=True)
            g = parser.parse(treewalk.text_of(e), models.NumberExpr)
            if probs or not (g == e) or g.value != e.value or treewalk.dump(g) != treewalk.dump(e):
                ctx.monitor_failure('C15:reparse-content-differs', f'NumberExpr built from constructed operands prints {treewalk.text_of(e)!r}; '
                                    f'the re-parsed model differs (wf: {probs[:1]}, equal: {g == e}, values {e.value} / {g.value})', w)
            ctx.case({'expr': exp}, nontrivial=True)
        except StopIteration:
            continue


def run_c15_comment_layouts(ctx: common.Ctx):
    """Directed: constructed models whose comments end up adjacent in the printed text. The grammar lexes
    adjacent comment lines of one indentation as ONE block comment and attribution is positional, so these
    constructions do not read back with the same comment fields (recorded findings; any other outcome than the
    recorded one is reported under a different signature)."""
    from decimal import Decimal as D
    import datetime
    from autobean_refactor import models
    from autobean_refactor import parser as parser_lib
    parser = parser_lib.Parser()
    # 1. trailing comment of posting 1 directly above leading comment of posting 2
    p1 = models.Posting.from_value('Assets:A', D(1), 'USD', trailing_comment='a')
    p2 = models.Posting.from_value('Assets:B', None, None, leading_comment='b')
    t = models.Transaction.from_value(datetime.date(2000, 1, 1), None, 'n', [p1, p2])
    text = treewalk.text_of(t)
    try:
        g = parser.parse(text, models.Transaction)
        got = [(p.leading_comment, p.trailing_comment) for p in g.postings]
    except Exception as e:
        got = f'rejected: {type(e).__name__}'
    exp = [(None, 'a'), ('b', None)]
    ctx.case({'layout': 'posting.trailing + next posting.leading', 'printed': text}, nontrivial=True)
    if got != exp:
        sig = 'C15:adjacent-comments-merge' if got == [(None, None), ('a\nb', None)] else 'C15:comment-fields-differ'
        ctx.monitor_failure(sig, f'constructed postings with comments {exp} print {text!r} and read back as {got}', {'printed': text})
    # 2. trailing comment of the last meta item of a posting
    mi = models.MetaItem.from_value('kk', D(1), indent='        ', trailing_comment='x')
    p = models.Posting.from_children(models.Account.from_value('Assets:A'), None, None, meta=[mi], indent=models.Indent.from_value('    '))
    t = models.Transaction.from_value(datetime.date(2000, 1, 1), None, 'n', [p])
    text = treewalk.text_of(t)
    try:
        g = parser.parse(text, models.Transaction)
        gp = g.postings[0]
        got = (gp.trailing_comment, gp.raw_meta[0].trailing_comment)
    except Exception as e:
        got = f'rejected: {type(e).__name__}'
    ctx.case({'layout': 'trailing comment of a posting\'s last meta item', 'printed': text}, nontrivial=True)
    if got != (None, 'x'):
        sig = 'C15:nested-trailing-comment-claimed-by-parent' if got == ('x', None) else 'C15:comment-fields-differ'
        ctx.monitor_failure(sig, f'meta item built with trailing_comment="x" inside a posting prints {text!r} and reads back as '
                            f'(posting.trailing, meta.trailing) = {got}', {'printed': text})


def run_c06_payee_grid(ctx: common.Ctx):
    """Directed: every short payee / narration assignment sequence from every initial string layout; the printed
    transaction must re-parse to the payee / narration the model reports."""
    import itertools
    from autobean_refactor import models
    heads = ['2000-01-01 *', '2000-01-01 * "n"', '2000-01-01 * "p" "n"', '2000-01-01 * "" "n"', '2000-01-01 * "p" ""', '2000-01-01 * ""']
    vals = [None, '', 'x']
    ops = [(a, v) for a in ('payee', 'narration') for v in vals]
    seqs = [[o] for o in ops] + [[o1, o2] for o1 in ops for o2 in ops]
    for head in heads:
        for seq in seqs:
            text = head + '\n  Assets:A 1 USD\n  Assets:B\n'
            f = gen_docs.parse_ok(text, True)
            if f is None:
                continue
            t = f.raw_directives[0]
            hist = []
            ok = True
            for a, v in seq:
                hist.append(f'{a} = {v!r}')
                try:
                    setattr(t, a, v)
                except Exception as e:
                    hist[-1] += f' -> {type(e).__name__}'
                    continue
                out = treewalk.text_of(f)
                g = gen_docs.parse_ok(out, True)
                w = {'text': text, 'history': hist, 'printed': out}
                if g is None:
                    ctx.monitor_failure('C06:printed-text-rejected', f'{head!r}: after {hist} the printed transaction no longer parses', w)
                    ok = False
                    break
                gt = g.raw_directives[0]
                if (gt.payee, gt.narration) != (t.payee, t.narration):
                    ctx.monitor_failure('C06:reparse-content-differs', f'{head!r}: after {hist} the model says (payee, narration) = '
                                        f'{(t.payee, t.narration)!r} but the printed text {out.splitlines()[0]!r} re-parses to '
                                        f'{(gt.payee, gt.narration)!r}', w)
                    ok = False
                    break
            ctx.case({'head': head, 'history': hist}, nontrivial=True)


def run_c06_stale_views(ctx: common.Ctx):
    """Directed: views that were read (hence cached) BEFORE an operation that goes through ANOTHER door of the same list -
    the view of the other kind (links vs tags), the raw list, or a release / claim of standalone comments (no edit of
    the text at all). Afterwards every view of the model must still say what the printed text re-parses to."""
    from autobean_refactor import models
    from autobean_refactor.models import base

    def all_views(root):
        out = []
        for p_, m_ in treewalk.walk(root):
            if not isinstance(m_, base.RawTreeModel) or isinstance(m_, edits.internal.Repeated):
                continue
            for name in ('tags', 'links', 'currencies', 'values', 'postings', 'directives', 'meta'):
                if hasattr(type(m_), name):
                    try:
                        v = getattr(m_, name)
                        items = list(v.items()) if name == 'meta' else list(v)
                        out.append((type(m_).__name__, name, [treewalk.text_of(x) if isinstance(x, base.RawModel) else repr(x) for x in items]))
                    except Exception as e:
                        out.append((type(m_).__name__, name, f'raised {type(e).__name__}'))
        return out

    T = '2000-01-01 * "n" #a ^l #b ^m #c\n  Assets:A  1 USD\n  Assets:B\n'
    F = '; head\n\n2000-01-01 open Assets:A\n\n; mid\n\n2000-01-02 open Assets:B\n2000-01-03 open Assets:C\n'
    X = '2000-01-01 *\n  aa: 1\n  Assets:A  1 USD\n  Assets:B\n'
    plans = [
        (T, lambda f: f.raw_directives[0].links.pop(0)),
        (T, lambda f: f.raw_directives[0].links.insert(0, 'new')),
        (T, lambda f: f.raw_directives[0].tags.pop(0)),
        (T, lambda f: f.raw_directives[0].raw_tags_links.pop(1)),
        (T, lambda f: f.raw_directives[0].links.clear()),
        (F, lambda f: f.raw_directives_with_comments.unclaim_interleaving_comments()),
        (F, lambda f: (f.raw_directives_with_comments.unclaim_interleaving_comments(), f.raw_directives_with_comments.claim_interleaving_comments())),
        (F, lambda f: f.raw_directives_with_comments.pop(0)),
        (F, lambda f: f.raw_directives_with_comments.insert(1, models.BlockComment.from_value('new', indent=''))),
    ]
    for k, (text, op) in enumerate(plans):
        f = gen_docs.parse_ok(text, True)
        all_views(f)                                  # read (cache) every view first
        try:
            op(f)
        except Exception as e:
            ctx.monitor_failure('C06:value-view-differs-from-text', f'directed plan {k} raised {type(e).__name__}: {e}', {'text': text, 'plan': k})
            continue
        ctx.count('stale_view_probes')
        out = treewalk.text_of(f)
        g = gen_docs.parse_ok(out, True)
        if g is None:
            ctx.monitor_failure('C06:printed-text-rejected', f'directed plan {k}: the printed document no longer parses', {'text': text, 'plan': k, 'printed': out})
            continue
        d = diff(all_views(f), all_views(g))
        if d:
            ctx.monitor_failure('C06:value-view-differs-from-text', f'views read before the operation (plan {k}) disagree with the re-parsed '
                                f'text afterwards at {d}', {'text': text, 'plan': k, 'printed': out})
        ctx.case({'plan': k}, nontrivial=True)


GLUED_TEXTS = [
    '2000-01-01 open Assets:A USD "STRICT";note\n',
    '2000-01-01 open Assets:A USD"STRICT" ;note\n',
    '2000-01-01 *\n  Assets:A 1 USD{2 EUR}@3 EUR;note\n',
    '2000-01-01 *\n  !Assets:Foo 10 USD\n  ! Assets:Baz\n',
    '2000-01-01 *\n    Assets:Bar  -1 GOOG {1#2 USD}\n',
    '2000-01-01 *\n    Assets:Bar  -1 GOOG {1 # 2 USD}\n',
    '2000-01-01 *\n    Assets:Bar  -1 GOOG {{2 USD,2000-01-01}}@@3 USD\n',
    '2000-01-01 *\n    Assets:Cash 10CAD\n    Assets:Cash 10 CAD@@5 USD\n',
    '2000-01-01 *"n"#t\n  Assets:A\n',
    '2000-01-01 balance Assets:A 1~0.1 USD;c\n',
    '2000-01-01 txn"p""n"^l;c\n  Assets:A\n',
    # multi-token children with separators in FRONT that touch what follows (the keep-the-separators branch must take
    # the whole child, not its last token)
    '2000-01-01 *\n    Assets:Cash  10 + 2CAD\n',
    '2000-01-01 *\n    Assets:Cash  1 USD {2 EUR} @ 3 EUR;note\n',
    '2000-01-01 *\n    Assets:Cash  1 USD {2 EUR, 2000-01-01}@ 3 EUR\n',
    '2000-01-01 balance Assets:A 1 ~ 0.1 + 0.2USD\n',
    '2000-01-01 *\n    ! Assets:Cash  (1 + 2)USD @@ 3 * 2EUR;c\n',
]


def run_c06_glued_removals(ctx: common.Ctx, prop: str = 'C06'):
    """Directed: optional children that are written right against a neighbour (legal where the lexer needs no blank).
    Each present optional child of each model is removed on its own (fresh parse), and then all of them one after the
    other in the same document; after every accepted removal the printed text must re-parse to what the model says."""
    from autobean_refactor.models import base
    from autobean_refactor.models.internal.repeated import Repeated

    def optional_children(root):
        out = []
        for p_, m in treewalk.walk(root):
            if not isinstance(m, base.RawTreeModel) or isinstance(m, Repeated):
                continue
            for name in edits.class_props(type(m)):
                if not name.startswith('raw_') or 'string' in name:
                    continue        # string0/1/2 are the storage behind payee/narration (the documented API; payee grid covers it)
                fld = getattr(type(m), '_' + name[4:], None)
                if type(fld).__name__ not in ('optional_left_field', 'optional_right_field'):
                    continue
                try:
                    if getattr(m, name) is not None:
                        out.append((p_, name))
                except Exception:
                    pass
        return out

    def resolve(root, path):
        for p_, m in treewalk.walk(root):
            if p_ == path:
                return m
        return None

    def judge(f, text, hist):
        out = treewalk.text_of(f)
        w = {'text': text, 'history': list(hist), 'printed': out}
        hp = health.problems(f)
        if hp:
            ctx.monitor_failure('C05:not-wf-after-edit' if prop == 'C05' else f'{prop}:health:{hp[0][0]}',
                                f'after {hist} on {text!r} (printed {out!r}): {hp[0][1]}', w)
            return False
        if prop != 'C06':
            return True
        g = gen_docs.parse_ok(out, True)
        if g is None:
            ctx.monitor_failure('C06:printed-text-rejected', f'after {hist} on {text!r} the printed document {out!r} no longer parses', w)
            return False
        d = diff(treewalk.content(f), treewalk.content(g))
        if d:
            ctx.monitor_failure(classify_c06(d, out, f), f'after {hist} on {text!r} the re-parsed document {out!r} differs from the model at {d}', w)
            return False
        return True

    for text in GLUED_TEXTS:
        f0 = gen_docs.parse_ok(text, True)
        if f0 is None:
            ctx.count('glued_texts_rejected_by_parser')
            continue
        targets = optional_children(f0)
        for path, name in targets:
            f = gen_docs.parse_ok(text, True)
            m = resolve(f, path)
            try:
                setattr(m, name, None)
            except Exception as e:
                ctx.count('glued_removals_refused')
                continue
            ctx.count('glued_removals')
            judge(f, text, [f'{path}.{name} = None'])
            ctx.case({'text': text, 'removed': [name]}, nontrivial=True)
        for order in (targets, targets[::-1]):
            f = gen_docs.parse_ok(text, True)
            hist = []
            for path, name in order:
                m = resolve(f, path)
                if m is None:
                    continue
                try:
                    if getattr(m, name) is None:
                        continue
                    setattr(m, name, None)
                except Exception:
                    continue
                hist.append(f'{path}.{name} = None')
                ctx.count('glued_removals')
                if not judge(f, text, hist):
                    break
            ctx.case({'text': text, 'removed': hist}, nontrivial=bool(hist))


GLUED_LIST_TEXTS = [
    # (text, attribute of the first directive holding the raw list)
    ('2000-01-01 custom "x" 1 "s"2\n', 'raw_values'),
    ('2000-01-01 custom "x" Assets:A "s"B:C\n', 'raw_values'),
    ('2000-01-01 custom "x" TRUE "s"FALSE 3\n', 'raw_values'),
    ('2000-01-01 custom "x" 1 "s""t" 2\n', 'raw_values'),
    ('2000-01-01 custom "x" "a""s"2 1\n', 'raw_values'),
    ('2000-01-01 * "n" #a ^l#b ^m\n', 'raw_tags_links'),
    ('2000-01-01 open Assets:A USD,EUR,CAD;c\n', 'raw_currencies'),
    ('2000-01-01 open Assets:A USD ,EUR, CAD ;c\n', 'raw_currencies'),
]


def run_c06_glued_list_removals(ctx: common.Ctx):
    """Directed: items of a repeated field written right against the NEXT item (legal where the lexer needs no blank:
    `"s"2`, `^l#b`, `USD,EUR;c`). Every item is removed on its own (pop through the raw list) from a fresh parse, and
    all of them front to back / back to front; after every removal the printed text must re-parse to the model.
    The former finding C06:list-item-removed-next-to-glued-item (`1 "s"2`, pop(1) printed `12`) is repaired
    (_del_tokens keeps the blanks in front of the removed item when the next item is written right against it): any
    re-parse difference here is a plain C06 failure."""
    def judge(f, text, attr, hist, before):
        out = treewalk.text_of(f)
        w = {'text': text, 'list': attr, 'history': list(hist), 'printed': out}
        hp = health.problems(f)
        if hp:
            ctx.monitor_failure(f'C06:health:{hp[0][0]}', f'after {hist}: {hp[0][1]}', w)
            return False
        g = gen_docs.parse_ok(out, True)
        d = None if g is None else diff(treewalk.content(f), treewalk.content(g))
        if g is None or d:
            sig = 'C06:printed-text-rejected' if g is None else 'C06:glued-list-removal-reparse-differs'
            ctx.monitor_failure(sig, f'after {hist} on {text!r} the printed document {out!r} ' +
                                ('no longer parses' if g is None else f'differs from the model at {d}'), w)
            return False
        return True

    for text, attr in GLUED_LIST_TEXTS:
        f0 = gen_docs.parse_ok(text, True)
        if f0 is None:
            ctx.count('glued_texts_rejected_by_parser')
            continue
        n = len(getattr(f0.raw_directives[0], attr))
        for k in range(n):
            f = gen_docs.parse_ok(text, True)
            xs = getattr(f.raw_directives[0], attr)
            before = treewalk.text_of(f)
            try:
                xs.pop(k)
            except Exception:
                ctx.count('glued_list_removals_refused')
                continue
            ctx.count('glued_list_removals')
            judge(f, text, attr, [f'{attr}.pop({k})'], before)
            ctx.case({'text': text, 'pop': k}, nontrivial=True)
        for idx in (0, -1):
            f = gen_docs.parse_ok(text, True)
            xs = getattr(f.raw_directives[0], attr)
            hist = []
            while len(xs):
                before = treewalk.text_of(f)
                try:
                    xs.pop(idx)
                except Exception:
                    break
                hist.append(f'{attr}.pop({idx})')
                ctx.count('glued_list_removals')
                if not judge(f, text, attr, hist, before):
                    break
            ctx.case({'text': text, 'pops': hist}, nontrivial=bool(hist))


def run_c06_constructed_customs(ctx: common.Ctx):
    """Directed: a custom directive built from values (the route that DOES disambiguate adjacent numbers) is put into
    a parsed document; the printed text must re-parse to the values the model reports - runs of sign-led numbers and
    amounts of every length, after parenthesised, plain and non-numeric neighbours."""
    import datetime
    import decimal
    import itertools
    from autobean_refactor import models
    D = decimal.Decimal
    atoms = [D(10), D(-2), D(-3), D('+4') if False else D(4), 'txt', True, datetime.date(2000, 1, 2)]
    lists = [list(c) for n in (2, 3, 4) for c in itertools.product([D(10), D(-2), D(-3)], repeat=n)]
    lists += [[D(1), 'txt', D(-2), D(-3)], [D(-1), D(-2), True, D(-3), D(-4)], [D(5), datetime.date(2000, 1, 2), D(-6), D(-7)]]
    base_text = '2000-01-01 open Assets:A\n'
    for values in lists:
        f = gen_docs.parse_ok(base_text, True)
        try:
            c = models.Custom.from_value(datetime.date(2000, 1, 3), 'x', list(values))
            f.raw_directives.append(c)
        except Exception as e:
            ctx.count('constructed_customs_refused')
            continue
        ctx.count('constructed_customs')
        out = treewalk.text_of(f)
        w = {'values': [repr(v) for v in values], 'printed': out}
        g = gen_docs.parse_ok(out, True)
        if g is None:
            ctx.monitor_failure('C06:printed-text-rejected', f'Custom.from_value(..., {values!r}) appended to a file prints {out!r}, which no longer parses', w)
            continue
        try:
            mine = list(f.raw_directives[-1].values)
            theirs = list(g.raw_directives[-1].values)
        except Exception as e:
            ctx.monitor_failure('C06:value-view-differs-from-text', f'values of the constructed custom cannot be read: {type(e).__name__}', w)
            continue
        if [repr(v) for v in mine] != [repr(v) for v in theirs]:
            ctx.monitor_failure('C06:value-view-differs-from-text', f'Custom.from_value(..., {values!r}) says values = {mine!r}; its printed text '
                                f'{out.splitlines()[-1]!r} re-parses to {theirs!r}', w)
        ctx.case({'values': [repr(v) for v in values]}, nontrivial=True)


def run_c06_whole_field(ctx: common.Ctx):
    """Directed: every view of a repeated field is read first (so that all of them are cached), then the whole
    field is replaced through its raw property by a free-standing wrapper with other contents (a deep copy of
    the same field of another model, or a changed deep copy of its own), then one more edit goes through a view;
    after each step every value-level view must say what the printed text re-parses to."""
    import copy
    from autobean_refactor.models import base
    from autobean_refactor.models.internal import properties as props
    from autobean_refactor.models.internal.repeated import Repeated
    n_done = 0
    for text, ac, lf, f in documents(ctx, ctx.scale(60, 400), auto_claim=True):
        r = random.Random(ctx.rng.randrange(1 << 30))
        cands = []
        for p_, m in treewalk.walk(f):
            if not isinstance(m, base.RawTreeModel) or isinstance(m, Repeated):
                continue
            for name in edits.class_props(type(m)):
                if not name.startswith('raw_'):
                    continue
                try:
                    w = getattr(m, name)
                except Exception:
                    continue
                if type(w) is props.RepeatedNodeWrapper:
                    cands.append((p_, m, name))
        r.shuffle(cands)
        for p_, m, name in cands[:3]:
            hist = []
            value_views(f)                                  # reads (and caches) every view of every model
            donors = [x for _, x, n2 in cands if n2 == name and x is not m and type(x) is type(m) and len(getattr(x, name))]
            try:
                if donors and r.random() < 0.7:
                    dc = copy.deepcopy(getattr(r.choice(donors), name))
                    hist.append(f'{p_}.{name} = deepcopy(<same field of another {type(m).__name__}>)')
                else:
                    dc = copy.deepcopy(getattr(m, name))
                    if len(dc):
                        dc.pop(r.randrange(len(dc)))
                    hist.append(f'{p_}.{name} = deepcopy({name}) with one element popped')
                setattr(m, name, dc)
            except Exception as e:
                # a candidate collected before an earlier assignment of this loop may have left the document since
                # (its tokens are gone: copying it raises) - not a step of this scenario
                if hist:
                    hist[-1] += f' -> {type(e).__name__}'
                continue
            for step in range(2):
                if step == 1:
                    # one more edit through a value view of the same model
                    views = [k for k in edits.class_props(type(m)) if not k.startswith(('_', 'raw_'))]
                    e = edits.random_edit(r, f, focus=m) if hasattr(edits, 'random_edit') else None
                    if e is None or e.exc is not None:
                        break
                    hist.append(repr(e))
                out = treewalk.text_of(f)
                g = gen_docs.parse_ok(out, True)
                w_ = {'text': text, 'lf': lf, 'history': hist, 'printed': out}
                if g is None:
                    if 'custom' not in out:
                        ctx.monitor_failure('C06:printed-text-rejected', f'after {hist} the printed document no longer parses', w_)
                    break
                d = diff(value_views(f), value_views(g))
                if d:
                    ctx.monitor_failure('C06:custom-values-adjacent-numbers' if "'values'" in d or '.values' in d else
                                        'C06:value-view-differs-from-text',
                                        f'after {hist} a value-level view of the model disagrees with the re-parsed text at {d}', w_)
                    break
            n_done += 1
            ctx.case({'whole_field': name, 'history': hist[:3]}, nontrivial=True)
    ctx.count('whole_field_assignments', n_done)


def run_c05_comment_handover(ctx: common.Ctx):
    """The same hand-over histories as C11's (comments appended to one of the two adjacent repeated fields of a
    transaction, released, claimed by the neighbour, removed), with the C05 statement evaluated after every step."""
    run_c11_comment_handover(ctx, wf_prop='C05')


def run_c11_comment_handover(ctx: common.Ctx, wf_prop: str = 'C11'):
    """Directed: standalone comments handed back and forth between the two adjacent repeated fields of a
    transaction (meta / postings) and of a file, with removals in between - the claimers move zero-width
    placeholders around - and after every step a deep copy of the transaction and of the file must be equal,
    exact, disjoint and complete."""
    from autobean_refactor import models
    texts_ = ['2000-01-01 *\n    aa: 1\n    Assets:A  1 USD\n    Assets:B\n', '2000-01-01 *\n    Assets:A  1 USD\n',
              '2000-01-01 *\n    aa: 1\n', '2000-01-01 *\n    aa: 1\n2000-01-02 open Assets:A\n', '2000-01-01 *\n']
    scripted = []
    for text in texts_:
        for w1, w2 in (('postings', 'meta'), ('meta', 'postings')):
            for k in (1, 2, 3):
                for claim in ('claim_all', 'claim_released'):
                    for last in ('pop_last', 'pop_comment', 'unclaim', 'back'):
                        seq = [(w1, 'append')] * k + [(w1, 'unclaim'), (w2, claim)]
                        seq.append((w2, last) if last != 'back' else (w1, 'claim_all'))
                        scripted.append((text, seq))
    plans = [(t_, s_) for t_, s_ in scripted] + [None] * ctx.scale(300, 3000)
    for plan in plans:
        seed = ctx.rng.randrange(1 << 30)
        r = random.Random(seed)
        text = plan[0] if plan else r.choice([
            '2000-01-01 *\n    aa: 1\n    Assets:A  1 USD\n    Assets:B\n',
            '2000-01-01 *\n    Assets:A  1 USD\n',
            '2000-01-01 * "p" "n"\n    aa: 1\n    bb: 2\n    Assets:A  1 USD\n      cc: 3\n    Assets:B\n2000-01-02 close Assets:A\n',
            '2000-01-01 *\n    aa: 1\n',
            '2000-01-01 *\n    aa: 1\n2000-01-02 open Assets:A\n',
        ])
        f = gen_docs.parse_ok(text, True)
        if f is None:
            continue
        t = f.raw_directives[0]
        ws = {'meta': t.raw_meta_with_comments, 'postings': t.raw_postings_with_comments, 'file': f.raw_directives_with_comments}
        released = []
        hist = []
        prev = None
        n_steps = len(plan[1]) if plan else r.choice([4, 6, 9])
        for step in range(n_steps):
            wn = r.choice(['meta', 'postings', 'postings', 'file'])
            op = r.choice(['append', 'append', 'append', 'unclaim', 'claim_released', 'claim_all', 'pop_comment', 'pop_last'])
            if plan:
                prev = None
                wn, op = plan[1][step]
            # hand-over bias: what one field released is claimed by its neighbour, then something is removed
            if prev is not None and prev[1] == 'unclaim' and r.random() < 0.7:
                wn = {'meta': 'postings', 'postings': 'meta', 'file': 'file'}[prev[0]]
                op = r.choice(['claim_all', 'claim_released'])
            elif prev is not None and prev[1] in ('claim_all', 'claim_released') and r.random() < 0.6:
                wn, op = prev[0], r.choice(['pop_last', 'pop_comment'])
            elif prev is not None and prev[1] == 'append' and r.random() < 0.4:
                wn, op = prev[0], r.choice(['append', 'unclaim'])
            prev = (wn, op)
            w = ws[wn]
            hist.append(f'{wn}.{op}')
            try:
                if op == 'append':
                    w.append(models.BlockComment.from_value(f'c{step}', indent='' if wn == 'file' else '    '))
                elif op == 'unclaim':
                    released = list(w.unclaim_interleaving_comments())
                elif op == 'claim_released':
                    if released:
                        w.claim_interleaving_comments(released)
                        released = []
                elif op == 'claim_all':
                    w.claim_interleaving_comments()
                    released = []
                elif op == 'pop_comment':
                    idx = [i for i, x in enumerate(w) if isinstance(x, models.BlockComment)]
                    if idx:
                        w.pop(r.choice(idx))
                elif len(w):
                    w.pop(-1)
            except (ValueError, IndexError) as e:
                hist[-1] += f' -> {type(e).__name__}'
            if wf_prop == 'C05':
                probs = treewalk.wf_problems(f)
                if probs:
                    ctx.monitor_failure('C05:not-wf-after-edit', f'after the comment hand-over {hist}: {probs[0]}',
                                        {'text': text, 'seed': seed, 'history': list(hist)})
                    break
                continue
            for name, m in (('transaction', t), ('file', f)):
                wit = {'text': text, 'seed': seed, 'history': list(hist), 'copied': name}
                try:
                    c = copy.deepcopy(m)
                except Exception as x:
                    ctx.monitor_failure('C11:deepcopy-raised', f'after {hist}: deepcopy({name}) raised {type(x).__name__}: {x}', wit)
                    break
                if not (c == m):
                    ctx.monitor_failure('C11:copy-not-equal', f'after {hist}: deepcopy({name}) != original', wit)
                    break
                if treewalk.text_of(c) != span_text(m):
                    ctx.monitor_failure('C11:copy-text-differs', f'after {hist}: deepcopy({name}) prints differently', wit)
                    break
                probs = treewalk.wf_problems(c, expect_whole_store=True)
                if probs:
                    ctx.monitor_failure('C11:copy-not-wf', f'after {hist}: deepcopy({name}) is not complete in its own store: {probs[0]}', wit)
                    break
            else:
                continue
            break
        ctx.case({'text': text, 'history': hist}, nontrivial=len(hist) > 1)
