"""Whole-field assignment of repeated fields and the caches around it (C10 / C19 / C11; model: WholeField.v).

Seeded scenarios on real documents: 2-3 models with the same repeated field (transactions: tags+links / meta /
postings; open: currencies), histories of
    read the raw list (model.raw_xs), read a value view (model.tags ...), copy.deepcopy(<a wrapper>),
    model.raw_xs = <wrapper> (a deep copy of its own / of another model's field: accepted; a wrapper still attached to
    another model, a replaced wrapper: refused; the wrapper it already holds: no-op), model.view += values,
    model.raw_xs += values, model.view = <view object>, list edits through every wrapper and view object obtained so
    far (old and new handles, originals and copies).
After every step the harness dumps, for every wrapper / view object it holds, what the PUBLIC API shows (list(wrapper),
wrapper.repeated by identity, hasattr(claim_interleaving_comments), list(view) or the exception class) plus - when the
private names exist - `_update_handlers[*]._raw_indexes`, `view._raw_wrapper`, and of every model `__dict__`: which
Repeated the field holds, which wrapper and which views are cached (dict order).  The history and the dumps are replayed
on WholeField.v inside Coq (WholeFieldRun.check_case).  Observation never calls a property getter (that would fill a
cache), so the model's cache state and the implementation's are compared as they are.
Monitors (public behaviour only): a refused assignment changes nothing the handles show; an edit through one handle
changes no list backed by another Repeated; at the end of the history every view read from every model equals that
model's raw list filtered.
"""
from __future__ import annotations

import copy
import json
import operator
import random
import traceback
from typing import Any, Optional

from harness import common, c10
from harness.common import coq_z, coq_list, coq_zlist, coq_bool

PREAMBLE = 'From AB Require Import Prelude PySeq Views ViewsRun WholeField WholeFieldRun.'
EXC = {'ValueError': 1, 'IndexError': 2, 'KeyError': 3, 'AssertionError': 4, 'TypeError': 5, 'NotImplementedErr': 6}

# kind -> (attr of the raw list, private key of the inner field, interleaving property?, views: name -> (code, tags, vkind))
KINDS = {
    'tagslinks': ('raw_tags_links', '_tags_links', False, {'tags': (1, [1], 'KString'), 'links': (2, [2], 'KString')}),
    'meta': ('raw_meta_with_comments', '_meta', True, {'raw_meta': (1, [1], 'KNode'), 'meta': (2, [1], 'KNode')}),
    'postings': ('raw_postings_with_comments', '_postings', True, {'postings': (1, [1], 'KNode')}),
    'currencies': ('raw_currencies', '_currencies', False, {'currencies': (1, [1], 'KString')}),
}
SIG_STALE = 'C10:whole-field:view-differs-from-field'
SIG_REFUSED = 'C10:whole-field:refused-assignment-changed-state'
SIG_LEAK = 'C10:whole-field:edit-leaked-to-unrelated-list'
SIG_COPY = 'C10:whole-field:wrapper-copy-shares-with-original'
SIG_SHARED = 'C10:whole-field:two-models-serve-one-list'
# C04 (theorems C04_wrapper_read_step / C04_read_history): a step that is not an edit - reading model.raw_xs or a value
# view for the first or a later time, copy.deepcopy of a wrapper, len()/iteration through a view - changes no list any
# handle shows (same item OBJECTS in the same order), no view's values, no wrapper's Repeated, and not one token or
# character of the documents
SIG_READ = 'C04:read-step-changed-a-list'
READ_KINDS = ('gw', 'gv', 'copy')
READ_SUBS = ('iter', 'len')


def is_read_op(op: list) -> bool:
    return op[0] in READ_KINDS or (op[0] == 'ev' and op[2][0] in READ_SUBS)


def _text(kind: str, layout: list, k: int) -> str:
    if kind == 'tagslinks':
        s = ''.join(f' #t{k}{i}' if t == 1 else f' ^l{k}{i}' for i, t in enumerate(layout))
        return f'2000-01-0{k + 1} * "x{k}"{s}\n    Assets:P{k}  1 USD\n'
    if kind == 'meta':
        return f'2000-01-0{k + 1} * "x{k}"\n' + ''.join(f'    k{i % 3}: {10 * k + i}\n' for i, _ in enumerate(layout)) \
            + f'    Assets:P{k}  1 USD\n'
    if kind == 'postings':
        return f'2000-01-0{k + 1} * "x{k}"\n' + ''.join(f'    Assets:P{k}{i}  {i} USD\n' for i, _ in enumerate(layout))
    cur = ', '.join(f'C{chr(65 + k)}{chr(65 + i)}' for i, _ in enumerate(layout))
    return f'2000-01-0{k + 1} open Assets:A{k} {cur}'.rstrip() + '\n'


def gen_layout(rng, kind: str) -> list:
    n = rng.choice([0, 0, 1, 2, 3, 4])
    if kind == 'tagslinks':
        return [rng.choice([1, 2]) for _ in range(n)]
    return [1] * n


class World:
    """The documents of one case, the handles obtained so far, and the id bookkeeping shared with the model."""

    def __init__(self, kind: str, layouts: list):
        m = c10._models()
        self.kind, self.layouts = kind, layouts
        self.attr, self.key, self.inter, self.vdefs = KINDS[kind]
        self.keep: list[Any] = []                  # everything stays alive: identities are compared
        # instance k lives in document k % 2; a twin parse supplies the initial items without touching the accessors
        texts = ['', '']
        for k, lay in enumerate(layouts):
            texts[k % 2] += _text(kind, lay, k)
        self.docs = [c10.parser().parse(t, m.File, auto_claim_comments=False) for t in texts]
        twins = [c10.parser().parse(t, m.File, auto_claim_comments=False) for t in texts]
        self.keep += self.docs + twins
        per = [list(d.raw_directives) for d in self.docs]
        pert = [list(d.raw_directives) for d in twins]
        self.insts = [per[k % 2][k // 2] for k in range(len(layouts))]
        twin_insts = [pert[k % 2][k // 2] for k in range(len(layouts))]
        # encoders of c10 (content codes shared by all documents of the case)
        self.scn = c10.Scn.__new__(c10.Scn)
        self.scn.name, self.scn.layout, self.scn.intern = kind, [], {}
        self.scn.tagmap = {'tagslinks': [(1, m.Tag), (2, m.Link)], 'meta': [(1, m.MetaItem)],
                           'postings': [(1, m.Posting)], 'currencies': [(1, m.Currency)]}[kind]
        self.scn.view_specs = {n: dict(tags=tags, kind=vk, mapping=None) for n, (_, tags, vk) in self.vdefs.items()}
        self.init_items = [[self.scn.elem(x) for x in getattr(t, self.attr)] for t in twin_insts]
        # ids: Repeated k belongs to instance k; everything else is allocated as the model allocates
        self.next = len(layouts)
        self.rid: dict[int, int] = {}
        self.wid: dict[int, int] = {}
        self.vid: dict[int, tuple[int, int]] = {}
        self.wobjs: list[tuple[int, Any]] = []
        self.vobjs: list[tuple[tuple[int, int], Any, str]] = []
        self.field_of = list(range(len(layouts)))  # mirror, used only when the private field cannot be observed
        self.has_wrapper = [False] * len(layouts)
        self.nviews: dict[int, int] = {}
        self.dead: set[int] = set()                # python ids of Repeateds spliced out of their document
        self.unobservable = 0
        self.obs_field = all(self.key in i.__dict__ for i in self.insts)
        if self.obs_field:
            for k, i in enumerate(self.insts):
                self.rid[id(i.__dict__[self.key])] = k
                self.keep.append(i.__dict__[self.key])

    # ---- bookkeeping --------------------------------------------------------------------------------
    def rep_id(self, wobj: Any, default: int) -> int:
        r = wobj.repeated
        if id(r) not in self.rid:
            self.rid[id(r)] = default
            self.keep.append(r)
        return self.rid[id(r)]

    def reg_wrapper(self, wobj: Any, default_rep: int) -> int:
        """id of a wrapper object; an unknown object gets the next id (as the model's allocator does)"""
        if id(wobj) not in self.wid:
            self.wid[id(wobj)] = self.next
            self.next += 1
            self.wobjs.append((self.wid[id(wobj)], wobj))
            self.keep.append(wobj)
            self.rep_id(wobj, default_rep)
        return self.wid[id(wobj)]

    def cached_wrapper(self, k: int) -> Any:
        return self.insts[k].__dict__.get(self.attr)

    # ---- dump ------------------------------------------------------------------------------------------
    def E(self, e) -> str:
        return f'(E {coq_z(e[0])} {coq_z(e[1])} {coq_z(e[2])})'

    def EL(self, es) -> str:
        return coq_list(self.E(e) for e in es)

    def view_values(self, vobj: Any, vname: str):
        try:
            return 0, [self.scn.out_elem(vname, x) for x in vobj]
        except Exception as e:  # noqa: BLE001
            return EXC.get(common.exn_name(e), 9), []

    def doc_state(self) -> list:
        """printed text and token identities of every document of the case"""
        import io
        from autobean_refactor import printer
        return [(printer.print_model(d, io.StringIO()).getvalue(), [id(t) for t in d.token_store]) for d in self.docs]

    def py_dump(self) -> dict:
        """what the handles show through the public API (for the monitors)"""
        return {
            'w': {w: [id(x) for x in o] for w, o in self.wobjs},
            'v': {vh: self.view_values(o, n) for vh, o, n in self.vobjs},
            'rep': {w: id(o.repeated) for w, o in self.wobjs},
        }

    def coq_dump(self) -> tuple[str, str, str]:
        ws = []
        for w, o in self.wobjs:
            hs = getattr(o, '_update_handlers', None)
            idx = None
            if isinstance(hs, list) and all(isinstance(getattr(h, '_raw_indexes', None), list) for h in hs):
                idx = [list(h._raw_indexes) for h in hs]
            else:
                self.unobservable += 1
            ws.append(f'(mkow {coq_z(w)} {coq_z(self.rid.get(id(o.repeated), -1))} '
                      f'{coq_bool(hasattr(o, "claim_interleaving_comments"))} {self.EL(self.scn.elem(x) for x in o)} '
                      + ('None' if idx is None else f'(Some {coq_list(coq_zlist(i) for i in idx)})') + ')')
        vs = []
        for (w, k), o, n in self.vobjs:
            code, vals = self.view_values(o, n)
            vs.append(f'(mkov {coq_z(w)} {k} {code} {self.EL(vals)})')
        is_ = []
        names = {n: c for n, (c, _, _) in self.vdefs.items()}
        for k, inst in enumerate(self.insts):
            d = inst.__dict__
            if self.key in d:
                fld = f'(Some {coq_z(self.rid.get(id(d[self.key]), -1))})'
            else:
                fld = 'None'
                self.unobservable += 1
            cw = d.get(self.attr)
            cwr = '(Some None)' if cw is None else f'(Some (Some {coq_z(self.wid.get(id(cw), -1))}))'
            cv = []
            for name, val in d.items():
                if name in names:
                    w, kk = self.vid.get(id(val), (-1, 0))
                    cv.append(f'({coq_z(names[name])}, ({coq_z(w)}, {kk}%nat))')
            is_.append(f'(mkoi {coq_z(k)} {fld} {cwr} (Some {coq_list(cv)}))')
        return coq_list(ws), coq_list(vs), coq_list(is_)


class Runner:
    def __init__(self, kind: str, layouts: list, ops: list):
        self.kind, self.layouts, self.ops = kind, layouts, ops
        self.w = World(kind, layouts)
        self.steps: list[tuple[str, str]] = []
        self.classes: list[str] = []
        self.failures: list[dict] = []
        self.cut: Optional[str] = None
        self.executed = 0

    def fail(self, sig: str, what: str):
        self.failures.append({'sig': sig, 'what': what, 'at': self.executed})

    # ---- values ----------------------------------------------------------------------------------------
    def raw_value(self, spec: dict) -> Any:
        return self.w.scn.make_raw(spec)

    def spec(self, n: int, tag: Optional[int] = None) -> dict:
        t = tag if tag is not None else (1 + n % 2 if self.kind == 'tagslinks' else 1)
        return {'t': t, 'n': n, 's': f'z{n % 7}' if self.kind == 'tagslinks' else f'Z{chr(65 + n % 5)}{chr(65 + n % 3)}',
                'k': f'k{n % 4}'}

    # ---- one step -------------------------------------------------------------------------------------
    def run(self) -> 'Runner':
        for k, op in enumerate(self.ops):
            if not self.step(op):
                break
            self.executed = k + 1
        if self.cut is None:
            self.final_monitor()
        return self

    def pick_w(self, sel) -> Optional[tuple[int, Any]]:
        if not self.w.wobjs:
            return None
        return self.w.wobjs[sel % len(self.w.wobjs)]

    def pick_v(self, sel) -> Optional[tuple[tuple[int, int], Any, str]]:
        if not self.w.vobjs:
            return None
        return self.w.vobjs[sel % len(self.w.vobjs)]

    def step(self, op: list) -> bool:
        W = self.w
        kind = op[0]
        before = W.py_dump()
        read_step = is_read_op(op)
        docs_before = W.doc_state() if read_step else None
        exc: Optional[BaseException] = None
        ret = 'RNone'
        coq_op = None
        touched_rep: Optional[int] = None          # python id of the Repeated an edit went to
        refused_assign = False
        expect_dead = False
        cls = kind
        try:
            if kind == 'gw':
                i = op[1] % len(W.insts)
                coq_op = f'(WGetWrapper {i})'
                o = getattr(W.insts[i], W.attr)
                wid = W.reg_wrapper(o, W.field_of[i])
                W.has_wrapper[i] = True
                ret = f'(RW {wid})'
            elif kind == 'gv':
                i = op[1] % len(W.insts)
                vname = sorted(W.vdefs)[op[2] % len(W.vdefs)]
                code, tags, vk = W.vdefs[vname]
                coq_op = f'(WGetView {i} {code} {coq_zlist(tags)} {vk})'
                o = getattr(W.insts[i], vname)
                ret = self.reg_view(o, i, vname)
            elif kind == 'copy':
                h = self.pick_w(op[1])
                if h is None:
                    return True
                wid, o = h
                coq_op = f'(WCopy {wid})'
                c = copy.deepcopy(o)
                if id(c.repeated) in W.rid:          # (not what the code does: the copy wraps a known Repeated)
                    new = W.reg_wrapper(c, -1)
                else:
                    W.rid[id(c.repeated)] = W.next
                    W.keep.append(c.repeated)
                    W.next += 1
                    new = W.reg_wrapper(c, -1)
                ret = f'(RW {new})'
                if c.repeated is o.repeated or getattr(c, '_update_handlers', 0) is getattr(o, '_update_handlers', 1):
                    self.fail(SIG_COPY, f'copy.deepcopy(<wrapper of {len(o)} items>) shares its Repeated or its handler '
                                        f'list with the original')
            elif kind == 'asg':
                i = op[1] % len(W.insts)
                h = self.pick_w(op[2])
                if h is None:
                    return True
                wid, o = h
                coq_op = f'(WAssign {i} {wid})'
                prev = W.cached_wrapper(i)
                cls = 'asg:' + ('self' if prev is o else 'dead' if id(o.repeated) in W.dead else
                                'attached' if any(o.repeated is x.__dict__.get(W.key) for x in W.insts) else 'free')
                refused_assign = True
                setattr(W.insts[i], W.attr, o)
                refused_assign = False
                if prev is not None and prev.repeated is not o.repeated:
                    W.dead.add(id(prev.repeated))
                W.field_of[i] = W.rid.get(id(o.repeated), -1)
                W.has_wrapper[i] = True
            elif kind == 'setv':
                i = op[1] % len(W.insts)
                h = self.pick_v(op[2])
                if h is None:
                    return True
                (vw, vk_), o, vname = h
                code = W.vdefs[vname][0]
                coq_op = f'(WSetView {i} {code} {vw} {vk_})'
                setattr(W.insts[i], vname, o)
            elif kind == 'iaddv':
                i = op[1] % len(W.insts)
                vname = sorted(W.vdefs)[op[2] % len(W.vdefs)]
                code, tags, vk = W.vdefs[vname]
                vals = [self.view_value(vname, self.spec(n, tags[0])) for n in op[3]]
                coq_op = (f'(WIAddView {i} {code} {coq_zlist(tags)} {vk} '
                          f'{W.EL(W.scn.value_elem(vname, v) for v in vals)})')
                inst = W.insts[i]
                tmp = getattr(inst, vname)             # exactly `inst.view += vals`
                self.reg_view(tmp, i, vname)
                tmp = operator.iadd(tmp, vals)
                setattr(inst, vname, tmp)
            elif kind == 'iaddr':
                i = op[1] % len(W.insts)
                vals = [self.raw_value(self.spec(n)) for n in op[2]]
                coq_op = f'(WIAddRaw {i} {W.EL(W.scn.elem(v) for v in vals)})'
                inst = W.insts[i]
                tmp = getattr(inst, W.attr)            # exactly `inst.raw_xs += vals`
                W.reg_wrapper(tmp, W.field_of[i])
                W.has_wrapper[i] = True
                tmp = operator.iadd(tmp, vals)
                setattr(inst, W.attr, tmp)
            elif kind == 'ew':
                h = self.pick_w(op[1])
                if h is None:
                    return True
                wid, o = h
                touched_rep = id(o.repeated)
                expect_dead = touched_rep in W.dead
                sub_op = op[2] if not expect_dead or op[2][0] in EDITS_DEAD else ['append', 555]
                sub, call = self.raw_edit(o, sub_op, expect_dead)
                coq_op = f'(WEdit {wid} {sub})'
                cls = 'ew:' + sub_op[0] + (':dead' if expect_dead else '')
                ret = self.edit_ret(call(), None)
            elif kind == 'ev':
                h = self.pick_v(op[1])
                if h is None:
                    return True
                (vw, vk_), o, vname = h
                wobj = next(x for w_, x in W.wobjs if w_ == vw)
                touched_rep = id(wobj.repeated)
                expect_dead = touched_rep in W.dead
                # on a replaced list only the operations whose refusal is modelled (see WholeField.dead_step)
                sub_op = op[2] if not expect_dead or op[2][0] in EDITS_DEAD + ['iter', 'len'] else ['append', 555]
                sub, call = self.view_edit(o, vname, vk_, sub_op, expect_dead)
                coq_op = f'(WEdit {vw} {sub})'
                cls = 'ev:' + sub_op[0] + (':dead' if expect_dead else '')
                ret = self.edit_ret(call(), vname)
            else:
                raise ValueError(op)
        except Exception as e:  # noqa: BLE001
            if coq_op is None:
                raise
            exc = e
            if kind in ('ew', 'ev', 'iaddv', 'iaddr') and not expect_dead and not c10.is_list_level(e) \
                    and not isinstance(e, NotImplementedError):
                # the token layer refused something the list level does not model: the history ends here
                self.cut = f'{type(e).__name__} in {traceback.extract_tb(e.__traceback__)[-1].name}'
                return False
        code = 0 if exc is None else EXC.get(common.exn_name(exc), 9)
        ws, vs, is_ = W.coq_dump()
        self.steps.append((coq_op, f'(mkwobs {code} {ret if exc is None else "RNone"} {ws} {vs} {is_})'))
        self.classes.append(cls + ('!' + common.exn_name(exc) if exc else ''))
        # ---- monitors (public behaviour)
        after = W.py_dump()
        if kind == 'asg' and exc is not None and refused_assign:
            changed = [n for n in ('w', 'v', 'rep') if {k: v for k, v in after[n].items() if k in before[n]} != before[n]]
            inst = W.insts[op[1] % len(W.insts)]
            if changed:
                self.fail(SIG_REFUSED, f'model.{W.attr} = <wrapper> was refused ({common.exn_name(exc)}) but changed what '
                                       f'the handles show: {changed}')
        if touched_rep is not None:
            for w_, o in W.wobjs:
                if id(o.repeated) != touched_rep and w_ in before['w'] and after['w'][w_] != before['w'][w_]:
                    self.fail(SIG_LEAK, f'{cls}: an edit through one handle changed a list backed by another Repeated')
                    break
        if read_step:
            changed = [n for n in ('w', 'v', 'rep') if {k: v for k, v in after[n].items() if k in before[n]} != before[n]]
            docs_after = W.doc_state()
            if [t for t, _ in docs_after] != [t for t, _ in docs_before]:
                changed.append('printed text')
            elif docs_after != docs_before:
                changed.append('tokens')
            if changed:
                self.fail(SIG_READ, f'{cls} is not an edit but changed what was there before it: '
                                    f'{", ".join({"w": "the items a wrapper shows", "v": "the values a view shows", "rep": "the Repeated a wrapper wraps"}.get(c, c) for c in changed)}')
        return True

    def reg_view(self, o: Any, i: int, vname: str) -> str:
        W = self.w
        if id(o) not in W.vid:
            rw = getattr(o, '_raw_wrapper', None)
            if rw is None:
                W.unobservable += 1
                rw = W.cached_wrapper(i)
            wid = W.reg_wrapper(rw, W.field_of[i]) if rw is not None else -1
            W.has_wrapper[i] = True
            k = None
            hs = getattr(rw, '_update_handlers', None)
            if isinstance(hs, list):
                for n, h in enumerate(hs):
                    if getattr(h, '_raw_indexes', 0) is getattr(o, '_raw_indexes', 1):
                        k = n
            if k is None:
                W.unobservable += 1
                k = W.nviews.get(wid, 0)
            W.nviews[wid] = max(W.nviews.get(wid, 0), k + 1)
            W.vid[id(o)] = (wid, k)
            W.vobjs.append(((wid, k), o, vname))
            W.keep.append(o)
        w, k = W.vid[id(o)]
        return f'(RV {w} {k})'

    def view_value(self, vname: str, spec: dict) -> Any:
        if self.w.vdefs[vname][2] == 'KString':
            return spec['s']
        return self.raw_value(spec)

    def edit_ret(self, r: Any, vname: Optional[str]) -> str:
        W = self.w
        if r is None:
            return '(RL [])'
        kind, val = r
        if kind == 'one':
            return f'(RL [{W.E(W.scn.out_elem(vname, val))}])'
        if kind == 'many':
            return f'(RL {W.EL(W.scn.out_elem(vname, x) for x in val)})'
        return f'(RL [{W.E((0, 0, val))}])'

    def raw_edit(self, o: Any, sub: list, dead: bool):
        W = self.w
        k = sub[0]
        if k == 'append':
            x = self.raw_value(self.spec(sub[1]))
            return f'(RAppend {W.E(W.scn.elem(x))})', lambda: o.append(x)
        if k == 'extend':
            xs = [self.raw_value(self.spec(n)) for n in sub[1]]
            return f'(RExtend {W.EL(W.scn.elem(x) for x in xs)})', lambda: o.extend(xs)
        if k == 'insert':
            x = self.raw_value(self.spec(sub[2]))
            return f'(RInsert {coq_z(sub[1])} {W.E(W.scn.elem(x))})', lambda: o.insert(sub[1], x)
        if k == 'pop':
            return f'(RPop {coq_z(sub[1])})', lambda: ('one', o.pop(sub[1]))
        if k == 'del':
            return f'(RDel (IInt {coq_z(sub[1])}))', lambda: o.__delitem__(sub[1])
        if k == 'clear':
            return '(RClear)', lambda: o.clear()
        if k == 'set':
            x = self.raw_value(self.spec(sub[2]))
            return f'(RSet (IInt {coq_z(sub[1])}) [{W.E(W.scn.elem(x))}])', lambda: o.__setitem__(sub[1], x)
        raise ValueError(sub)

    def view_edit(self, o: Any, vname: str, vk: int, sub: list, dead: bool):
        W = self.w
        k = sub[0]
        tag = W.vdefs[vname][1][0]
        if k == 'append':
            x = self.view_value(vname, self.spec(sub[1], tag))
            return f'(VAppend {vk} {W.E(W.scn.value_elem(vname, x))})', lambda: o.append(x)
        if k == 'extend':
            xs = [self.view_value(vname, self.spec(n, tag)) for n in sub[1]]
            return f'(VExtend {vk} {W.EL(W.scn.value_elem(vname, x) for x in xs)})', lambda: o.extend(xs)
        if k == 'insert':
            x = self.view_value(vname, self.spec(sub[2], tag))
            return f'(VInsert {vk} {coq_z(sub[1])} {W.E(W.scn.value_elem(vname, x))})', lambda: o.insert(sub[1], x)
        if k == 'pop':
            return f'(VPop {vk} {coq_z(sub[1])})', lambda: ('one', o.pop(sub[1]))
        if k == 'del':
            return f'(VDel {vk} (IInt {coq_z(sub[1])}))', lambda: o.__delitem__(sub[1])
        if k == 'clear':
            return f'(VClear {vk})', lambda: o.clear()
        if k == 'set':
            x = self.view_value(vname, self.spec(sub[2], tag))
            return (f'(VSet {vk} (IInt {coq_z(sub[1])}) [{W.E(W.scn.value_elem(vname, x))}])',
                    lambda: o.__setitem__(sub[1], x))
        if k == 'iter':
            return f'(VIter {vk})', lambda: ('many', list(o))
        if k == 'len':
            return f'(VLen {vk})', lambda: ('len', len(o))
        raise ValueError(sub)

    def final_monitor(self):
        """every view read from every model now equals that model's raw list filtered (public API only)"""
        W = self.w
        try:
            served = [getattr(inst, W.attr) for inst in W.insts]
        except Exception as e:  # noqa: BLE001
            self.fail(SIG_STALE, f'reading model.{W.attr} raised {type(e).__name__} at the end of the history')
            return
        for a in range(len(served)):
            for b in range(a + 1, len(served)):
                if served[a] is served[b] or served[a].repeated is served[b].repeated:
                    self.fail(SIG_SHARED, f'two different models serve the same list as their {W.attr} at the end of the '
                                          f'history (a refused or accepted assignment left an accessor on another model\'s list)')
                    return
        for k, inst in enumerate(W.insts):
            try:
                raw = list(getattr(inst, W.attr))
            except Exception as e:  # noqa: BLE001
                self.fail(SIG_STALE, f'reading model.{W.attr} raised {type(e).__name__} at the end of the history')
                return
            for vname, (_, tags, vk) in W.vdefs.items():
                want = [W.scn.out_elem(vname, x if vk == 'KNode' else x.value) for x in raw if W.scn.tag_of(x) in tags]
                try:
                    got = [W.scn.out_elem(vname, x) for x in getattr(inst, vname)]
                except Exception as e:  # noqa: BLE001
                    got = type(e).__name__
                if got != want:
                    self.fail(SIG_STALE, f'model.{vname} differs from model.{W.attr} filtered at the end of the history '
                                         f'({len(want)} matching items in the field, the view shows '
                                         f'{got if isinstance(got, str) else len(got)})')
                    return


def coq_case(r: Runner) -> str:
    init = coq_list(f'({r.w.EL(its)}, {coq_bool(r.w.inter)})' for its in r.w.init_items)
    return f'(mkwcase {init} {coq_list(f"({o}, {b})" for o, b in r.steps)})'


def run_history(kind: str, layouts: list, ops: list) -> Runner:
    return Runner(kind, layouts, ops).run()


# ------------------------------------------------------------------------------------------------------
EDITS_LIVE = ['append', 'extend', 'insert', 'pop', 'del', 'clear', 'set']
EDITS_DEAD = ['append', 'extend', 'insert', 'pop']


def gen_sub(rng, view: bool) -> list:
    k = rng.choice(EDITS_LIVE + (['iter', 'len'] if view else []))
    n = rng.randrange(100, 999)
    if k == 'extend':
        return [k, [rng.randrange(100, 999) for _ in range(rng.choice([1, 2]))]]
    if k in ('insert', 'set'):
        return [k, rng.choice([0, 0, 1, -1, 2, 5, -3]), n]
    if k in ('pop', 'del'):
        return [k, rng.choice([0, -1, 1, 4])]
    if k == 'append':
        return [k, n]
    return [k]


def gen_history(rng, n_macros: int):
    kind = rng.choice(list(KINDS))
    n_inst = rng.choice([2, 2, 3])
    layouts = [gen_layout(rng, kind) for _ in range(n_inst)]
    ops: list = []
    for _ in range(n_macros):
        i = rng.randrange(n_inst)
        m = rng.choice(['views', 'views', 'gw', 'copy_assign', 'copy_assign', 'attached', 'self', 'iaddv', 'iaddr',
                        'edit', 'edit', 'edit', 'copy_edit', 'setv', 'old'])
        if m == 'views':
            for v in rng.sample(range(2), rng.choice([1, 2])):
                ops.append(['gv', i, v])
        elif m == 'gw':
            ops.append(['gw', i])
        elif m == 'copy_assign':
            j = rng.randrange(n_inst)
            ops += [['gw', j], ['copy', -1], ['asg', i, -1]]
            if rng.random() < 0.6:
                ops.append(['gv', i, rng.randrange(2)])
        elif m == 'attached':
            j = (i + 1 + rng.randrange(n_inst - 1)) % n_inst
            ops += [['gw', j], ['asg', i, -1]]
        elif m == 'self':
            ops += [['gw', i], ['asg', i, -1]]
        elif m == 'iaddv':
            ops.append(['iaddv', i, rng.randrange(2), [rng.randrange(100, 999) for _ in range(rng.choice([1, 2]))]])
        elif m == 'iaddr':
            ops.append(['iaddr', i, [rng.randrange(100, 999) for _ in range(rng.choice([1, 2]))]])
        elif m == 'edit':
            if rng.random() < 0.5:
                ops.append(['ew', rng.randrange(50), gen_sub(rng, False)])
            else:
                ops.append(['ev', rng.randrange(50), gen_sub(rng, True)])
        elif m == 'copy_edit':
            ops += [['copy', rng.randrange(50)], ['ew', -1, gen_sub(rng, False)], ['ew', rng.randrange(50), gen_sub(rng, False)]]
        elif m == 'setv':
            ops.append(['setv', i, rng.randrange(50)])
        elif m == 'old':
            ops.append(['asg', i, rng.randrange(50)])
    return kind, layouts, ops


DIRECTED = [
    # two views read, then the field is replaced by a copy of another model's: both views must be rebuilt (C10-m3)
    ('tagslinks', [[1, 2, 1], [2, 1]], [['gv', 0, 0], ['gv', 0, 1], ['gw', 1], ['copy', -1], ['asg', 0, -1],
                                        ['gv', 0, 0], ['gv', 0, 1], ['ev', 2, ['append', 101]], ['ev', 3, ['append', 102]],
                                        ['ev', 0, ['append', 103]], ['ew', 0, ['append', 104]]]),
    ('meta', [[1, 1], [1, 1, 1]], [['gv', 0, 1], ['gv', 0, 0], ['gw', 1], ['copy', -1], ['asg', 0, -1],
                                   ['gv', 0, 0], ['gv', 0, 1], ['ev', 2, ['pop', 0]], ['ev', 3, ['append', 105]]]),
    # a refused assignment (attached wrapper) after views were read, then edits through the target's handles (C19-m5)
    ('tagslinks', [[1, 2], [2, 2, 1]], [['gv', 0, 0], ['gw', 0], ['gw', 1], ['asg', 0, -1], ['gw', 0], ['gv', 0, 0],
                                        ['ew', 0, ['append', 106]], ['ev', 0, ['append', 107]]]),
    ('currencies', [[1], [1, 1]], [['gw', 1], ['asg', 0, -1], ['gw', 0], ['gv', 0, 0], ['ew', 1, ['pop', 0]]]),
    # deep copies of an EMPTY and of a non-empty list, edits on both sides (C11-m10)
    ('tagslinks', [[], [1]], [['gw', 0], ['copy', 0], ['ew', 1, ['append', 108]], ['ew', 0, ['append', 109]],
                              ['gv', 0, 0], ['gw', 1], ['copy', 2], ['ew', 3, ['pop', 0]], ['ew', 2, ['append', 110]]]),
    ('postings', [[], [1, 1]], [['gw', 0], ['copy', 0], ['asg', 1, 1], ['gv', 1, 0], ['ew', 1, ['append', 111]],
                                ['ew', 0, ['append', 112]]]),
    # += through a view and through the raw list, and assigning a view object
    ('tagslinks', [[1], [2]], [['iaddv', 0, 0, [113, 114]], ['iaddr', 0, [115]], ['gv', 0, 0], ['setv', 0, 0],
                               ['gv', 1, 0], ['setv', 0, 1], ['iaddv', 0, 1, [116]]]),
    ('meta', [[1], [1]], [['iaddv', 0, 0, [117]], ['iaddv', 0, 1, [118]], ['iaddr', 1, [119]], ['gv', 1, 0]]),
    # the replaced wrapper: edits are refused, assigning it back is refused
    ('currencies', [[1, 1], [1]], [['gw', 0], ['gv', 0, 0], ['gw', 1], ['copy', 1], ['asg', 0, 2], ['ew', 0, ['append', 120]],
                                   ['ev', 0, ['append', 121]], ['ev', 0, ['iter']], ['asg', 0, 0], ['asg', 1, 0],
                                   ['copy', 0], ['ew', 0, ['pop', 0]], ['ew', 0, ['pop', 7]]]),
]


def run_all(ctx: common.Ctx, n_quick: int = 160, n_thorough: int = 1500, sigs: Optional[set] = None):
    """sigs: the monitor signatures this caller reports (None: all of C10's, not C04's read-step monitor)"""
    ctx.assumptions.append(
        'whole-field assignment (WholeField.v): one repeated field per model instance; a Repeated is described by its '
        'items, whether detach() would accept it and whether its tokens are still in a store (the token layout of an '
        'accepted assignment is C03/C05); on a replaced list only append/insert/extend/pop are given a result '
        '(ValueError from the token store), other mutators are not exercised there; a field that spans the whole store '
        'of its free-standing parent (known finding D15) is outside the invariant')
    n_hist = ctx.scale(n_quick, n_thorough)
    cases, metas = [], []
    for hno in range(-len(DIRECTED), n_hist):
        if hno < 0:
            kind, layouts, ops = DIRECTED[hno + len(DIRECTED)]
        else:
            kind, layouts, ops = gen_history(ctx.rng, ctx.rng.choice([3, 5, 8]))
        try:
            r = run_history(kind, layouts, ops)
        except Exception as e:  # noqa: BLE001
            ctx.fail('corr', 'whole-field-harness', f'the whole-field scenario could not be run: {type(e).__name__}: {e}',
                     {'wholefield': True, 'kind': kind, 'layouts': layouts, 'ops': ops,
                      'trace': traceback.format_exc()[-1500:]})
            continue
        ctx.count('whole_field_histories')
        ctx.count('whole_field_steps', len(r.steps))
        ctx.case({'wholefield': kind, 'layouts': layouts, 'ops': r.classes[:12]},
                 nontrivial=len(r.steps) >= 3 and any(c.startswith('asg') or c == 'copy' for c in r.classes))
        for c in r.classes:
            ctx.dist('wf-op=' + c)
        if r.w.unobservable:
            ctx.count('private_state_unobservable', r.w.unobservable)
        if r.cut:
            ctx.count('whole_field_histories_cut_by_token_layer_exception')
        if sigs is not None:
            ctx.count('read_steps_monitored', sum(1 for o in ops[:r.executed] if is_read_op(o)))
        for f in r.failures:
            if (f['sig'] not in sigs) if sigs is not None else (f['sig'] == SIG_READ):
                continue
            ctx.monitor_failure(f['sig'], f['what'], {'wholefield': True, 'kind': kind, 'layouts': layouts,
                                                      'ops': ops[:max(f['at'] + 1, 1)] if f['sig'] != SIG_STALE else ops})
        if r.steps:
            cases.append(coq_case(r))
            metas.append((kind, layouts, ops))
    bad = ctx.run_coq_cases('wholefield', PREAMBLE, 'wcase', 'check_case', cases, chunk=20)
    ctx.count('whole_field_traces_validated_against_impl', len(cases) - len(bad))
    ctx.count('traces_validated_against_impl', len(cases) - len(bad))
    names = {1: 'the code before fixes/repeated-property-set-keeps-views.patch (cached views kept)',
             2: 'drop_views_of dropping only the first stale view', 3: 'the cache replaced before the refusal',
             4: 'the deep copy of an empty list sharing the original Repeated', 5: '`view += xs` raising after the extend'}
    for i in bad[:3]:
        kind, layouts, ops = metas[i]
        small = shrink(ctx, kind, layouts, ops)
        like = [names[n] for n in names
                if not ctx.run_coq_cases('variant', PREAMBLE, 'wcase', f'check_v{n}', [coq_case(run_history(*small))])]
        ctx.fail('corr', 'whole-field-correspondence',
                 'WholeField.v and the implementation disagree on the caches / handler lists / what a handle shows after a '
                 'history of whole-field assignments' + (f' (the implementation behaves like: {like[0]})' if like else ''),
                 {'wholefield': True, 'kind': small[0], 'layouts': small[1], 'ops': small[2]})


def disagrees(ctx, kind, layouts, ops) -> bool:
    try:
        r = run_history(kind, layouts, ops)
    except Exception:  # noqa: BLE001
        return False
    if not r.steps:
        return False
    return bool(ctx.run_coq_cases('wfshrink', PREAMBLE, 'wcase', 'check_case', [coq_case(r)]))


def shrink(ctx, kind, layouts, ops, budget: int = 20):
    cur = list(ops)
    n = 0
    lo, hi = 1, len(cur)
    while lo < hi and n < budget:
        mid = (lo + hi) // 2
        n += 1
        if disagrees(ctx, kind, layouts, cur[:mid]):
            hi = mid
        else:
            lo = mid + 1
    cur = cur[:hi]
    i = 0
    while i < len(cur) - 1 and n < budget:
        cand = cur[:i] + cur[i + 1:]
        n += 1
        if disagrees(ctx, kind, layouts, cand):
            cur = cand
        else:
            i += 1
    return kind, layouts, cur


def replay(ctx: common.Ctx, w: dict) -> int:
    r = run_history(w['kind'], w['layouts'], w['ops'])
    print(f'whole-field scenario {w["kind"]} layouts {w["layouts"]}')
    for op, c in zip(w['ops'], r.classes):
        print('  ', json.dumps(op), '->', c)
    for x in r.failures:
        print('monitor:', x['sig'], '-', x['what'])
    bad = ctx.run_coq_cases('wfreplay', PREAMBLE, 'wcase', 'check_case', [coq_case(r)]) if r.steps else []
    print('model/implementation agree' if not bad else 'model/implementation DISAGREE')
    return 1 if (r.failures or bad) else 0
