"""Cheap invariants of ANY document state that the unchanged code keeps after every accepted call, whatever property
a check is about. A property check calls `problems(root)` after its own steps so that a regression which first shows as
a broken neighbour invariant (a tree that is no longer a tree of its tokens, a cached view that no longer is the filtered
raw list, cached positions that no longer match the text) is reported by THAT check with the history that produced it,
instead of only by the check of the neighbouring property. On correct code none of these ever fires (each is the
statement of C05 / C10 / C08, which hold in every reachable state), so they cannot raise a false alarm; they are not
demanded of states a known finding produces (callers pass `wf=False` there).

problems(root) -> list of (kind, text); kind in {'wf', 'views', 'positions'}."""
from __future__ import annotations

from typing import Any

from harness import treewalk


def _mods():
    from autobean_refactor import models
    from autobean_refactor.models import base
    from autobean_refactor.models.internal import value_properties as vp
    return models, base, vp


def prime(root) -> int:
    """Reads every public list-like attribute of every model once, so that the value / filtered views exist (and are
    cached on their models) BEFORE the calls under test: a view that is only built afterwards is always right. Reading
    is not an edit. Returns the number of views read."""
    models, base, vp = _mods()
    n = 0
    for path, m in list(treewalk.walk(root)):
        if not isinstance(m, base.RawTreeModel):
            continue
        for name in dir(type(m)):
            if name.startswith('_'):
                continue
            attr = getattr(type(m), name, None)
            if callable(attr) and not isinstance(attr, property) and not hasattr(attr, '__get__'):
                continue
            try:
                v = getattr(m, name)
                if isinstance(v, vp.RepeatedValueWrapper):
                    list(v)
                    n += 1
            except Exception:
                pass
    return n


def view_problems(root) -> list[str]:
    """every cached value/filtered view of every model equals the raw list filtered by the view's type (by identity)"""
    models, base, vp = _mods()
    out: list[str] = []
    for path, m in treewalk.walk(root):
        if not isinstance(m, base.RawTreeModel):
            continue
        for name, v in list(getattr(m, '__dict__', {}).items()):
            if not isinstance(v, vp.RepeatedValueWrapper):
                continue
            raw = getattr(v, '_raw_wrapper', None)
            T = getattr(v, '_raw_type', None)
            idx = getattr(v, '_raw_indexes', None)
            if raw is None or T is None or not isinstance(idx, list):
                continue          # private names changed: not observable, not an alarm
            try:
                items = list(raw)
            except Exception as e:
                out.append(f'{path}.{name}: the raw list behind the cached view cannot be read ({type(e).__name__})')
                continue
            want = [i for i, x in enumerate(items) if isinstance(x, T)]
            if list(idx) != want:
                out.append(f'{path}.{name}: cached view addresses raw positions {list(idx)[:12]}, the elements of its type are at {want[:12]} '
                           f'(raw list of {len(items)})')
    return out


def position_problems(root) -> list[str]:
    """get_position / get_index of every token = what the concatenated text says (sampled: every k-th token)"""
    store = getattr(root, 'token_store', None)
    if store is None:
        return []
    toks = list(store)
    out: list[str] = []
    line = col = 0
    step = max(1, len(toks) // 60)
    for k, t in enumerate(toks):
        if k % step == 0:
            try:
                p = store.get_position(t)
                i = store.get_index(t)
            except Exception as e:
                return [f'get_position/get_index of token {k} raised {type(e).__name__}: {e}']
            if (p.line, p.column) != (line, col) or i != k:
                return [f'token {k} ({t.raw_text!r}) is reported at {(p.line, p.column)} / index {i}; the text puts it at {(line, col)} / index {k}']
        s = t.raw_text
        n = s.count('\n')
        if n:
            line += n
            col = len(s) - s.rfind('\n') - 1
        else:
            col += len(s)
    return out


def problems(root, *, wf: bool = True, views: bool = True, positions: bool = True) -> list[tuple[str, str]]:
    out: list[tuple[str, str]] = []
    if wf:
        try:
            out += [('wf', p) for p in treewalk.wf_problems(root)[:2]]
        except Exception as e:
            out.append(('wf', f'the tree cannot be walked: {type(e).__name__}: {e}'))
    if views:
        try:
            out += [('views', p) for p in view_problems(root)[:2]]
        except Exception as e:
            out.append(('views', f'the views cannot be read: {type(e).__name__}: {e}'))
    if positions:
        try:
            out += [('positions', p) for p in position_problems(root)[:1]]
        except Exception as e:
            out.append(('positions', f'positions cannot be read: {type(e).__name__}: {e}'))
    return out
