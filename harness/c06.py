"""C06 - see DESIGN.md §7. Monitors in doc_checks.py; theorems in coq/theories/properties/C06.v.

The lexical half (coq/theories/TokensStable.v: extent stability of every recogniser, blanks and ", " are
boundaries, separated printings scan back) is built and audited through properties/C06.v's imports; its
recognisers are tied to lark / CPython re by `./check C12` (harness/c12.py, continuation_cases)."""
from harness import common, doc_checks, tree_check


def run(ctx: common.Ctx):
    tree_check.setup(ctx, 'C06')
    ctx.assumptions += ['C06_extent_stable_*/C06_separated_relex are about the recognisers lexr_K of Tokens.v with the kind '
                        'sequence given (tied to lark and CPython re on lexeme + following text by ./check C12); which terminal '
                        'lark tries at a position (LALR state, priorities, longest match) is an oracle exercised by the monitor']
    doc_checks.run_c06(ctx)
    doc_checks.run_c06_payee_grid(ctx)
    doc_checks.run_c06_whole_field(ctx)
    doc_checks.run_c06_stale_views(ctx)
    doc_checks.run_c06_glued_removals(ctx)
    doc_checks.run_c06_glued_list_removals(ctx)
    doc_checks.run_c06_constructed_customs(ctx)
    tree_check.correspondence(ctx, 'C06')


def search(ctx: common.Ctx):
    doc_checks.run_c06(ctx)
    doc_checks.run_c06_payee_grid(ctx)
    doc_checks.run_c06_whole_field(ctx)
    doc_checks.run_c06_stale_views(ctx)
    doc_checks.run_c06_glued_removals(ctx)
    doc_checks.run_c06_glued_list_removals(ctx)
    doc_checks.run_c06_constructed_customs(ctx)


def replay(ctx, path):
    return tree_check.replay(ctx, path, 'C06')
