"""C06 - see DESIGN.md §7. Monitors in doc_checks.py; theorems in coq/theories/properties/C06.v."""
from harness import common, doc_checks, tree_check


def run(ctx: common.Ctx):
    tree_check.setup(ctx, 'C06')
    doc_checks.run_c06(ctx)
    doc_checks.run_c06_payee_grid(ctx)
    doc_checks.run_c06_whole_field(ctx)
    tree_check.correspondence(ctx, 'C06')


def search(ctx: common.Ctx):
    doc_checks.run_c06(ctx)
    doc_checks.run_c06_payee_grid(ctx)
    doc_checks.run_c06_whole_field(ctx)


def replay(ctx, path):
    return tree_check.replay(ctx, path, 'C06')
