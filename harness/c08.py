"""C08 - reported line/column positions always match the printed text."""
from harness import common, store_check

SIGS = ('C08',)


def run(ctx: common.Ctx):
    ctx.rule = ('seeded store histories with a text update after every second operation (texts with 0..2 line breaks, '
                'empty texts), load factor 2..16; after every step get_position/get_index of every token are compared '
                'with the (line, column)/ordinal computed from the concatenated text; non-trivial = >= 2 blocks or a '
                'refusal; plus value/raw_text assignments on parsed documents')
    ctx.assumptions += ['positions are 0-based (Position() starts at (0,0)); a line break is "\\n" only, as _token_size counts']
    ctx.require_coq(['properties/C08'], extra_targets=['StoreRun'])
    store_check.run_store(ctx, SIGS, 50, 500, text_heavy=True)
    store_check.run_documents(ctx, SIGS)


def search(ctx: common.Ctx):
    store_check.run_store(ctx, SIGS, 50, 500, text_heavy=True)
    store_check.run_documents(ctx, SIGS)


def replay(ctx, path):
    return store_check.replay(ctx, path, SIGS)
