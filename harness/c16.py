"""C16 - the editor writes exactly the edited files, exactly, and nothing else.

tie            : editor.py is read with `ast`: which `newline=` every open/read_text/write_text uses and
                 whether os.makedirs is guarded against dirname == '' (the two parameters of Editor.v).
correspondence : the real Editor runs in a fresh directory under build/C16 on a generated scenario; the
                 model (Editor.v instantiated in EditorRun.v) is evaluated by vm_compute on the same
                 scenario and must give the same exception class, the same keys of the yielded dict, the
                 same sequence of file-system calls and the same final contents of every file.
monitors       : the property's own statement, from bytes / inode / mtime_ns / the log of FS calls.
"""
from __future__ import annotations

import ast
import re
import builtins
import contextlib
import glob as glob_mod
import io
import json
import os
import pathlib
import shutil
import tempfile

from harness import common

PREAMBLE = 'From AB Require Import Prelude Editor EditorRun.'
MAIN = 'main.bean'


def cabs(cwd: str, p) -> str:
    """The file a spelling denotes (no symlinks in the generated trees): abspath, with '//x' == '/x' as on Linux."""
    x = os.path.normpath(os.path.join(cwd, os.fspath(p)))
    return x[1:] if x.startswith('//') else x


class BodyRaised(Exception):
    pass


class CallLimit(BaseException):
    """The editor made more file-system calls than any terminating run on <= 9 files can need."""


MAX_CALLS = 400


# ------------------------------------------------------------------------------------------------
# tie: the two parameters of the model are read off the source
def behaviour_config(ctx) -> tuple[bool, bool, bool] | None:
    """The three facts the model variant depends on, OBSERVED on the real editor (robust against refactoring of
    editor.py): (newline translation on read/write, os.makedirs guarded against dirname == '', include directory
    glob-escaped). Three tiny probes in a scratch directory."""
    from autobean_refactor import editor as editor_lib
    top = os.path.realpath(tempfile.mkdtemp(prefix='cfg', dir=str(ctx.scratch)))
    old = os.getcwd()
    try:
        ed = editor_lib.Editor(_parser())
        # (1) CRLF file, one edit: do the other line ends survive?
        with open(os.path.join(top, 'crlf.bean'), 'wb') as f:
            f.write(b'2000-01-01 open Assets:A\r\n2000-01-02 open Assets:B\r\n')
        with ed.edit_file(os.path.join(top, 'crlf.bean')) as file:
            file.raw_directives[0].raw_account.value = 'Assets:C'
        data = open(os.path.join(top, 'crlf.bean'), 'rb').read()
        translate = data != b'2000-01-01 open Assets:C\r\n2000-01-02 open Assets:B\r\n'
        # (2) bare root: is os.makedirs('') reached?
        with open(os.path.join(top, 'bare.bean'), 'wb') as f:
            f.write(b'2000-01-01 open Assets:A\n')
        os.chdir(top)
        log: list = []
        guarded = True
        try:
            with fs_log(log):
                with ed.edit_file_recursive('bare.bean') as files:
                    pass
        except FileNotFoundError:
            guarded = False
        if any(x[0] == 'makedirs' and x[1] == '' for x in log):
            guarded = False
        os.chdir(old)
        # (3) directory with glob magic in its name and a look-alike sibling
        os.makedirs(os.path.join(top, 'x[ab]'))
        os.makedirs(os.path.join(top, 'xa'))
        with open(os.path.join(top, 'x[ab]', 'g.bean'), 'wb') as f:
            f.write(b'include "h.bean"\n')
        for d in ('x[ab]', 'xa'):
            with open(os.path.join(top, d, 'h.bean'), 'wb') as f:
                f.write(b'2000-01-01 open Assets:A\n')
        try:
            with ed.edit_file_recursive(os.path.join(top, 'x[ab]', 'g.bean')) as files:
                keys = {os.path.relpath(k, top) for k in files}
            escaped = keys == {'x[ab]/g.bean', 'x[ab]/h.bean'}
        except ValueError:
            escaped = False
        return (translate, guarded, escaped)
    except Exception as e:
        ctx.notes.append(f'behavioural probe of editor.py failed: {type(e).__name__}: {e}')
        return None
    finally:
        os.chdir(old)
        shutil.rmtree(top, ignore_errors=True)


def source_config(ctx) -> tuple[bool, bool, bool] | None:
    """Read off the source when its shape is the one this reader knows (a note, cross-checked); otherwise - e.g. after
    helpers were extracted - observed on the running editor. Fails the tie only when neither is conclusive or when
    they contradict each other."""
    why: list[str] = []
    by_ast = _source_config_ast(why)
    by_run = behaviour_config(ctx)
    if by_run is None and by_ast is None:
        ctx.fail('tie', 'C16:tie', 'cannot determine newline mode / makedirs guard / glob escaping of editor.py: ' + '; '.join(why))
        return None
    if by_run is not None and by_ast is not None and by_run != by_ast:
        ctx.fail('tie', 'C16:tie', f'editor.py reads as (translate, guard, escape) = {by_ast} but behaves as {by_run}')
        return by_run
    if by_ast is None:
        ctx.notes.append('editor.py no longer has the shape the source reader knows (' + '; '.join(why) + '): newline mode, '
                         'makedirs guard and glob escaping were observed on the running editor instead')
    return by_run if by_run is not None else by_ast


class _Why:
    def __init__(self, why):
        self.why = why

    def fail(self, kind, sig, what, witness=None):
        self.why.append(what)


def _source_config_ast(why: list[str]) -> tuple[bool, bool, bool] | None:
    ctx = _Why(why)
    src_path = common.REPO / 'autobean_refactor' / 'editor.py'
    try:
        tree = ast.parse(src_path.read_text())
    except Exception as e:  # fail closed
        ctx.fail('tie', 'C16:tie', f'cannot parse {src_path}: {e}')
        return None
    cls = next((n for n in tree.body if isinstance(n, ast.ClassDef) and n.name == 'Editor'), None)
    fns = {n.name: n for n in (cls.body if cls else []) if isinstance(n, ast.FunctionDef)}
    if 'edit_file' not in fns or 'edit_file_recursive' not in fns or \
            not any(isinstance(n, ast.FunctionDef) and n.name == '_get_include_paths' for n in tree.body):
        ctx.fail('tie', 'C16:tie', 'editor.py no longer defines Editor.edit_file / edit_file_recursive / '
                                   '_get_include_paths')
        return None
    newlines = []           # (is_write, newline value or 'DEFAULT')
    parents = {}
    for fn in fns.values():
        for node in ast.walk(fn):
            for ch in ast.iter_child_nodes(node):
                parents[ch] = node
    guard = None
    n_makedirs = 0
    for name in ('edit_file', 'edit_file_recursive'):
        for node in ast.walk(fns[name]):
            if not isinstance(node, ast.Call):
                continue
            f = node.func
            fname = f.id if isinstance(f, ast.Name) else f.attr if isinstance(f, ast.Attribute) else None
            if fname in ('open', 'read_text', 'write_text'):
                nl = 'DEFAULT'
                for kw in node.keywords:
                    if kw.arg == 'newline':
                        nl = kw.value.value if isinstance(kw.value, ast.Constant) else 'UNKNOWN'
                if fname == 'open' and isinstance(f, ast.Name) and len(node.args) > 5:
                    nl = 'UNKNOWN'
                newlines.append(nl)
            if fname in ('read_bytes', 'write_bytes'):
                newlines.append('')
            if fname == 'makedirs':
                n_makedirs += 1
                arg = ast.dump(node.args[0]) if node.args else ''
                g, cur = False, node
                while cur in parents:
                    cur = parents[cur]
                    if isinstance(cur, (ast.If, ast.IfExp)):
                        t = cur.test
                        if isinstance(t, ast.NamedExpr):
                            t = t.target
                        if ast.dump(t) == arg or (isinstance(t, ast.Compare) and ast.dump(t.left) == arg):
                            g = True
                        else:
                            g = 'UNKNOWN'
                guard = g if guard is None or guard == g else 'UNKNOWN'
    vals = {('DEFAULT' if v is None else v) for v in newlines}
    if not newlines or 'UNKNOWN' in vals or not vals <= {'DEFAULT', ''} or len(vals) != 1:
        ctx.fail('tie', 'C16:tie', f'cannot tell the newline mode of the file accesses in editor.py: {sorted(map(str, vals))}')
        return None
    if n_makedirs != 1 or guard == 'UNKNOWN':
        ctx.fail('tie', 'C16:tie', 'cannot tell whether os.makedirs in edit_file_recursive is guarded')
        return None
    esc = glob_dir_escaped(next(n for n in tree.body if isinstance(n, ast.FunctionDef) and n.name == '_get_include_paths'))
    if esc is None:
        ctx.fail('tie', 'C16:tie', 'cannot tell whether the directory part of the include pattern is glob-escaped '
                                   'in _get_include_paths')
        return None
    return (vals == {'DEFAULT'}, bool(guard), esc)


def glob_dir_escaped(fn: ast.FunctionDef):
    """Is the first argument of os.path.join(...) inside the glob.glob(...) call wrapped in glob.escape?"""
    assigned = {}
    for node in ast.walk(fn):
        if isinstance(node, ast.Assign) and len(node.targets) == 1 and isinstance(node.targets[0], ast.Name):
            assigned[node.targets[0].id] = node.value

    def name_of(call):
        f = call.func
        return f.id if isinstance(f, ast.Name) else f.attr if isinstance(f, ast.Attribute) else None

    def resolve(e, depth=0):
        while isinstance(e, ast.Name) and e.id in assigned and depth < 5:
            e, depth = assigned[e.id], depth + 1
        return e
    found = None
    for node in ast.walk(fn):
        if isinstance(node, ast.Call) and name_of(node) in ('glob', 'iglob') and node.args:
            pat = resolve(node.args[0])
            if not (isinstance(pat, ast.Call) and name_of(pat) == 'join' and len(pat.args) == 2):
                return None
            d = resolve(pat.args[0])
            if isinstance(d, ast.Call) and name_of(d) == 'escape' and len(d.args) == 1 \
                    and isinstance(resolve(d.args[0]), ast.Call) and name_of(resolve(d.args[0])) == 'dirname':
                this = True
            elif isinstance(d, ast.Call) and name_of(d) == 'dirname':
                this = False
            else:
                return None
            if found is not None and found != this:
                return None
            found = this
    return found


# ------------------------------------------------------------------------------------------------
# scenarios
POOL = ['a.bean', 'b.bean', 'inc/c.bean', 'inc/d.bean', 'inc/deep/e.bean', 'other/f.bean']
# directories whose names contain glob magic, with look-alike siblings an unescaped pattern would match
MAGIC_POOL = ['x[ab]/g.bean', 'x[ab]/h.bean', 'xa/h.bean', 'xb/g.bean', 'led[2020]/i.bean', 'led[2020]/j.bean',
              'st*r/k.bean', 'star/k.bean', 'q?/l.bean', 'qz/l.bean', 'inc/[x]/m.bean', 'inc/x/m.bean']
MAGIC = set('*?[')
# (cwd relative to the tree, root spelling; {D} = absolute path of the tree, {N} = its basename)
SPELLINGS = [
    ('.', 'main.bean', 'bare'), ('.', './main.bean', 'bare'), ('.', 'inc/../main.bean', 'bare'),
    ('.', '{D}/main.bean', 'abs'), ('.', '{D}/inc/../main.bean', 'abs'), ('.', '{D}//main.bean', 'abs'),
    ('..', '{N}/main.bean', 'rel'), ('..', './{N}//main.bean', 'rel'), ('..', '{N}/inc/deep/../../main.bean', 'rel'),
    ('inc', '../main.bean', 'rel'), ('inc', '{D}/main.bean', 'abs'), ('inc/deep', '../../main.bean', 'rel'),
    ('..', '{D}/main.bean', 'abs'),
    ('.', '/{D}/main.bean', 'abs'),                       # '//verif/...': two leading slashes
    ('.', 'nodir/../main.bean', 'unresolvable'),          # the OS cannot walk through nodir; normpath drops it
    ('inc', '{D}/nodir/../main.bean', 'unresolvable'),
]


def gen_text(rng, idx: int, patterns: list[str], eol_mode: str, garbage: bool) -> str:
    if garbage:
        return '2000-01-01 open\n???\n'
    lines = []
    if rng.random() < 0.5:
        lines.append(f'; file {idx}')
    if rng.random() < 0.3:
        lines.append('')
    lines.append(f'2000-01-01 open Assets:F{idx}:Acct')
    pats = list(patterns)
    rng.shuffle(pats)
    for p in pats:
        # the blank after the keyword is optional in the grammar: include"x.bean" and include<TAB>"x.bean" are includes too
        lines.append('include' + rng.choice([' ', ' ', ' ', ' ', '', '\t']) + f'"{p}"')
        if rng.random() < 0.2:
            lines.append('')
    lines.append(f'2000-01-02 * "narr{idx}"')
    lines.append(f'  Assets:F{idx}:Other  1.00 USD ; posting')
    lines.append('  Equity:Open')
    if rng.random() < 0.4:
        lines.append('; end')
    out = []
    for i, ln in enumerate(lines):
        if i == len(lines) - 1 and rng.random() < 0.12:
            out.append(ln)
            break
        eol = {'lf': '\n', 'crlf': '\r\n'}.get(eol_mode) or rng.choice(['\n', '\r\n'])
        out.append(ln + eol)
    return ''.join(out)


def _seg_match(pat: list[str], segs: list[str]) -> bool:
    import fnmatch
    if not pat:
        return not segs
    if pat[0] == '**':
        if len(pat) == 1:
            return True
        return any(_seg_match(pat[1:], segs[i:]) for i in range(len(segs)))
    return bool(segs) and not (segs[0].startswith('.') and not pat[0].startswith('.')) \
        and fnmatch.fnmatchcase(segs[0], pat[0]) and _seg_match(pat[1:], segs[1:])


def would_match(rels: list[str], here: str, pat: str) -> bool:
    """Generator-side approximation of glob (only used to avoid writing patterns that match nothing)."""
    if pat.startswith('{D}/'):
        here, pat = '', pat[4:]
    full = os.path.normpath(os.path.join(glob_mod.escape(here), pat))
    if full.startswith('..'):
        return False
    return any(_seg_match(full.split('/'), r.split('/')) for r in rels)


def gen_scenario(rng, force: dict | None = None) -> dict:
    force = force or {}
    n = rng.choice([0, 1, 2, 3, 4, 5, 6])
    if rng.random() < 0.3:
        k = rng.choice([1, 2, 3, 4])
        rels = [MAIN] + rng.sample(MAGIC_POOL, k) + rng.sample(POOL, min(n, 6 - k))
    else:
        rels = [MAIN] + rng.sample(POOL, n)
    dirs = sorted({os.path.dirname(r) for r in rels} | {'inc', 'inc/deep'})
    # include patterns, written relative to the including file's directory
    incs: dict[str, list[str]] = {r: [] for r in rels}
    unmatched = rng.random() < 0.04
    for r in rels:
        here = os.path.dirname(r)
        k = rng.choice([0, 1, 1, 2, 3]) if r == MAIN else rng.choice([0, 0, 1, 1, 2])
        for _ in range(k):
            kind = rng.random()
            if kind < 0.5 and len(rels) > 1:
                t = rng.choice(rels)            # may be itself or main: cycles
                p = glob_mod.escape(os.path.relpath(t, here or '.'))     # a literal file name, as a user must write it
                if rng.random() < 0.25:
                    p = './' + p
                if rng.random() < 0.15 and here:
                    p = '../' + os.path.basename(here) + '/' + p
                elif rng.random() < 0.12:
                    p = '{D}/' + glob_mod.escape(t)          # an absolute include ({D} = the tree, filled in at run time)
            else:
                p = rng.choice(['*.bean', '?.bean', '**/*.bean', 'inc/*.bean', 'inc/**/*.bean', '[a-c].bean',
                                '../*.bean', 'deep/*.bean', '../inc/*.bean', './*.bean', 'inc/[cd].bean'])
            if not would_match(rels, here, p):
                continue
            incs[r].append(p)
    if unmatched:
        incs[rng.choice(rels)].append('nomatch*.bean')
    garbage = rng.choice(rels) if rng.random() < 0.04 else None
    empty = rng.choice(rels[1:]) if len(rels) > 1 and rng.random() < 0.12 else None     # an existing empty file
    if empty:
        incs[empty] = []
    eol_global = rng.choice(['lf', 'crlf', 'per-file', 'per-file'])
    files, eols = {}, {}
    for i, r in enumerate(rels):
        em = eol_global if eol_global != 'per-file' else rng.choice(['lf', 'crlf', 'crlf', 'mixed'])
        eols[r] = em
        files[r] = '' if r == empty and r != garbage else gen_text(rng, i, incs[r], em, r == garbage)
    cwd, root, kind = rng.choice(SPELLINGS)
    scn = {'mode': 'rec' if rng.random() < 0.8 else 'single', 'files': files, 'dirs': dirs, 'incs': incs,
           'cwd': cwd, 'root': root, 'spelling': kind, 'idx': {r: i for i, r in enumerate(rels)},
           'edits': {}, 'removes': [], 'adds': [], 'rekeys': [], 'raise': None}
    scn.update(force)
    # the body: which entries are edited / removed / added, does it raise
    for r in rels:
        x = rng.random()
        if x < 0.35:
            scn['edits'][r] = rng.choice(['account', 'narration', 'account', 'noop', 'empty'])
        elif x < 0.45 and r != MAIN and scn['mode'] == 'rec':
            scn['removes'].append(r)
        if scn['mode'] == 'rec' and r not in scn['removes'] and rng.random() < 0.15:
            scn['rekeys'].append([r, rng.choice(['abs', 'dot', 'dotdot'])])
    if scn['mode'] == 'rec':
        for j in range(rng.choice([0, 0, 1, 1, 2])):
            suffix = rng.choice([f'n{j}.bean', f'newdir/n{j}.bean', f'inc/n{j}.bean', f'new/deep/n{j}.bean'] * 4 +
                                ['inc', 'main.bean/x.bean', 'main.bean/sub/x.bean', 'inc/deep'])   # something in the way
            eol = rng.choice(['\n', '\r\n'])
            scn['adds'].append([suffix, '' if rng.random() < 0.35 else
                                f'; created {j}{eol}2000-01-03 open Assets:New{j}{eol}'])
    if rng.random() < 0.2:
        scn['raise'] = rng.choice(['before', 'after'])
    # bystanders: files next to the ledgers that no include reaches under glob rules (dot-files and files in
    # dot-directories are not matched by * / **; '<ledger>.tmp', '<ledger>~' are not named by anything) - they
    # must not be visited, parsed, written, renamed or removed
    scn['bystanders'] = {}
    if rng.random() < 0.6:
        cands = ['.hidden.bean', 'inc/.draft.bean', '.trash/old.bean', 'inc/deep/.x.bean'] + \
                [r + '.tmp' for r in rels] + [r + '~' for r in rels[:2]]
        for b in rng.sample(cands, rng.choice([1, 2, 3])):
            if b not in files:
                scn['bystanders'][b] = f'2000-02-02 open Assets:Bystander{len(scn["bystanders"])}\n'
    return scn


def corpus() -> list[dict]:
    base = {'dirs': ['', 'inc', 'inc/deep'], 'edits': {}, 'removes': [], 'adds': [], 'rekeys': [], 'raise': None, 'mode': 'rec',
            'cwd': '.', 'root': '{D}/main.bean', 'spelling': 'abs'}
    out = []

    def mk(files, incs, **kw):
        s = dict(base)
        s.update({'files': files, 'incs': incs, 'idx': {r: i for i, r in enumerate(files)}})
        s.update(kw)
        out.append(s)

    m = '2000-01-01 open Assets:F0:Acct\n2000-01-02 * "narr0"\n  Assets:F0:Other  1.00 USD\n  Equity:Open\n'
    mk({MAIN: m}, {MAIN: []}, edits={MAIN: 'account'}, cwd='.', root='main.bean', spelling='bare')
    mk({MAIN: m}, {MAIN: []}, edits={MAIN: 'account'}, cwd='.', root='main.bean', spelling='bare', mode='single')
    mk({MAIN: m.replace('\n', '\r\n')}, {MAIN: []}, edits={MAIN: 'account'})
    mk({MAIN: m.replace('\n', '\r\n')}, {MAIN: []}, edits={MAIN: 'narration'}, mode='single')
    # cycle + diamond + glob overlapping a direct include
    fs = {MAIN: 'include "a.bean"\ninclude "b.bean"\ninclude "inc/*.bean"\n2000-01-01 open Assets:F0:Acct\n',
          'a.bean': 'include "inc/c.bean"\ninclude "main.bean"\n2000-01-01 open Assets:F1:Acct\n',
          'b.bean': 'include "./inc/c.bean"\ninclude "b.bean"\n2000-01-01 open Assets:F2:Acct\n',
          'inc/c.bean': 'include "../a.bean"\ninclude "*.bean"\n2000-01-01 open Assets:F3:Acct\n',
          'inc/d.bean': '2000-01-01 open Assets:F4:Acct\r\n; x\r\n'}
    incs = {MAIN: ['a.bean', 'b.bean', 'inc/*.bean'], 'a.bean': ['inc/c.bean', 'main.bean'],
            'b.bean': ['./inc/c.bean', 'b.bean'], 'inc/c.bean': ['../a.bean', '*.bean'], 'inc/d.bean': []}
    mk(fs, incs, edits={'inc/c.bean': 'account', 'inc/d.bean': 'account'}, removes=['b.bean'],
       adds=[['new/n0.bean', '; created\n']], cwd='..', root='{N}/main.bean', spelling='rel')
    mk(fs, incs, edits={'a.bean': 'account'}, removes=['inc/d.bean'], **{'raise': 'after'})
    mk(fs, incs, edits={'a.bean': 'account'}, removes=['a.bean'.replace('a', 'b')], adds=[['n0.bean', '; created\n']],
       cwd='.', root='./main.bean', spelling='bare')
    # re-keying: entries removed and re-added under another spelling of the same file
    mk(fs, incs, edits={'a.bean': 'account'}, rekeys=[['a.bean', 'abs'], ['inc/d.bean', 'dot'], ['main.bean', 'dotdot']],
       cwd='.', root='main.bean', spelling='bare')
    mk(fs, incs, rekeys=[['inc/c.bean', 'abs'], ['b.bean', 'dotdot']], cwd='..', root='{N}/main.bean', spelling='rel')
    # empty models: a new placeholder entry, an existing empty file, a file edited down to nothing
    em = {MAIN: 'include "e.bean"\ninclude "a.bean"\n' + '2000-01-01 open Assets:F0:Acct\n', 'e.bean': '',
          'a.bean': '2000-01-01 open Assets:F2:Acct'}
    mk(em, {MAIN: ['e.bean', 'a.bean'], 'e.bean': [], 'a.bean': []}, edits={'a.bean': 'empty', 'e.bean': 'account'},
       adds=[['2024.bean', ''], ['new/p.bean', '']], cwd='.', root='main.bean', spelling='bare')
    mk(em, {MAIN: ['e.bean', 'a.bean'], 'e.bean': [], 'a.bean': []}, adds=[['2024.bean', '']], rekeys=[['e.bean', 'abs']])
    # directories with glob magic in their names
    o = '2000-01-01 open Assets:F%d:Acct\n'
    mg = {MAIN: 'include "x[[]ab]/g.bean"\ninclude "led[[]2020]/i.bean"\ninclude "st[*]r/k.bean"\ninclude "q[?]/l.bean"\n' + o % 0,
          'x[ab]/g.bean': 'include "h.bean"\n' + o % 1, 'x[ab]/h.bean': o % 2, 'xa/h.bean': o % 3,
          'led[2020]/i.bean': 'include "*.bean"\n' + o % 4, 'led[2020]/j.bean': o % 5,
          'st*r/k.bean': 'include "./k.bean"\n' + o % 6, 'star/k.bean': o % 7,
          'q?/l.bean': 'include "../q[?]/l.bean"\n' + o % 8, 'qz/l.bean': o % 9}
    mi = {MAIN: ['x[[]ab]/g.bean', 'led[[]2020]/i.bean', 'st[*]r/k.bean', 'q[?]/l.bean'], 'x[ab]/g.bean': ['h.bean'],
          'led[2020]/i.bean': ['*.bean'], 'st*r/k.bean': ['./k.bean'], 'q?/l.bean': ['../q[?]/l.bean']}
    mk(mg, mi, edits={'x[ab]/h.bean': 'account', 'st*r/k.bean': 'account'})
    # bystanders: a scratch file named like the ledger, dot-files and a dot-directory next to wildcard includes
    by = '2000-02-02 open Assets:Bystander\n'
    mk({MAIN: m}, {MAIN: []}, edits={MAIN: 'account'}, mode='single', bystanders={'main.bean.tmp': by, 'main.bean~': by})
    mk({MAIN: m}, {MAIN: []}, edits={MAIN: 'narration'}, cwd='.', root='main.bean', spelling='bare',
       bystanders={'main.bean.tmp': by})
    hs = {MAIN: 'include "*.bean"\ninclude "**/*.bean"\n' + o % 0, 'a.bean': o % 1, 'inc/c.bean': 'include "*.bean"\n' + o % 2}
    mk(hs, {MAIN: ['*.bean', '**/*.bean'], 'a.bean': [], 'inc/c.bean': ['*.bean']}, edits={'a.bean': 'account', 'inc/c.bean': 'account'},
       bystanders={'.hidden.bean': by, 'inc/.draft.bean': by, '.trash/old.bean': by, 'a.bean.tmp': by})
    return out


# ------------------------------------------------------------------------------------------------
# running the real Editor on a scenario
_PARSER = None
_PARSE_LOG: list = []
HYP = {'print_parse_holds': 0, 'print_parse_fails': 0}


def _parser():
    global _PARSER
    if _PARSER is None:
        from autobean_refactor import parser as parser_lib, models as models_mod, printer as printer_mod

        class RecParser(parser_lib.Parser):
            def parse(self, text, target):
                entry = [text, None, []]
                _PARSE_LOG.append(entry)
                res = super().parse(text, target)
                entry[1] = res
                # read now: the body may delete the directives later
                entry[2] = [d.filename for d in getattr(res, 'raw_directives', []) if isinstance(d, models_mod.Include)]
                ok = printer_mod.print_model(res, io.StringIO()).getvalue() == text
                HYP['print_parse_holds' if ok else 'print_parse_fails'] += 1
                return res
        _PARSER = RecParser()
    return _PARSER


@contextlib.contextmanager
def fs_log(log: list):
    """Log every file-system call that can create, change or delete a file (and every open)."""
    saved = {(builtins, 'open'): builtins.open, (io, 'open'): io.open, (os, 'unlink'): os.unlink,
             (os, 'remove'): os.remove, (os, 'makedirs'): os.makedirs, (os, 'rename'): os.rename,
             (os, 'replace'): os.replace, (os, 'rmdir'): os.rmdir, (os, 'truncate'): os.truncate,
             (glob_mod, 'glob'): glob_mod.glob}
    real_open = builtins.open

    def ab(p):
        try:
            return cabs(os.getcwd(), p)
        except TypeError:
            return None

    def w_open(file, mode='r', *a, **kw):
        if len(log) > MAX_CALLS:
            raise CallLimit()
        if not isinstance(file, int):
            log.append(('w' if any(c in mode for c in 'wax+') else 'r', os.fspath(file), ab(file)))
        return real_open(file, mode, *a, **kw)

    depth = [0]          # os.makedirs / os.removedirs re-enter themselves through the module global

    def wrap(kind, fn):
        def w(path, *a, **kw):
            if depth[0] == 0:
                log.append((kind, os.fspath(path) if not isinstance(path, int) else path, ab(path)))
            depth[0] += 1
            try:
                return fn(path, *a, **kw)
            finally:
                depth[0] -= 1
        return w

    def w_glob(pattern, *a, **kw):
        res = saved[(glob_mod, 'glob')](pattern, *a, **kw)
        log.append(('glob', pattern, list(res), kw.get('recursive', False)))
        return res
    try:
        builtins.open = w_open
        io.open = w_open
        os.unlink = wrap('unlink', saved[(os, 'unlink')])
        os.remove = wrap('unlink', saved[(os, 'remove')])
        os.makedirs = wrap('makedirs', saved[(os, 'makedirs')])
        os.rename = wrap('rename', saved[(os, 'rename')])
        os.replace = wrap('rename', saved[(os, 'replace')])
        os.rmdir = wrap('rmdir', saved[(os, 'rmdir')])
        os.truncate = wrap('w', saved[(os, 'truncate')])
        glob_mod.glob = w_glob
        yield
    finally:
        for (mod, name), fn in saved.items():
            setattr(mod, name, fn)


def snapshot(D: str) -> dict[str, tuple[bytes, int, int]]:
    out = {}
    for base, _dirs, names in os.walk(D):
        for nm in names:
            p = os.path.join(base, nm)
            st = os.stat(p)
            with open(p, 'rb') as f:
                out[os.path.relpath(p, D)] = (f.read(), st.st_mtime_ns, st.st_ino)
    return out


OLD_NS = 10 ** 18


def execute(ctx, scn: dict) -> dict:
    """Build the tree, run the real Editor, observe. Everything is removed afterwards."""
    from autobean_refactor import editor as editor_lib, models, printer
    parser = _parser()
    top = os.path.realpath(tempfile.mkdtemp(prefix='t', dir=str(ctx.scratch)))
    D = os.path.join(top, 'w')
    old_cwd = os.getcwd()
    obs: dict = {'D': D, 'N': 'w'}
    try:
        os.makedirs(D)
        for d in scn['dirs']:
            os.makedirs(os.path.join(D, d), exist_ok=True)
        for rel, text in scn['files'].items():
            p = os.path.join(D, rel)
            os.makedirs(os.path.dirname(p), exist_ok=True)
            with open(p, 'wb') as f:
                f.write(text.replace('{D}', D).encode('ascii'))
            os.utime(p, ns=(OLD_NS, OLD_NS))
        for rel, text in scn.get('bystanders', {}).items():
            p = os.path.join(D, rel)
            os.makedirs(os.path.dirname(p), exist_ok=True)
            with open(p, 'wb') as f:
                f.write(text.encode('ascii'))
            os.utime(p, ns=(OLD_NS, OLD_NS))
        anc, a = [], top
        while a != '/':
            a = os.path.dirname(a)
            anc.append(a)
        obs['dirs0'] = [D, top] + anc + [os.path.join(b, x) for b, ds, _ in os.walk(D) for x in ds]
        before = snapshot(D)
        obs['reach'] = reachable(scn, D)          # independent oracle, evaluated while the tree exists
        cwd_abs = os.path.normpath(os.path.join(D, scn['cwd']))
        root = scn['root'].replace('{D}', D).replace('{N}', 'w')
        obs.update(cwd=cwd_abs, root=root, root_resolves=os.path.exists(os.path.join(cwd_abs, root)))
        log: list = []
        del _PARSE_LOG[:]
        ed = editor_lib.Editor(parser)
        keys = None
        body_out = None
        entered_models = None
        exc = None
        stage = 'enter'
        os.chdir(cwd_abs)
        try:
            with fs_log(log):
                if scn['mode'] == 'single':
                    with ed.edit_file(root) as file:
                        stage = 'body'
                        keys = [str(pathlib.PurePosixPath(root))]
                        files = {keys[0]: file}
                        entered_models = dict(files)
                        _body(scn, files, D, models, parser)
                        body_out = [(k, printer.print_model(f, io.StringIO()).getvalue()) for k, f in files.items()]
                        stage = 'exit'
                else:
                    with ed.edit_file_recursive(root) as files:
                        stage = 'body'
                        keys = list(files.keys())
                        entered_models = dict(files)
                        _body(scn, files, D, models, parser)
                        body_out = [(k, printer.print_model(f, io.StringIO()).getvalue()) for k, f in files.items()]
                        stage = 'exit'
            stage = 'done'
        except BaseException as e:  # observed, classified below
            exc = e
        finally:
            os.chdir(old_cwd)
        after = snapshot(D)
        obs.update(before=before, after=after, log=log, keys=keys, body_out=body_out, exc=exc, stage=stage,
                   parses=[(t, r is not None, list(names)) for t, r, names in _PARSE_LOG],
                   n_entered=len(entered_models) if entered_models is not None else None)
    finally:
        os.chdir(old_cwd)
        shutil.rmtree(top, ignore_errors=True)
    return obs


def respell(k: str, style: str) -> str:
    """Another spelling of the same file."""
    if style == 'abs':
        return os.path.relpath(k) if os.path.isabs(k) else cabs(os.getcwd(), k)
    if style == 'dot':
        return os.path.join(os.path.dirname(k), '.', os.path.basename(k)) if os.path.dirname(k) else './' + k
    parent = os.path.basename(os.path.dirname(cabs(os.getcwd(), k)))
    return os.path.join(os.path.dirname(k), '..', parent, os.path.basename(k))


def _body(scn, files, D, models, parser):
    """The body of the `with` block: edits / removals / additions chosen by the scenario."""
    if scn['raise'] == 'before':
        raise BodyRaised()
    by_rel = {os.path.relpath(cabs(os.getcwd(), k), D): k for k in files}
    for rel, kind in scn['edits'].items():
        if rel not in by_rel:
            continue
        f = files[by_rel[rel]]
        i = scn['idx'][rel]
        if kind == 'empty':
            f.raw_directives_with_comments.clear()
            continue
        for d in f.raw_directives:
            if kind in ('account', 'noop') and isinstance(d, models.Open):
                d.raw_account.value = f'Assets:Edited{i}' if kind == 'account' else d.raw_account.value
                break
            if kind == 'narration' and isinstance(d, models.Transaction):
                d.raw_narration.value = f'edited{i}'
                break
    for rel in scn['removes']:
        if rel in by_rel:
            del files[by_rel[rel]]
    for rel, style in scn.get('rekeys', []):
        if rel in by_rel and by_rel[rel] in files:
            k = by_rel[rel]
            files[respell(k, style)] = files.pop(k)
    first = next(iter(by_rel.values()), None) if MAIN not in by_rel else by_rel[MAIN]
    for suffix, text in scn['adds']:
        key = os.path.join(os.path.dirname(first), suffix)
        if text == '':
            files[key] = models.File.from_children([])      # a placeholder: prints as the empty string
        else:
            files[key] = parser.parse(text, models.File)
            del _PARSE_LOG[-1]
    if scn['raise'] == 'after':
        raise BodyRaised()


# ------------------------------------------------------------------------------------------------
# the property's own statement
def expected_edit(scn, rel: str, data: bytes) -> bytes:
    kind = scn['edits'].get(rel)
    i = scn['idx'].get(rel)      # None: a file the scenario never lists as a ledger (a bystander) - never edited by the body
    if kind == 'account':
        return data.replace(f'Assets:F{i}:Acct'.encode(), f'Assets:Edited{i}'.encode(), 1)
    if kind == 'narration':
        return data.replace(f'"narr{i}"'.encode(), f'"edited{i}"'.encode(), 1)
    return data


def reachable(scn, D: str) -> tuple[set[str], bool]:
    """Independent oracle: files reachable from main through the include patterns the generator wrote
    (canonical paths; glob itself is trusted). Second component: an entry failure is expected."""
    seen, todo, bad = set(), [os.path.join(D, MAIN)], False
    garbage = {r for r, t in scn['files'].items() if '???' in t}
    while todo:
        f = todo.pop()
        if f in seen:
            continue
        seen.add(f)
        rel = os.path.relpath(f, D)
        if rel in garbage:
            bad = True
            continue
        for pat in scn['incs'].get(rel, []):
            ms = glob_mod.glob(os.path.join(glob_mod.escape(os.path.dirname(f)), pat.replace('{D}', D)), recursive=True)
            if not ms:
                bad = True
            todo.extend(os.path.normpath(m) for m in ms)
    return seen, bad


ALIAS_SIG = 'C16:same-file-under-two-spellings'
UNESCAPED = ('_get_include_paths passes dirname(path) unescaped to glob.glob: in a directory whose name contains '
             '[ ] * ? an include matches nothing or matches files of a look-alike directory')


def obstructed_add(scn, obs) -> bool:
    """Did the body add a key that names an existing directory, or lies below an existing regular file?"""
    D, keys = obs['D'], obs['keys'] or []
    if scn['mode'] != 'rec' or not keys:
        return False
    first_key = next((k for k in keys if cabs(obs['cwd'], k) == os.path.join(D, MAIN)), keys[0])
    files0 = {os.path.join(D, r) for r in obs['before']}
    for suffix, _ in scn['adds']:
        a = cabs(obs['cwd'], os.path.join(os.path.dirname(first_key), suffix))
        if a in obs['dirs0']:
            return True
        while a.startswith(D + '/'):
            a = os.path.dirname(a)
            if a in files0:
                return True
    return False


def monitors(scn, obs, reach: tuple[set[str], bool]) -> list[tuple[str, str]]:
    D, log, before, after = obs['D'], obs['log'], obs['before'], obs['after']
    fails: list[tuple[str, str]] = []
    mutating = [x for x in log if x[0] in ('w', 'unlink', 'makedirs', 'rename', 'rmdir')]
    written = {x[2] for x in log if x[0] in ('w', 'rename')}
    exc = obs['exc']

    def untouched(rel) -> bool:
        return rel in after and after[rel] == before[rel] and os.path.join(D, rel) not in written

    magic_dirs = sorted({os.path.dirname(os.path.relpath(p, D)) for p in reach[0]
                         if MAGIC & set(os.path.dirname(os.path.relpath(p, D)))})
    if isinstance(exc, CallLimit):
        return [('C16:does-not-terminate', f'more than {MAX_CALLS} file-system calls on a tree of {len(before)} files: '
                                           'the traversal of the include graph does not terminate')]
    if scn['mode'] == 'rec' and obs['keys'] is not None:
        by_file: dict[str, list[str]] = {}
        for k in obs['keys']:
            by_file.setdefault(cabs(obs['cwd'], k), []).append(k)
        dup = {f: ks for f, ks in by_file.items() if len(ks) > 1}
        if dup:
            f, ks = sorted(dup.items())[0]
            return [(ALIAS_SIG, f'{os.path.relpath(f, D)} is reached under {len(ks)} spellings {ks} (a relative and an absolute '
                                'include): it is read and parsed once per spelling and yielded as that many independent models, so '
                                'edits to one are overwritten or dropped and removing one key deletes the file the other still names')]
    if obs['stage'] in ('enter', 'body'):
        # the block raised (or could not be entered): no file is touched
        if obs['stage'] == 'body' and not isinstance(exc, BodyRaised):
            fails.append(('C16:harness', f'the body failed with {type(exc).__name__}: {exc}'))
        if mutating:
            fails.append(('C16:raise-touched', f'the block raised but the editor called {mutating[:3]}'))
        for rel in sorted(set(before) | set(after)):
            if rel not in before or not untouched(rel):
                fails.append(('C16:raise-touched', f'the block raised but {rel} was created, changed or rewritten'))
                break
        if obs['stage'] == 'enter' and scn['mode'] == 'single':
            main_bad = '???' in scn['files'][MAIN]
            if obs['root_resolves'] and not main_bad:
                fails.append(('C16:enter-raised', f'edit_file raised {type(exc).__name__} on a parsable file spelled {obs["root"]!r}'))
        if obs['stage'] == 'enter' and scn['mode'] == 'rec' and reach[1] and isinstance(exc, ValueError):
            # "No files match 'pattern' (path:LINE)": LINE is the 0-based line of that include directive (C08)
            m = re.match(r"No files match '(.*)' \((.*):(\d+)\)$", str(exc))
            if m:
                rel = os.path.relpath(cabs(obs['cwd'], m.group(2)), D)
                lines = before.get(rel, (b'',))[0].decode('ascii').split('\n')
                want_lines = [i for i, ln in enumerate(lines) if ln.startswith('include') and f'"{m.group(1)}"' in ln]
                if int(m.group(3)) not in want_lines:
                    fails.append(('C16:include-error-line', f'{str(exc)!r}: the include directive is on 0-based line(s) '
                                                            f'{want_lines} of {rel}'))
        if obs['stage'] == 'enter' and scn['mode'] == 'rec' and not reach[1]:
            if isinstance(exc, ValueError) and magic_dirs:
                fails.append(('C16:glob-dirname-unescaped', UNESCAPED + f' (here: ValueError, directories {magic_dirs})'))
            else:
                fails.append(('C16:enter-raised', f'edit_file_recursive raised {type(exc).__name__} on a well-formed include graph'))
        return fails
    if obs['stage'] == 'exit':
        if isinstance(exc, OSError) and obstructed_add(scn, obs):
            return fails        # the body added a key where a directory / below a regular file: the OS error is the caller's
        if isinstance(exc, FileNotFoundError) and any(x[0] == 'makedirs' and x[1] == '' for x in log):
            fails.append(('C16:bare-path-makedirs',
                          "edit_file_recursive on a path without a directory part reaches os.makedirs('') after the "
                          'body ran: the block raises FileNotFoundError and every edit is dropped'))
        else:
            fails.append(('C16:exit-raised', f'the block completed but the editor raised {type(exc).__name__}: {exc}'))
        return fails
    # the block completed
    keys = obs['keys']
    in_map = {os.path.relpath(cabs(obs['cwd'], k), D) for k in keys}
    if scn['mode'] == 'rec':
        want = {os.path.relpath(p, D) for p in reach[0]}
        reads = [os.path.relpath(x[2], D) for x in log if x[0] == 'r' and x[2] and x[2].startswith(D + '/')]
        if in_map != want and len(keys) == len(set(in_map)) and magic_dirs:
            fails.append(('C16:glob-dirname-unescaped', UNESCAPED + f' (here: visited {sorted(in_map)}, reachable {sorted(want)})'))
        elif in_map != want or len(keys) != len(want):
            fails.append(('C16:visit-once', f'yielded keys {sorted(keys)} but the files reachable through includes are {sorted(want)}'))
        elif sorted(reads) != sorted(want) or len(obs['parses']) != len(want):
            fails.append(('C16:visit-once', f'files opened {sorted(reads)} / {len(obs["parses"])} parses for {len(want)} reachable files'))
    removed = {r for r in scn['removes'] if r in in_map}
    rekeyed = {r for r, _ in scn.get('rekeys', []) if r in in_map and r not in removed} if scn['mode'] == 'rec' else set()
    reported: set[str] = set()
    printed_by_rel = {os.path.relpath(cabs(obs['cwd'], k), D): t.encode('ascii')
                      for k, t in obs['body_out'] or []}
    first_key = next((k for k in keys if cabs(obs['cwd'], k) == os.path.join(D, MAIN)), keys[0])
    added = {}
    if scn['mode'] == 'rec':
        for suffix, text in scn['adds']:
            k = os.path.join(os.path.dirname(first_key), suffix)
            added[os.path.relpath(cabs(obs['cwd'], k), D)] = text.encode('ascii')
    for rel in sorted(before):
        data = before[rel][0]
        if rel in removed:
            if rel in after:
                fails.append(('C16:removed-not-deleted', f'{rel} was removed from the mapping but still exists'))
            continue
        want = expected_edit(scn, rel, data) if rel in in_map else data
        if rel in in_map and scn['edits'].get(rel) == 'empty' and rel in printed_by_rel:
            want = printed_by_rel[rel]
            if want not in (b'', b'\n', b'\r\n'):
                fails.append(('C16:harness', f'{rel}: emptied model prints {want!r}'))
        if rel in rekeyed and rel not in after:
            reported.add(rel)
            fails.append(('C16:rekeyed-entry-lost',
                          f'{rel}: its key was replaced inside the block by another spelling of the same path; the entry '
                          'is in the final mapping but the file no longer exists (it was written and then unlinked)'))
            continue
        if want == data and rel not in rekeyed:
            if not untouched(rel):
                fails.append(('C16:unchanged-rewritten', f'{rel}: model not changed, but the file was rewritten or changed'))
            continue
        got = after.get(rel, (None,))[0]
        if got != want:
            reported.add(rel)
            if got is not None and got == want.replace(b'\r\n', b'\n') and b'\r' in want:
                fails.append(('C16:crlf-rewritten',
                              f'{rel}: one token was edited and every "\\r\\n" of the file became "\\n" '
                              '(files are read with universal-newline translation)'))
            else:
                fails.append(('C16:changed-not-exact', f'{rel}: expected {want!r}, file contains {got!r}'))
    for rel, data in added.items():
        if after.get(rel, (None,))[0] != data:
            reported.add(rel)
            fails.append(('C16:added-not-created', f'new entry {rel}: expected {data!r}, found {after.get(rel, (None,))[0]!r}'))
    for rel in sorted(set(after) - set(before) - set(added)):
        fails.append(('C16:other-file-touched', f'{rel} was created'))
    # every file named by the final mapping (whatever the spelling of its key) exists and holds the printed model
    for k, printed in obs['body_out'] or []:
        rel = os.path.relpath(cabs(obs['cwd'], k), D)
        got = after.get(rel, (None,))[0]
        if rel in reported or got == printed.encode('ascii'):
            continue
        if got is not None and got.replace(b'\r\n', b'\n') == printed.encode('ascii'):
            continue        # unchanged CRLF file seen through newline translation: C16:crlf-rewritten covers the edits
        fails.append(('C16:mapping-entry-not-on-disk', f'key {k!r} is in the final mapping; its file holds {got!r}, '
                                                       f'the printed model is {printed!r}'))
    return fails


# ------------------------------------------------------------------------------------------------
# rendering a scenario + observation as a Coq term
def res_code(obs) -> int:
    e = obs['exc']
    if e is None:
        return 0
    import lark
    if isinstance(e, OSError):
        return 1
    if isinstance(e, lark.exceptions.LarkError):
        return 3
    if isinstance(e, ValueError):
        return 2
    if isinstance(e, BodyRaised):
        return 4
    return 9


def hyps_of(scn, obs) -> list[bool]:
    """The hypotheses of the theorems on this scenario: [alias_free, kept keys distinct, read keys distinct].
    check_case (EditorRun.hyps) recomputes them on the model and demands the same values."""
    def distinct(ks):
        c = [cabs(obs['cwd'], k) for k in ks]
        return len(set(c)) == len(c)
    rec = scn['mode'] == 'rec'
    keys = obs['keys'] or []
    done = rec and obs['exc'] is None and obs['body_out'] is not None
    final = [k for k, _ in obs['body_out'] or []]
    removed = [k for k in keys if k not in final]
    return [done and distinct(removed + final), done and distinct(final), (not rec) or distinct(keys)]


def glob_table_collision(obs) -> bool:
    seen = {}
    for x in obs['log']:
        if x[0] == 'glob':
            k = os.path.normpath(x[1])
            v = [os.path.normpath(m) for m in x[2]]
            if k in seen and seen[k] != v:
                return True
            seen.setdefault(k, v)
    return False


def coq_case(cfg, scn, obs) -> str:
    S, L = common.coq_str, common.coq_list
    D, cwd = obs['D'], obs['cwd']

    def pair(a, b):
        return f'({a}, {b})'

    def b2s(b: bytes) -> str:
        return common.coq_zlist(b)
    files0 = L(pair(S(os.path.join(D, r)), b2s(v[0])) for r, v in sorted(obs['before'].items()))
    final = L(pair(S(os.path.join(D, r)), b2s(v[0])) for r, v in sorted(obs['after'].items()))
    incl, unp, seen = [], [], set()
    for t, ok, names in obs['parses']:
        if t in seen:
            continue
        seen.add(t)
        if ok:
            incl.append(pair(S(t), L(S(n) for n in names)))
        else:
            unp.append(S(t))
    globs, gseen = [], set()
    for x in obs['log']:
        if x[0] == 'glob' and os.path.normpath(x[1]) not in gseen:
            gseen.add(os.path.normpath(x[1]))
            globs.append(pair(S(os.path.normpath(x[1])), L(S(os.path.normpath(m)) for m in x[2])))
    kinds = {'r': 0, 'w': 1, 'unlink': 2, 'makedirs': 3, 'rename': 4, 'rmdir': 5}
    trace = [pair(kinds[x[0]], S(x[2])) for x in obs['log']
             if x[0] in kinds and x[2] and (x[2] == D or x[2].startswith(D + '/') or x[1] == '')]
    body = 'None' if obs['body_out'] is None else f'(Some {L(pair(S(k), S(t)) for k, t in obs["body_out"])})'
    keys = 'None' if obs['keys'] is None else f'(Some {L(S(k) for k in obs["keys"])})'
    # every path spelling met: validates the Gallina normpath/dirname/str(Path)/abspath
    ps = [obs['root']] + list(obs['keys'] or []) + [k for k, _ in (obs['body_out'] or [])]
    for x in obs['log']:
        if x[0] == 'glob':
            ps.append(x[1])
            ps.extend(x[2])
    pl, pseen = [], set()
    for p in ps:
        if p in pseen or len(pl) >= 30:
            continue
        pseen.add(p)
        pl.append(pair(S(p), f'({S(os.path.normpath(p))}, {S(os.path.dirname(p))}, {S(str(pathlib.PurePosixPath(p)))}, '
                             f'({S(cabs(cwd, p))}, {S(glob_mod.escape(p))}))'))
    return ('(mkcase ' + ' '.join([
        common.coq_bool(cfg[0]), common.coq_bool(cfg[1]), common.coq_bool(cfg[2]), S(cwd), files0, L(S(d) for d in obs['dirs0']),
        L(incl), L(unp), L(globs), '1' if scn['mode'] == 'rec' else '0', S(obs['root']), body,
        str(res_code(obs)), keys, L(trace), final, L(pl), L(common.coq_bool(b) for b in hyps_of(scn, obs))]) + ')')


# ------------------------------------------------------------------------------------------------
def describe(scn, obs) -> dict:
    eol = 'crlf' if any('\r\n' in t for t in scn['files'].values()) else 'lf'
    return {'mode': scn['mode'], 'files': sorted(scn['files']), 'incs': scn['incs'], 'cwd': scn['cwd'],
            'root': scn['root'], 'eol': eol, 'edits': scn['edits'], 'removes': scn['removes'],
            'adds': [a[0] for a in scn['adds']], 'rekeys': scn.get('rekeys', []), 'raise': scn['raise'],
            'stage': obs['stage']}


def run_scenarios(ctx, cfg, scns: list[dict]):
    cases, kept, kept_obs = [], [], []
    for scn in scns:
        obs = execute(ctx, scn)
        fails = monitors(scn, obs, obs['reach'])
        n_files = len(scn['files'])
        ctx.case(describe(scn, obs), nontrivial=n_files >= 2 or bool(scn['edits']) or bool(scn['raise']))
        ctx.dist('mode=' + scn['mode'])
        ctx.dist('spelling=' + scn['spelling'])
        ctx.dist('stage=' + obs['stage'])
        ctx.dist(f'files={n_files}')
        ctx.dist('raise=' + str(scn['raise']))
        ctx.dist('rekeyed=' + str(min(2, len(scn.get('rekeys', [])))))
        ctx.dist('magic-dirs=' + str(any(MAGIC & set(os.path.dirname(r)) for r in scn['files'])))
        ctx.dist('eol=' + ('crlf' if any('\r\n' in t for t in scn['files'].values()) else 'lf'))
        if scn['mode'] == 'rec' and obs['keys'] is not None:
            ctx.dist(f'visited={len(obs["keys"])}')
            ctx.dist('revisit-attempts=' + str(min(3, sum(len(x[2]) for x in obs['log'] if x[0] == 'glob') + 1 - len(obs['keys']))))
        for sig, what in fails:
            ctx.monitor_failure(sig, what, {'scenario': scn})
        if res_code(obs) == 9 or any(s == 'C16:harness' for s, _ in fails):
            continue
        if glob_table_collision(obs):
            # two DIFFERENT patterns with the same normpath got different answers from glob.glob (`a[[]1]/../a[1]/../m`
            # normalises to `m`, but needs a directory matching the class `a[1]` to exist): the oracle table of the
            # model world is keyed by normpath(pattern) and cannot say both. The monitors above ran; no model case.
            ctx.count('oracle_glob_table_collision_skipped')
            continue
        cases.append(coq_case(cfg, scn, obs))
        kept.append(scn)
        kept_obs.append({'stage': obs['stage'], 'hyps': hyps_of(scn, obs)})
    bad = ctx.run_coq_cases('editor', PREAMBLE, 'ecase', 'check_case', cases, chunk=25)
    ctx.count('traces_validated_against_impl', len(cases) - len(bad))
    for i in range(len(cases)):
        if i not in bad and kept[i]['mode'] == 'rec' and kept_obs[i]['stage'] == 'done':
            ctx.count('completed_recursive_blocks')
            for name, v in zip(('alias_free', 'kept_keys_distinct', 'read_keys_distinct'), kept_obs[i]['hyps']):
                ctx.count(f'hyp_{name}_' + ('holds' if v else 'fails'))
    for k in HYP:
        ctx.count('hyp_' + k, HYP[k])
        HYP[k] = 0
    for i in bad[:3]:
        ctx.fail('corr', 'editor-correspondence',
                 'Editor.v and editor.py disagree (exception class, yielded keys, sequence of file-system calls or '
                 'final file contents) on a scenario', {'scenario': kept[i]})


def all_scenarios(ctx, n: int) -> list[dict]:
    return corpus() + [gen_scenario(ctx.rng) for _ in range(n)]


SYMLINK_SIG = 'C16:normpath-collapses-symlink-dotdot'


def symlink_probe(ctx) -> tuple[str, str] | None:
    """Directed scenario: other/link -> real/sub; the spelling other/link/../main.bean denotes real/main.bean for
    the OS. The property ('for any way of spelling the path') wants the edit in that file and nowhere else."""
    from autobean_refactor import editor as editor_lib
    top = os.path.realpath(tempfile.mkdtemp(prefix='s', dir=str(ctx.scratch)))
    try:
        os.makedirs(top + '/real/sub')
        os.makedirs(top + '/other')
        try:
            os.symlink(top + '/real/sub', top + '/other/link')
        except (OSError, NotImplementedError, AttributeError) as e:
            ctx.notes.append(f'symlink scenario skipped: {type(e).__name__}')
            return None
        for d, acct in (('real', 'Real'), ('other', 'Other')):
            with open(f'{top}/{d}/main.bean', 'wb') as f:
                f.write(f'2000-01-01 open Assets:{acct}\n'.encode())
        spelling = top + '/other/link/../main.bean'
        target = os.path.realpath(spelling)
        out = {}
        for name in ('edit_file_recursive', 'edit_file'):
            ed = editor_lib.Editor(_parser())
            before = {d: open(f'{top}/{d}/main.bean', 'rb').read() for d in ('real', 'other')}
            with getattr(ed, name)(spelling) as x:
                f = x if name == 'edit_file' else next(iter(x.values()))
                f.raw_directives[0].raw_account.value = 'Assets:Edited'
            after = {d: open(f'{top}/{d}/main.bean', 'rb').read() for d in ('real', 'other')}
            out[name] = (after['real'] == b'2000-01-01 open Assets:Edited\n' and after['other'] == before['other'],
                         after['other'] != before['other'])
            for d in ('real', 'other'):
                with open(f'{top}/{d}/main.bean', 'wb') as f:
                    f.write(before[d].replace(b'Edited', b'Real' if d == 'real' else b'Other'))
        assert target == top + '/real/main.bean'
        ctx.dist('symlink-scenario')
        if not out['edit_file'][0]:
            return ('C16:symlink-edit_file', 'edit_file through <symlinked dir>/../main.bean did not edit the file the OS resolves')
        if not out['edit_file_recursive'][0]:
            return (SYMLINK_SIG,
                    'edit_file_recursive keys by os.path.normpath, which collapses "<symlinked dir>/.." textually: with '
                    'other/link -> real/sub the spelling other/link/../main.bean denotes real/main.bean for the OS (and for '
                    'edit_file), but the recursive editor opens and rewrites other/main.bean'
                    + ('' if out['edit_file_recursive'][1] else ' (other file not rewritten either)'))
        return None
    finally:
        shutil.rmtree(top, ignore_errors=True)


def directed_probes(ctx) -> list[tuple[str, str, dict]]:
    """(1) Files with byte-identical contents reached in one traversal: an edit made through one mapping entry is
    written to that file only. (2) One Editor instance used for several blocks: a block that mutated its model and
    then raised leaves nothing behind - the next block on the same path (same Editor) sees the file as it is on disk
    and a read-only block writes nothing; likewise for the recursive form."""
    from autobean_refactor import editor as editor_lib
    out = []
    top = os.path.realpath(tempfile.mkdtemp(prefix='dp', dir=str(ctx.scratch)))
    old = os.getcwd()
    try:
        stub = b'2000-01-01 open Assets:Stub\n2000-01-02 * "n"\n  Assets:Stub  1 USD\n  Equity:Open\n'
        os.makedirs(os.path.join(top, 'm'))
        files = {'main.bean': b'include "m/*.bean"\ninclude "t.bean"\n2000-01-01 open Assets:Main\n',
                 'm/01.bean': stub, 'm/02.bean': stub, 'm/03.bean': stub, 't.bean': stub}
        for rel, data in files.items():
            with open(os.path.join(top, rel), 'wb') as f:
                f.write(data)
            os.utime(os.path.join(top, rel), ns=(OLD_NS, OLD_NS))
        ed = editor_lib.Editor(_parser())
        with ed.edit_file_recursive(os.path.join(top, 'main.bean')) as fs:
            distinct = len({id(v) for v in fs.values()})
            fs[os.path.join(top, 'm/02.bean')].raw_directives[0].raw_account.value = 'Assets:Edited'
        ctx.count('twin_file_probes')
        after = snapshot(top)
        want = dict(files)
        want['m/02.bean'] = stub.replace(b'Assets:Stub\n', b'Assets:Edited\n', 1)
        for rel in sorted(files):
            if after[rel][0] != want[rel]:
                out.append(('C16:other-file-touched' if rel != 'm/02.bean' else 'C16:changed-not-exact',
                            f'four files with identical contents, one edited through its own entry (m/02.bean): {rel} now holds '
                            f'{after[rel][0][:60]!r} ({distinct} distinct models were handed out for 5 files)', {'directed': 'twin-files'}))
                break
        # (2) one Editor, a raising block, then further blocks
        path = os.path.join(top, 't.bean')
        for form in ('edit_file', 'edit_file_recursive'):
            with open(path, 'wb') as f:
                f.write(stub)
            os.utime(path, ns=(OLD_NS, OLD_NS))
            ed = editor_lib.Editor(_parser())
            opener = (lambda: ed.edit_file(path)) if form == 'edit_file' else (lambda: ed.edit_file_recursive(path))
            get = (lambda x: x) if form == 'edit_file' else (lambda x: x[path])
            try:
                with opener() as x:
                    get(x).raw_directives_with_comments.pop(0)
                    raise BodyRaised()
            except BodyRaised:
                pass
            ctx.count('editor_reuse_probes')
            if open(path, 'rb').read() != stub:
                out.append(('C16:raise-touched', f'{form}: the block raised but the file was rewritten', {'directed': 'editor-reuse'}))
                continue
            with opener() as x:
                n = len(get(x).raw_directives)
            st = os.stat(path)
            if n != 2 or open(path, 'rb').read() != stub or st.st_mtime_ns != OLD_NS:
                out.append(('C16:aborted-edit-leaks-into-next-block',
                            f'{form} on one Editor: after a block that removed a directive and then raised, the next (read-only) block '
                            f'on the same path got a model with {n} directive(s) (2 on disk) and the file '
                            f'{"was rewritten" if open(path, "rb").read() != stub or st.st_mtime_ns != OLD_NS else "was left alone"}',
                            {'directed': 'editor-reuse', 'form': form}))
                continue
            with opener() as x:
                get(x).raw_directives[0].raw_account.value = 'Assets:Second'
            if open(path, 'rb').read() != stub.replace(b'Assets:Stub\n', b'Assets:Second\n', 1):
                out.append(('C16:changed-not-exact', f'{form} on one Editor: the third block\'s edit is not what the file holds', {'directed': 'editor-reuse'}))
        # (3) a ledger large enough for a multi-block token store (the load factor is lowered for this probe): the
        # first third of its directives is removed through edit_file; the file must hold exactly the remaining lines
        from harness import store_driver as sd_
        lines = [f'2000-01-{(i % 28) + 1:02d} open Assets:Big:A{i}' for i in range(60)]
        big = os.path.join(top, 'big.bean')
        for lf_, cut in ((4, 20), (6, 35), (3, 7)):
            with open(big, 'wb') as f:
                f.write(('\r\n'.join(lines) + '\r\n').encode())
            pinned = getattr(sd_, 'LF_PINNED', False)
            sd_.LF_PINNED = True
            sd_.set_load_factor(lf_)
            try:
                ed = editor_lib.Editor(_parser())
                with ed.edit_file(big) as file:
                    del file.raw_directives[0:cut]
            finally:
                sd_.set_load_factor(1000)
                sd_.LF_PINNED = pinned
            ctx.count('multi_block_edit_probes')
            want = ('\r\n'.join(lines[cut:]) + '\r\n').encode()
            got = open(big, 'rb').read()
            if got != want:
                k = next((i for i in range(min(len(got), len(want))) if got[i] != want[i]), min(len(got), len(want)))
                out.append(('C16:changed-not-exact', f'a 60-directive ledger (token store in blocks of ~{lf_}) with its first {cut} directives '
                                                     f'removed through edit_file: the file differs from the remaining lines at byte {k} '
                                                     f'(holds {got[k:k + 40]!r}, expected {want[k:k + 40]!r})', {'directed': 'multi-block-edit', 'lf': lf_, 'cut': cut}))
                break
    except Exception as e:
        out.append(('C16:harness', f'directed editor probes failed: {type(e).__name__}: {e}', {'directed': 'probes'}))
    finally:
        os.chdir(old)
        shutil.rmtree(top, ignore_errors=True)
    return out


def run(ctx: common.Ctx):
    ctx.rule = ('hand-written corpus (bare path, CRLF, cycle+diamond+glob) then seeded scenarios: 1-7 files in up to 5 '
                'directories, 0-3 include directives per file (relative paths with ./ and ../, absolute paths, globs incl. **, '
                'self/cyclic/shared includes, rarely unmatched; 30% of the trees have directories named with [ ] * ? next to '
                'look-alike siblings), LF / CRLF / mixed line ends, 16 root spellings '
                '(bare, relative, absolute, "//" root, through a directory that does not exist, redundant separators, .. components; cwd = tree, its parent, a subdirectory), '
                'body = random subsets edited (one token, or emptied) / removed / added (35% with an empty model) / re-keyed to another spelling of the same file '
                '(abspath, ./, ../dir/), new keys with a directory or a regular file in the way, raising before or after its edits; '
                'non-trivial = >= 2 files or an edit or a raise; distinct by the whole scenario')
    ctx.assumptions += [
        'Section variables of Editor.v (no law assumed in the model): parse/print/includes (lark parser, printer), '
        'glob.glob, os.path.normpath/dirname/join, str(pathlib.Path), os.path.abspath; in EditorRun.v the path '
        'functions are Gallina transcriptions of posixpath validated on every path of every scenario, glob/includes '
        'are tables recorded from the real functions',
        'hypotheses of the theorems (all stated per theorem, none global) and how each is evaluated on every run: '
        'print_parse (C01: parse t = Some m -> print m = t; C16_unchanged_not_written) - evaluated in Python on every '
        'text the real parser accepts (counters hyp_print_parse_*); alias_free (C16_completed_calls_exactly and '
        'corollaries), NoDup (map canon (keys files\')) (C16_rekeyed_entry_survives) and, for reading "exactly once" '
        'per file rather than per spelling, NoDup (map canon (keys read)) - boolean twins hyp_alias_free / '
        'hyp_kept_distinct / hyp_read_keys_distinct in EditorRun.v evaluated by vm_compute inside check_case on every '
        'scenario and required to equal the values the harness computes from the observed keys (counters hyp_*_holds / _fails; a false hypothesis means the theorem does not speak about that scenario, '
        'the correspondence and the monitors still do); canon equality + traversable (C16_edit_file_any_spelling)',
        'per-theorem hypotheses: "distinct keys denote distinct files" (alias_free = NoDup (map canon (removed ++ kept '
        'keys))) is needed for unchanged_not_written / removed_unlinked / nothing_else_touched, i.e. no symlinks or '
        'hard links and no two spellings of one file among the keys the read phase produced (a file included by a relative '
        'and by an absolute name gets two keys: known finding C16:same-file-under-two-spellings, C16_each_once_refuted); it is NOT needed between '
        'a removed key and a new key: re-keying an entry to another spelling of the same path (abspath, ./x, d/../d/x) '
        'is covered by C16_rekeyed_entry_survives, which only needs the kept keys to denote distinct files and follows '
        'from the order "all unlinks, then all writes" (C16_completed_trace); the body does not touch the file system '
        'itself; glob results do not change while the read phase runs',
        'glob as an oracle: the table maps the (normalised) pattern string the code built to what glob.glob returned; '
        'that this is "the files the include directive names" relies on the directory part being glob.escape()d '
        '(w_escape, read from the source); the visit-once monitor computes reachability with an escaped directory',
        'POSIX: os.linesep = "\\n" (text-mode writes do not translate), paths are posixpath',
        'symbolic links are outside the model file system (canon = os.path.abspath, purely textual): with a symlinked '
        'directory, normpath("link/..") names a different file than the OS resolves; edit_file_recursive keys by '
        'normpath and so edits the wrong file (known finding C16:normpath-collapses-symlink-dotdot, one directed '
        'scenario per run); hard links likewise',
        'not modelled: encodings (contents are ASCII), partial writes, concurrent writers, permissions, '
        'intermediate directories created by makedirs',
    ]
    ctx.require_coq(['properties/C16'], extra_targets=['EditorRun'])
    cfg = source_config(ctx)
    if cfg is None:
        cfg = (True, False, False)
    ctx.notes.append(f'editor.py: universal-newline translation on read = {cfg[0]}, makedirs guarded = {cfg[1]}, '
                     f'include directory glob-escaped = {cfg[2]}')
    if cfg != (False, True, True):
        ctx.fail('tie', 'C16:config',
                 'C16_every_entry_printed_exactly needs files opened with newline=\'\', a bare root needs os.makedirs '
                 'guarded against dirname == \'\' (C16_crlf_refuted / C16_bare_path_refuted), and the glob oracle is '
                 'the include relation only when the directory part of the pattern is glob.escape()d; editor.py has '
                 f'translate={cfg[0]}, guard={cfg[1]}, escape={cfg[2]}')
    run_scenarios(ctx, cfg, all_scenarios(ctx, ctx.scale(220, 2500)))
    r = symlink_probe(ctx)
    if r:
        ctx.monitor_failure(r[0], r[1], {'directed': 'symlink-dotdot'})
    for sig, what, wit in directed_probes(ctx):
        ctx.monitor_failure(sig, what, wit)


def search(ctx: common.Ctx):
    cfg = source_config(ctx) or (True, False, False)
    run_scenarios(ctx, cfg, [gen_scenario(ctx.rng) for _ in range(ctx.scale(120, 600))])


def replay(ctx, path):
    data = json.loads(open(path).read())
    f = data.get('failure') or (data.get('what_no_longer_checks') or [{}])[0]
    if (f.get('witness') or {}).get('directed') == 'symlink-dotdot':
        r = symlink_probe(ctx)
        print('monitor:', *(r or ('(no failure)',)))
        return 1 if r else 0
    scn = (f.get('witness') or {}).get('scenario')
    if not scn:
        print(json.dumps(f, indent=1))
        return 1
    cfg = source_config(ctx) or (True, False, False)
    obs = execute(ctx, scn)
    fails = monitors(scn, obs, obs['reach'])
    for sig, what in fails:
        print('monitor:', sig, what)
    if glob_table_collision(obs):
        print('scenario not representable in the oracle glob table (two patterns, one normpath, different answers): no model case')
        bad = []
    else:
        bad = ctx.run_coq_cases('replay', PREAMBLE, 'ecase', 'check_case', [coq_case(cfg, scn, obs)])
    print('model/implementation agree' if not bad else 'model/implementation DISAGREE')
    print('stage:', obs['stage'], 'exception:', type(obs['exc']).__name__ if obs['exc'] else None,
          'fs calls:', [x[:2] for x in obs['log'] if x[0] != 'glob'])
    return 1 if (fails or bad) else 0
