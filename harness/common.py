"""Shared machinery for every property check.

A property module `harness/cNN.py` exposes `run(ctx)`; it
  1. asks for its Coq files to be (re)built and audited      -> ctx.require_coq(...)
  2. runs its correspondence (model vs /repo implementation)   -> ctx.corr_* / ctx.run_coq_cases
  3. runs its monitors (the property's statement on /repo)     -> ctx.monitor_failure(...)
and `finish(ctx)` turns what was recorded into the verdict, the replay file and the evidence file.

Everything random derives from ctx.rng (seeded by VERIF_SEED).
"""
from __future__ import annotations

import concurrent.futures
import fcntl
import hashlib
import json
import os
import random
import re
import subprocess
import sys
import time
import traceback
from pathlib import Path
from typing import Any, Callable, Iterable, Optional, Sequence

VERIF = Path(os.environ.get('VERIF_ROOT', '/verif'))   # the machinery's own root (a private copy for experiments)
REPO = Path(os.environ.get('VERIF_REPO', '/repo'))   # the tree under test (default /repo)
COQ = VERIF / 'coq'
THEORIES = COQ / 'theories'
BUILD = VERIF / 'build'
EVIDENCE = Path(os.environ.get('VERIF_EVIDENCE_DIR', str(VERIF / 'evidence')))   # mutant runs write elsewhere
REPLAYS = Path(os.environ.get('VERIF_REPLAYS_DIR', str(VERIF / 'replays')))
KNOWN_FINDINGS = VERIF / 'known_findings.json'

FORBIDDEN = re.compile(
    r'\b(Admitted|admit|Axiom|Axioms|Parameter|Parameters|Conjecture|Conjectures|Hypothesis|Hypotheses|Variable|Variables)\b'
    r'|Unset\s+Guard|bypass_check|type-in-type|impredicative-set|Admit\s+Obligations|Unset\s+Universe|Unset\s+Positivity')
# `Variable`/`Hypothesis` are allowed only inside a Section (checked structurally below).
SECTION_ONLY = {'Variable', 'Variables', 'Hypothesis', 'Hypotheses'}

# axioms of the standard library that a theorem may depend on (reported in the trusted base if used)
STDLIB_AXIOMS = {
    'functional_extensionality_dep', 'FunctionalExtensionality.functional_extensionality_dep',
    'classic', 'Classical_Prop.classic', 'proof_irrelevance', 'JMeq_eq', 'Eqdep.Eq_rect_eq.eq_rect_eq',
    'ClassicalDedekindReals.sig_forall_dec', 'ClassicalDedekindReals.sig_not_dec',
    'propositional_extensionality', 'PropExtensionality.propositional_extensionality',
}


def sh(cmd: Sequence[str] | str, *, cwd: Optional[Path] = None, timeout: float = 600, env=None,
       input: Optional[str] = None) -> tuple[int, str]:
    try:
        p = subprocess.run(cmd, cwd=cwd, shell=isinstance(cmd, str), stdout=subprocess.PIPE,
                           stderr=subprocess.STDOUT, timeout=timeout, text=True, env=env, input=input)
        return p.returncode, p.stdout
    except subprocess.TimeoutExpired as e:
        out = e.stdout.decode() if isinstance(e.stdout, bytes) else (e.stdout or '')
        return 124, out + f'\n[timeout after {timeout}s]'


class Failure:
    """kind: 'monitor' (the property's statement fails on the implementation: a concrete counter-example)
             'corr'    (model and implementation disagree on an input)
             'proof'   (a theorem no longer checks / depends on a non-whitelisted axiom / audit fails)
             'tie'     (translator cannot read the source, pinned text changed, generated facts fail)"""

    def __init__(self, kind: str, signature: str, what: str, witness: Any = None):
        self.kind, self.signature, self.what, self.witness = kind, signature, what, witness

    def to_json(self):
        return {'kind': self.kind, 'signature': self.signature, 'what': self.what, 'witness': self.witness}


class Ctx:
    def __init__(self, prop: str, tier: str, seed: int):
        self.prop, self.tier, self.seed = prop, tier, seed
        self.rng = random.Random(seed)
        self.t0 = time.time()
        self.scratch = BUILD / (prop + os.environ.get('VERIF_SCRATCH_SUFFIX', ''))
        self.scratch.mkdir(parents=True, exist_ok=True)
        self.failures: list[Failure] = []
        self.obligations: list[dict] = []      # {'name','file','ok','assumptions'}
        self.trusted: list[str] = []
        self.assumptions: list[str] = []
        self.counters: dict[str, int] = {}
        self.distinct: set[str] = set()
        self.samples: list[Any] = []
        self.distribution: dict[str, int] = {}
        self.rule = ''
        self.notes: list[str] = []
        self.checker_cmds: list[str] = []
        self.deep = False                      # set when a proof/tie/correspondence broke: search harder

    # ----- bookkeeping --------------------------------------------------------------------
    @property
    def quick(self) -> bool:
        return self.tier == 'quick'

    def scale(self, quick: int, thorough: int) -> int:
        n = quick if self.quick else thorough
        return n * 5 if self.deep else n

    def count(self, key: str, n: int = 1):
        self.counters[key] = self.counters.get(key, 0) + n

    def dist(self, key: str, n: int = 1):
        self.distribution[key] = self.distribution.get(key, 0) + n

    def case(self, descr: Any, nontrivial: bool = True):
        """Record one explored case (for evaluations / distinct_nontrivial / samples)."""
        self.count('evaluations')
        if nontrivial:
            h = hashlib.sha1(json.dumps(descr, sort_keys=True, default=str).encode()).hexdigest()
            self.distinct.add(h)
        if len(self.samples) < 5 or (len(self.samples) < 12 and self.rng.random() < 0.02):
            self.samples.append(descr)

    def fail(self, kind: str, signature: str, what: str, witness: Any = None):
        # keep at most 3 failures per (kind, signature)
        if sum(1 for f in self.failures if f.kind == kind and f.signature == signature) < 3:
            self.failures.append(Failure(kind, signature, what, witness))
        self.count('failures_' + kind)

    def monitor_failure(self, signature: str, what: str, witness: Any = None):
        self.fail('monitor', signature, what, witness)

    def broken(self) -> bool:
        return any(f.kind in ('proof', 'tie', 'corr') for f in self.failures)

    def concrete(self) -> list[Failure]:
        return [f for f in self.failures if f.kind == 'monitor']

    # ----- Coq ----------------------------------------------------------------------------
    def require_coq(self, prop_files: Sequence[str], extra_targets: Sequence[str] = (), timeout: int = 1500,
                    pre: Optional[Callable[[], Any]] = None):
        """Build theories/<f>.vo for each property file (and its dependency cone), audit them:
        no forbidden vernacular in the cone, every Theorem closed (or stdlib axioms only)."""
        targets = [f'theories/{f}.vo' for f in list(prop_files) + list(extra_targets)]
        ok, log = coq_make(targets, timeout=timeout, pre=pre)
        self.checker_cmds.append('make -C /verif/coq ' + ' '.join(targets) + '  (coqc 8.16.1, full .vo)')
        if not ok:
            (self.scratch / 'make.log').write_text(log)
            # find which file failed
            m = re.findall(r'File "\./?([^"]+)", line (\d+)', log)
            where = ', '.join(f'{a}:{b}' for a, b in m[:3]) or 'see make.log'
            self.fail('proof', 'coq-build', f'Coq build failed at {where}', {'log_tail': log[-3000:]})
        cone = coq_cone(targets) if ok else []
        bad = static_audit(cone if cone else [THEORIES / (f + '.v') for f in prop_files])
        for path, lineno, word in bad:
            self.fail('proof', 'static-audit', f'forbidden vernacular {word!r} at {path}:{lineno}')
        self.count('audited_files', len(cone))
        for f in prop_files:
            thms = theorem_names(THEORIES / (f + '.v'))
            if not thms:
                self.fail('proof', 'no-theorems', f'{f}.v states no theorem')
            if not ok:
                # cannot audit; every theorem is counted as undischarged
                built = (THEORIES / (f + '.vo')).exists() and \
                    (THEORIES / (f + '.vo')).stat().st_mtime >= (THEORIES / (f + '.v')).stat().st_mtime
                if not built:
                    for t in thms:
                        self.obligations.append({'name': t, 'file': f, 'ok': False, 'assumptions': 'not built'})
                    continue
            res = print_assumptions(self, f, thms)
            for t in thms:
                a = res.get(t)
                if a is None:
                    self.obligations.append({'name': t, 'file': f, 'ok': False, 'assumptions': 'no output'})
                    self.fail('proof', 'assumptions', f'Print Assumptions {t} gave no output')
                elif a == []:
                    self.obligations.append({'name': t, 'file': f, 'ok': True,
                                             'assumptions': 'Closed under the global context'})
                else:
                    names = [x.split(':')[0].strip() for x in a]
                    alien = [n for n in names if n not in STDLIB_AXIOMS and n.split('.')[-1] not in STDLIB_AXIOMS]
                    self.obligations.append({'name': t, 'file': f, 'ok': not alien, 'assumptions': names})
                    for n in names:
                        if n not in self.trusted:
                            self.trusted.append(f'axiom {n} (via {t})')
                    if alien:
                        self.fail('proof', 'assumptions', f'{t} depends on non-stdlib axioms {alien}')
        if ok and self.tier == 'thorough' and os.environ.get('VERIF_NO_COQCHK') != '1':
            for f in prop_files:
                self.coqchk(f)
        return ok

    def coqchk(self, prop_file: str, timeout: int = 1800):
        """Independent re-check of the compiled property file and everything it depends on (thorough tier)."""
        mod = 'AB.' + prop_file.replace('/', '.')
        rc, out = sh(['coqchk', '-silent', '-o', '-Q', 'theories', 'AB', mod], cwd=COQ, timeout=timeout)
        self.checker_cmds.append(f'coqchk -silent -o -Q theories AB {mod}')
        m = re.search(r'\* Axioms:(.*?)\n\s*\n\* Constants/Inductives relying on type-in-type:(.*?)\n\s*\n'
                      r'\* Constants/Inductives relying on unsafe \(co\)fixpoints:(.*?)\n\s*\n'
                      r'\* Inductives whose positivity is assumed:(.*?)\n', out, re.S)
        if rc != 0 or not m:
            self.fail('proof', 'coqchk', f'coqchk failed on {mod}', {'log_tail': out[-1500:]})
            return
        axioms, tit, unsafe, pos = [x.strip() for x in m.groups()]
        self.notes.append(f'coqchk {mod}: axioms={axioms} type-in-type={tit} unsafe-fixpoints={unsafe} assumed-positivity={pos}')
        self.trusted.append(f'coqchk -o {mod}: axioms {axioms}')
        for name, val in (('type-in-type', tit), ('unsafe (co)fixpoints', unsafe), ('assumed positivity', pos)):
            if val != '<none>':
                self.fail('proof', 'coqchk', f'{mod} relies on {name}: {val}')
        if axioms != '<none>':
            names = [a.strip() for a in axioms.split('\n') if a.strip()]
            alien = [n for n in names if n.split('.')[-1] not in STDLIB_AXIOMS and n not in STDLIB_AXIOMS]
            if alien:
                self.fail('proof', 'coqchk', f'{mod}: coqchk lists non-stdlib axioms {alien}')

    def run_coq_cases(self, name: str, preamble: str, case_type: str, check_fn: str,
                      cases: Sequence[str], chunk: int = 200, timeout: int = 600) -> list[int]:
        """Evaluate `check_fn : case_type -> bool` on every case inside Coq (vm_compute); returns the
        indices of the cases on which it is false (or all indices of a chunk that failed to compile)."""
        files = []
        # case files of an earlier (larger) run with the same name are stale: remove them, disk space is limited
        for old_file in self.scratch.glob(f'cases_{name}_*.v'):
            try:
                old_file.unlink()
            except OSError:
                pass
        for k in range(0, len(cases), chunk):
            body = ';\n  '.join(cases[k:k + chunk])
            src = (f'{preamble}\nDefinition cases : list ({case_type}) := [\n  {body}\n].\n'
                   f'Eval vm_compute in (bad_cases ({check_fn}) cases).\n')
            p = self.scratch / f'cases_{name}_{k // chunk}.v'
            p.write_text(src)
            files.append((k, p, min(chunk, len(cases) - k)))
        bad: list[int] = []

        def one(item):
            k, p, n = item
            rc, out = sh(['coqc', '-Q', str(THEORIES), 'AB', p.name], cwd=self.scratch, timeout=timeout)
            # the compiled outputs are of no further use (the answer is in `out`); the .v stays for replay / inspection
            for junk in (p.with_suffix('.vo'), p.with_suffix('.vok'), p.with_suffix('.vos'), p.with_suffix('.glob'),
                         p.with_name('.' + p.stem + '.aux')):
                try:
                    junk.unlink()
                except OSError:
                    pass
            if rc != 0:
                return k, n, None, out
            m = re.search(r'=\s*(.*?)\s*:\s*list nat', out, re.S)
            if not m:
                return k, n, None, out
            return k, n, [int(x) for x in re.findall(r'\d+', m.group(1))], out

        with concurrent.futures.ThreadPoolExecutor(max_workers=12) as ex:
            for k, n, idxs, out in ex.map(one, files):
                if idxs is None:
                    self.fail('corr', 'cases-file-failed', f'coqc failed on cases_{name}_{k // chunk}.v',
                              {'log_tail': out[-2000:]})
                    bad.extend(range(k, k + n))
                else:
                    bad.extend(k + i for i in idxs)
        for _, p, _ in files:
            for ext in ('.vo', '.vok', '.vos', '.glob'):
                q = p.with_suffix(ext)
                if q.exists():
                    q.unlink()
            aux = p.parent / ('.' + p.stem + '.aux')
            if aux.exists():
                aux.unlink()
        self.count('coq_case_evaluations', len(cases))
        return bad

    def coq_eval(self, preamble: str, expr: str, timeout: int = 120) -> str:
        p = self.scratch / 'eval_tmp.v'
        p.write_text(f'{preamble}\nEval vm_compute in ({expr}).\n')
        rc, out = sh(['coqc', '-Q', str(THEORIES), 'AB', p.name], cwd=self.scratch, timeout=timeout)
        return out


# ---------------------------------------------------------------------------------------------
def all_v_files() -> list[str]:
    return sorted(str(p.relative_to(COQ)) for p in THEORIES.rglob('*.v'))


def coq_make(targets: Sequence[str], timeout: int = 1500, pre: Optional[Callable[[], Any]] = None) -> tuple[bool, str]:
    """Full .vo build of the given targets under an exclusive lock (several checks may run at once).
    `pre` (e.g. the translator that rewrites Generated.v) runs inside the same lock, right before make."""
    BUILD.mkdir(exist_ok=True)
    with open(BUILD / '.coqlock', 'w') as lock:
        fcntl.flock(lock, fcntl.LOCK_EX)
        if pre is not None:
            pre()
        files = all_v_files()
        proj = '-Q theories AB\n-arg -w -arg -notation-overridden,-deprecated-hint-without-locality,-deprecated\n' \
            + '\n'.join(files) + '\n'
        pf = COQ / '_CoqProject'
        if not pf.exists() or pf.read_text() != proj or not (COQ / 'Makefile').exists():
            pf.write_text(proj)
            rc, out = sh(['coq_makefile', '-f', '_CoqProject', '-o', 'Makefile'], cwd=COQ, timeout=120)
            if rc != 0:
                return False, out
        rc, out = sh(['make', '-j14', '-k'] + list(targets), cwd=COQ, timeout=timeout)
        return rc == 0, out


def coq_cone(targets: Sequence[str]) -> list[Path]:
    """The .v files the targets depend on (transitively), from coqdep's output."""
    dep = COQ / '.Makefile.d'
    if not dep.exists():
        return []
    graph: dict[str, list[str]] = {}
    for line in dep.read_text().replace('\\\n', ' ').splitlines():
        if ':' not in line:
            continue
        lhs, rhs = line.split(':', 1)
        outs = [x for x in lhs.split() if x.endswith('.vo')]
        deps = [x for x in rhs.split() if x.endswith('.vo') and x.startswith('theories/')]
        for o in outs:
            graph.setdefault(o, []).extend(deps)
    seen: set[str] = set()
    todo = list(targets)
    while todo:
        t = todo.pop()
        if t in seen:
            continue
        seen.add(t)
        todo.extend(graph.get(t, []))
    return sorted(COQ / (t[:-1]) for t in seen)


def strip_comments(src: str) -> str:
    out, depth, i = [], 0, 0
    while i < len(src):
        if src.startswith('(*', i):
            depth += 1
            i += 2
        elif src.startswith('*)', i) and depth:
            depth -= 1
            i += 2
        else:
            if not depth:
                out.append(src[i])
            elif src[i] == '\n':
                out.append('\n')
            i += 1
    return ''.join(out)


def static_audit(files: Iterable[Path]) -> list[tuple[str, int, str]]:
    bad = []
    for p in files:
        if not p.exists():
            continue
        src = strip_comments(p.read_text())
        # drop string literals
        src = re.sub(r'"[^"\n]*"', '""', src)
        stack: list[str] = []          # enclosing Section / Module kinds
        # scan sentence by sentence (several vernacular sentences may share a line)
        pos = 0
        for sent in re.split(r'(?<=\.)\s+', src):
            n = src.count('\n', 0, src.find(sent, pos)) + 1 if sent else 0
            pos = max(pos, src.find(sent, pos))
            st = sent.strip()
            m0 = re.match(r'(Section|Module\s+Type|Module)\s+([A-Za-z_][\w\']*)\s*(\.|:|\(|<)?', st)
            if m0 and ':=' not in st:
                stack.append('Section' if m0.group(1) == 'Section' else 'Module')
            for m in FORBIDDEN.finditer(st):
                w = m.group(0)
                if w in SECTION_ONLY and 'Section' in stack:
                    continue
                bad.append((str(p.relative_to(VERIF)), n, w))
            if re.match(r'End\s+[A-Za-z_]', st) and stack:
                stack.pop()
    return bad


def theorem_names(path: Path) -> list[str]:
    if not path.exists():
        return []
    src = strip_comments(path.read_text())
    return re.findall(r'^\s*Theorem\s+([A-Za-z_][A-Za-z0-9_\']*)', src, re.M)


def print_assumptions(ctx: Ctx, prop_file: str, thms: Sequence[str]) -> dict[str, Optional[list[str]]]:
    mod = 'AB.' + prop_file.replace('/', '.')
    lines = [f'Require Import {mod}.']
    for t in thms:
        lines.append(f'Print Assumptions {t}.')
    p = ctx.scratch / f'Audit_{prop_file.replace("/", "_")}.v'
    p.write_text('\n'.join(lines) + '\n')
    rc, out = sh(['coqc', '-Q', str(THEORIES), 'AB', p.name], cwd=ctx.scratch, timeout=600)
    for ext in ('.vo', '.vok', '.vos', '.glob'):
        q = p.with_suffix(ext)
        if q.exists():
            q.unlink()
    res: dict[str, Optional[list[str]]] = {t: None for t in thms}
    if rc != 0:
        ctx.fail('proof', 'assumptions', f'audit of {prop_file} failed', {'log_tail': out[-1500:]})
        return res
    parts = re.split(r'^(Closed under the global context|Axioms:)\s*$', out, flags=re.M)
    # parts = [pre, marker, body, marker, body, ...]
    k = 0
    for i in range(1, len(parts), 2):
        if k >= len(thms):
            break
        if parts[i].startswith('Closed'):
            res[thms[k]] = []
        else:
            body = parts[i + 1]
            axs = [ln.strip() for ln in re.split(r'\n(?=\S)', body.strip()) if ln.strip()]
            res[thms[k]] = [re.sub(r'\s+', ' ', a) for a in axs]
        k += 1
    return res


# ---------------------------------------------------------------------------------------------
def coq_z(n: int) -> str:
    return f'({n})' if n < 0 else str(n)


def coq_list(items: Iterable[str]) -> str:
    return '[' + '; '.join(items) + ']'


def coq_zlist(xs: Iterable[int]) -> str:
    return coq_list(coq_z(x) for x in xs)


def coq_str(s: str) -> str:
    return coq_zlist(ord(c) for c in s)


def coq_opt(x: Optional[str]) -> str:
    return 'None' if x is None else f'(Some {x})'


def coq_bool(b: bool) -> str:
    return 'true' if b else 'false'


EXN_CODES = {'ValueError': 'ValueError', 'IndexError': 'IndexError', 'KeyError': 'KeyError',
             'AssertionError': 'AssertionError', 'TypeError': 'TypeError',
             'NotImplementedError': 'NotImplementedErr'}


def exn_name(e: BaseException) -> str:
    for cls in type(e).__mro__:
        if cls.__name__ in EXN_CODES:
            return EXN_CODES[cls.__name__]
    return 'ModelStuck'


# ---------------------------------------------------------------------------------------------
def load_known() -> list[dict]:
    if KNOWN_FINDINGS.exists():
        return json.loads(KNOWN_FINDINGS.read_text()).get('findings', [])
    return []


def finish(ctx: Ctx, level: str = 'proof') -> int:
    known = [k for k in load_known() if k.get('property') == ctx.prop and k.get('status', 'open') == 'open']
    known_sigs = {k['signature']: k for k in known}
    lines: list[str] = []
    violations = 0
    REPLAYS.mkdir(exist_ok=True)
    concrete = ctx.concrete()
    seen_known: set[str] = set()
    new_concrete = []
    for f in concrete:
        if f.signature in known_sigs:
            if f.signature not in seen_known:
                seen_known.add(f.signature)
                lines.append(f'KNOWN-FINDING: property={ctx.prop} {known_sigs[f.signature]["what"]}')
        else:
            new_concrete.append(f)
    broken = [f for f in ctx.failures if f.kind in ('proof', 'tie', 'corr')]
    if new_concrete:
        f = new_concrete[0]
        h = hashlib.sha1(json.dumps(f.to_json(), sort_keys=True, default=str).encode()).hexdigest()[:10]
        path = REPLAYS / f'{ctx.prop}-{h}.json'
        path.write_text(json.dumps({'property': ctx.prop, 'seed': ctx.seed, 'tier': ctx.tier,
                                    'failure': f.to_json(),
                                    'other_failures': [x.to_json() for x in ctx.failures if x is not f][:10]},
                                   indent=1, default=str))
        lines.append(f'# {f.what}')
        lines.append(f'VIOLATION property={ctx.prop} replay={path}')
        violations = len(new_concrete)
    elif broken:
        f = broken[0]
        h = hashlib.sha1(json.dumps(f.to_json(), sort_keys=True, default=str).encode()).hexdigest()[:10]
        path = REPLAYS / f'{ctx.prop}-{h}.json'
        path.write_text(json.dumps({'property': ctx.prop, 'seed': ctx.seed, 'tier': ctx.tier,
                                    'no_failing_input_found': True,
                                    'what_no_longer_checks': [x.to_json() for x in broken][:10],
                                    'searched': dict(ctx.counters)}, indent=1, default=str))
        lines.append(f'# {f.kind}: {f.what}')
        lines.append(f'VIOLATION property={ctx.prop} replay={path} no-failing-input-found')
        violations = 1
    obligations = len(ctx.obligations)
    discharged = sum(1 for o in ctx.obligations if o['ok'])
    wall = time.time() - ctx.t0
    cov = {
        'obligations': obligations,
        'discharged': discharged,
        'checker_cmd': ' && '.join(ctx.checker_cmds) or 'none',
        'trusted_base': ['Coq 8.16.1 kernel + VM (vm_compute; no native_compute, no -type-in-type, no guard/positivity/universe switches)',
                         'axioms: none declared; every property theorem audited by Print Assumptions on this run (see theorems[].assumptions)',
                         'no extraction is used (no Extract Constant / Extract Inductive): the model is evaluated inside Coq',
                         'correspondence harness (Python, harness/*.py): drives the real implementation in-process, renders its observations as Coq terms, coqc evaluates check_case with vm_compute',
                         'translator translate/gen.py (Python ast, fail-closed) where Generated.v is used',
                         'modelled, not verified: see assumptions'] + ctx.trusted,
        'theorems': ctx.obligations,
        'evaluations': ctx.counters.get('evaluations', 0),
        'distinct_nontrivial': len(ctx.distinct),
        'rule': ctx.rule,
        'samples': ctx.samples[:12] or ['(no case was generated)'],
        'traces_validated_against_impl': ctx.counters.get('traces_validated_against_impl', 0),
        'counters': ctx.counters,
        'distribution': ctx.distribution,
        'notes': ctx.notes,
        'deep_search': ctx.deep,
    }
    if getattr(ctx, 'impl_coverage', None):
        cov['impl_coverage'] = ctx.impl_coverage
    ev = {'property_id': ctx.prop, 'tier': ctx.tier, 'seed': ctx.seed, 'level': level, 'coverage': cov,
          'assumptions': ctx.assumptions, 'wall_s': round(wall, 2), 'violations': violations}
    EVIDENCE.mkdir(exist_ok=True)
    (EVIDENCE / f'{ctx.prop}.json').write_text(json.dumps(ev, indent=1, default=str))
    for ln in lines:
        print(ln)
    print(f'[{ctx.prop}] tier={ctx.tier} seed={ctx.seed} obligations={discharged}/{obligations} '
          f'evaluations={cov["evaluations"]} distinct={cov["distinct_nontrivial"]} '
          f'failures={len(ctx.failures)} wall={wall:.1f}s')
    sys.stdout.flush()
    return 1 if violations else 0
