"""C04 - operations that are not edits never change the document.
Shares the driver of harness/c14.py (layouts, histories of claim/unclaim/auto-claim calls, tap on the primitive
comment operations, correspondence with Comments.v); the monitors that count here are: printed text and the
sequence of non-placeholder tokens (identity, kind, text) unchanged after every call, the token set unchanged,
and a read-only sweep (every public attribute of every reachable model and wrapper, iteration, len, ==, hash,
repr, copy.deepcopy, printing) that must leave the store snapshot untouched.
The theorems about lazily created / cached wrappers and views, wrapper copies and reads through views
(C04_wrapper_read_step, C04_read_history: WholeField.v) are tied to the implementation by a slice of
harness/wholefield.py: the same histories as C10/C19 are run on the real code and replayed on WholeField.v inside Coq
(caches, handler lists, what every handle shows, after every step), and after every step that is not an edit the
monitor C04:read-step-changed-a-list compares every list, view, wrapped Repeated, the printed text and the token
identities of the documents with what they were before it."""
import json

from harness import common, c14, wholefield


def run(ctx: common.Ctx):
    ctx.rule = c14.RULE
    ctx.assumptions += c14.ASSUME + [
        'getters/iteration/==/hash/deepcopy/print do not write the store: true of the model by construction, '
        'established for the implementation by the read-only sweep and the read-step monitor (monitors), not by a '
        'theorem; the theorems about cached wrappers / views / wrapper copies are about WholeField.v, validated against '
        'the implementation step by step (whole-field correspondence)']
    ctx.require_coq(['properties/C04'], extra_targets=['CommentsRun', 'WholeFieldRun'])
    c14.run_all(ctx, 'C04', 330, 1500)
    wholefield.run_all(ctx, 50, 400, sigs={wholefield.SIG_READ})


def search(ctx: common.Ctx):
    c14.run_all(ctx, 'C04', 330, 1500)
    wholefield.run_all(ctx, 50, 400, sigs={wholefield.SIG_READ})


def replay(ctx, path):
    data = json.loads(open(path).read())
    f = data.get('failure') or (data.get('what_no_longer_checks') or [{}])[0]
    if (f.get('witness') or {}).get('wholefield'):
        return wholefield.replay(ctx, f['witness'])
    return c14.replay_witness(ctx, 'C04', path)
