"""C04 - operations that are not edits never change the document.
Shares the driver of harness/c14.py (layouts, histories of claim/unclaim/auto-claim calls, tap on the primitive
comment operations, correspondence with Comments.v); the monitors that count here are: printed text and the
sequence of non-placeholder tokens (identity, kind, text) unchanged after every call, the token set unchanged,
and a read-only sweep (every public attribute of every reachable model and wrapper, iteration, len, ==, hash,
repr, copy.deepcopy, printing) that must leave the store snapshot untouched."""
from harness import common, c14


def run(ctx: common.Ctx):
    ctx.rule = c14.RULE
    ctx.assumptions += c14.ASSUME + [
        'getters/iteration/==/hash/deepcopy/print do not write the store: true of the model by construction, '
        'established for the implementation by the read-only sweep (monitor), not by a theorem']
    ctx.require_coq(['properties/C04'], extra_targets=['CommentsRun'])
    c14.run_all(ctx, 'C04', 330, 1500)


def search(ctx: common.Ctx):
    c14.run_all(ctx, 'C04', 330, 1500)


def replay(ctx, path):
    return c14.replay_witness(ctx, 'C04', path)
