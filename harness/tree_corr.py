"""Correspondence of the generic Coq tree model (Tree.v, driven by the descriptors regenerated from the
source) with the implementation: `==`, first_token/last_token, copy.deepcopy and reattach (via pop) on
real model objects, dumped as Coq `node` terms and re-computed inside Coq (TreeRun.check_case)."""
from __future__ import annotations

import copy
import random

from harness import common, gen_docs, treewalk
from harness import store_driver as sd



CONFORMS = """
(* the hypothesis `conforms all_classes n` of the C05/C11/C20 theorems is evaluated on every dumped node *)
Definition case_conforms (c : tcase) : bool :=
  match c with
  | TEq a b _ => conforms all_classes a && conforms all_classes b
  | TBorder a _ _ => conforms all_classes a
  | TCopy a cp _ => conforms all_classes a && conforms all_classes cp
  | TReattach a _ after => conforms all_classes a && conforms all_classes after
  end.
Definition check_case_c (c : tcase) : bool := check_case c && case_conforms c.
"""


PREAMBLE = 'From AB Require Import Prelude.\nFrom AB Require Import Desc Generated Tree TreeDefs TreeWF TreeRun.\nFrom Coq Require Import ZArith String List.\nImport ListNotations.\nOpen Scope string_scope.\nOpen Scope Z_scope.\n' + CONFORMS


def q(s: str) -> str:
    return '"' + s.replace('"', '""') + '"'


class Dumper:
    def __init__(self):
        self.tok_ids: dict[int, int] = {}
        self.store_ids: dict[int, int] = {}
        self.keep = []          # keep objects alive so id() stays unique

    def tid(self, t) -> int:
        k = id(t)
        if k not in self.tok_ids:
            self.tok_ids[k] = len(self.tok_ids) + 1
            self.keep.append(t)
        return self.tok_ids[k]

    def sid(self, s) -> int:
        k = id(s)
        if k not in self.store_ids:
            self.store_ids[k] = len(self.store_ids)
            self.keep.append(s)
        return self.store_ids[k]

    def tk(self, t) -> str:
        return f'(mktk {self.tid(t)} {q(t.RULE)} {q(t.raw_text)})'

    def toks(self, m) -> str:
        return '[' + '; '.join(self.tk(t) for t in m.tokens) + ']'

    def node(self, m) -> str:
        from autobean_refactor import models
        from autobean_refactor.models import base
        from autobean_refactor.models.internal.repeated import Repeated
        if isinstance(m, base.RawTokenModel):
            return f'(Leaf {self.tk(m)})'
        if isinstance(m, (models.NumberAddExpr, models.NumberMulExpr)):
            items = '; '.join(self.node(v) for _, v in treewalk.node_fields(m))
            return (f'(Tree {q(type(m).__name__)} {self.sid(m.token_store)} {self.toks(m)} '
                    f'[("seq", SSeq [{items}])] [])')
        kids = []
        for k, v in treewalk.node_fields(m):
            if isinstance(v, Repeated):
                items = '; '.join(self.node(x) for x in v.items)
                kids.append(f'({q(k)}, SRep {self.sid(v.token_store)} {self.toks(v)} {self.tk(v.placeholder)} [{items}])')
            else:
                fld = getattr(type(m), k, None)
                from autobean_refactor.models.internal import fields as F
                if isinstance(fld, F.optional_field):
                    kids.append(f'({q(k)}, SOpt {"None" if v is None else "(Some " + self.node(v) + ")"})')
                else:
                    kids.append(f'({q(k)}, SReq {self.node(v)})')
        data = []
        if 'indent_by' in m.__dict__:
            data.append(f'("indent_by", {q(m.__dict__["indent_by"])})')
        return (f'(Tree {q(type(m).__name__)} {self.sid(m.token_store)} {self.toks(m)} '
                f'[{"; ".join(kids)}] [{"; ".join(data)}])')


def wcase(d: 'Dumper', m, whole: bool) -> str:
    store = 'None'
    node = d.node(m)
    if whole:
        store = '(Some [' + '; '.join(d.tk(t) for t in m.token_store) + '])'
    return f'TWf {node} {store}'


def small_doc(rng):
    return gen_docs.ledger(rng, n_dir=rng.choice([1, 1, 2, 3]))


def run(ctx: common.Ctx, prop: str):
    from autobean_refactor import models
    from autobean_refactor.models import base
    from autobean_refactor.models.internal.repeated import Repeated
    from autobean_refactor.models.internal import properties as props
    from harness import edits
    cases, metas = [], []
    wcases, wmetas = [], []
    n_docs = ctx.scale(60, 500)
    sd.set_load_factor(1000)
    for _ in range(n_docs):
        text = small_doc(ctx.rng)
        ac = ctx.rng.random() < 0.7
        a, b = gen_docs.parse_ok(text, ac), gen_docs.parse_ok(text, ac)
        if a is None:
            continue
        r = random.Random(ctx.rng.randrange(1 << 30))
        na = [(p, m) for p, m in treewalk.walk(a) if isinstance(m, base.RawTreeModel) and not isinstance(m, Repeated)]
        nb = [(p, m) for p, m in treewalk.walk(b) if isinstance(m, base.RawTreeModel) and not isinstance(m, Repeated)]
        if prop in ('C20', 'C06', 'C15'):
            # equality: twin pairs, cross pairs, perturbed twins (a token text, indent_by, a removed/added child)
            for _k in range(3):
                i = r.randrange(len(na))
                (p, x), (_, y) = na[i], nb[i]
                d = Dumper()
                cases.append(f'TEq {d.node(x)} {d.node(y)} {common.coq_bool(x == y)}')
                metas.append({'kind': 'eq-twin', 'text': text, 'path': p})
            (p, x), (qq, y) = r.choice(na), r.choice(nb)
            d = Dumper()
            cases.append(f'TEq {d.node(x)} {d.node(y)} {common.coq_bool(x == y)}')
            metas.append({'kind': 'eq-cross', 'text': text, 'a': p, 'b': qq})
            # perturb b
            i = r.randrange(len(nb))
            (p, x), (_, y) = na[i], nb[i]
            what = None
            if 'indent_by' in y.__dict__ and r.random() < 0.5:
                y.indent_by = y.indent_by + ' '
                what = 'indent_by'
            else:
                e = edits.random_edit(r, b)
                what = repr(e)
                nb = [(p2, m) for p2, m in treewalk.walk(b) if isinstance(m, base.RawTreeModel) and not isinstance(m, Repeated)]
            # compare whole documents and the perturbed node's ancestors
            for (p1, x1), (p2, y1) in zip(na[:1], nb[:1]):
                d = Dumper()
                try:
                    impl = (x1 == y1)
                except Exception:
                    continue
                cases.append(f'TEq {d.node(x1)} {d.node(y1)} {common.coq_bool(impl)}')
                metas.append({'kind': 'eq-perturbed', 'text': text, 'perturbation': what})
                if what == 'indent_by' and impl:
                    ctx.monitor_failure('C20:indent_by-ignored', f'{p}: changing indent_by of a nested model left the documents equal',
                                        {'text': text, 'path': p})
        if prop == 'C05':
            # the verified checker wf_b (TreeWF.wf_b_sound) on implementation states: parsed, sub-node, after edits
            d = Dumper()
            wcases.append(wcase(d, a, True)); wmetas.append({'kind': 'wf-parsed', 'text': text})
            p_, x_ = r.choice(na)
            d = Dumper()
            wcases.append(wcase(d, x_, False)); wmetas.append({'kind': 'wf-subnode', 'text': text, 'path': p_})
            hist = []
            for _e in range(r.choice([1, 2, 4])):
                e = edits.random_edit(r, b)
                if e is not None:
                    hist.append(repr(e))
            d = Dumper()
            wcases.append(wcase(d, b, True)); wmetas.append({'kind': 'wf-after-edits', 'text': text, 'history': hist})
            nb = [(p2, m) for p2, m in treewalk.walk(b) if isinstance(m, base.RawTreeModel) and not isinstance(m, Repeated)]
        if prop in ('C05', 'C01', 'C15'):
            for _k in range(4):
                p, x = r.choice(na)
                if isinstance(x, models.File):
                    continue
                d = Dumper()
                term = d.node(x)
                cases.append(f'TBorder {term} {d.tid(x.first_token)} {d.tid(x.last_token)}')
                metas.append({'kind': 'border', 'text': text, 'path': p})
            # reattach via pop()
            ws = []
            for p, m in na:
                for name, pr in edits.class_props(type(m)).items():
                    if name.startswith('raw_'):
                        w = getattr(m, name)
                        if isinstance(w, props.RepeatedNodeWrapper) and len(w):
                            ws.append((p + '.' + name, w))
            if ws:
                name, w = r.choice(ws)
                i = r.randrange(len(w))
                item = w[i]
                if isinstance(item, base.RawTreeModel):
                    d = Dumper()
                    before = d.node(item)
                    try:
                        popped = w.pop(i)
                    except Exception:
                        popped = None
                    if popped is not None:
                        after = d.node(popped)
                        cases.append(f'TReattach {before} {d.sid(popped.token_store)} {after}')
                        metas.append({'kind': 'reattach-pop', 'text': text, 'wrapper': name, 'index': i})
                        d2 = Dumper()
                        wcases.append(wcase(d2, popped, True)); wmetas.append({'kind': 'wf-popped', 'text': text, 'wrapper': name, 'index': i})
        if prop in ('C11',):
            for _k in range(3):
                p, x = r.choice(na)
                d = Dumper()
                try:
                    c = copy.deepcopy(x)
                except Exception:
                    continue
                d.sid(c.token_store)        # the copy's store is store 0 of this case
                term_c = d.node(c)
                term_a = d.node(x)
                olds = list(x.token_store.iter(x.first_token, x.last_token))
                news = list(c.token_store)
                if len(olds) != len(news):
                    continue
                idmap = '[' + '; '.join(f'({d.tid(o)}, {d.tid(n)})' for o, n in zip(olds, news)) + ']'
                cases.append(f'TCopy {term_a} {term_c} {idmap}')
                metas.append({'kind': 'deepcopy', 'text': text, 'path': p})
                d2 = Dumper()
                wcases.append(wcase(d2, c, True)); wmetas.append({'kind': 'wf-deepcopy', 'text': text, 'path': p})
    if prop == 'C15':
        # constructed models: the verified WF checker on from_value results and assembled files
        from autobean_refactor import models as M
        r = random.Random(ctx.rng.randrange(1 << 30))
        for _ in range(ctx.scale(40, 300)):
            m = r.choice([edits.make_directive, edits.make_posting, lambda rr: edits.make_meta_item(rr),
                          lambda rr: M.File.from_value([edits.make_directive(rr) for _ in range(rr.choice([1, 2, 3]))])])(r)
            d = Dumper()
            wcases.append(wcase(d, m, True)); wmetas.append({'kind': 'wf-constructed', 'class': type(m).__name__, 'text': treewalk.text_of(m)})
    if wcases:
        badw = ctx.run_coq_cases('treewf', PREAMBLE, 'wcase', 'check_wcase', wcases, chunk=20)
        ctx.count('traces_validated_against_impl', len(wcases) - len(badw))
        for k in wmetas:
            ctx.dist('corr=' + k['kind'])
        for i in badw[:3]:
            ctx.fail('corr', 'tree-wf-' + wmetas[i]['kind'],
                     f'the verified well-formedness checker TreeWF.wf_b rejects an implementation state ({wmetas[i]["kind"]})', wmetas[i])
    if not cases:
        return
    bad = ctx.run_coq_cases('tree', PREAMBLE, 'tcase', 'check_case_c', cases, chunk=25)
    ctx.count('traces_validated_against_impl', len(cases) - len(bad))
    for k in metas:
        ctx.dist('corr=' + k['kind'])
    for i in bad[:3]:
        ctx.fail('corr', 'tree-correspondence-' + metas[i]['kind'],
                 f'Tree.v (driven by the descriptors extracted from models/generated) and the implementation disagree on {metas[i]["kind"]}',
                 metas[i])
