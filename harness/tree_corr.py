"""Correspondence of the generic Coq tree model (Tree.v, driven by the descriptors regenerated from the
source) with the implementation: `==`, first_token/last_token, copy.deepcopy and reattach (via pop) on
real model objects, dumped as Coq `node` terms and re-computed inside Coq (TreeRun.check_case)."""
from __future__ import annotations

import copy
import random

from harness import common, gen_docs, treewalk
from harness import store_driver as sd



CONFORMS = """
(* the hypothesis `conforms all_classes n` of the C05/C11/C20 theorems is evaluated on every dumped node *)
Definition case_conforms (c : tcase) : bool :=
  match c with
  | TEq a b _ => conforms all_classes a && conforms all_classes b
  | TBorder a _ _ => conforms all_classes a
  | TCopy a cp _ => conforms all_classes a && conforms all_classes cp
  | TReattach a _ after => conforms all_classes a && conforms all_classes after
  end.
Definition check_case_c (c : tcase) : bool := check_case c && case_conforms c.
"""


PREAMBLE = 'From AB Require Import Prelude.\nFrom AB Require Import Desc Generated Tree TreeDefs TreeWF TreeRun.\nFrom Coq Require Import ZArith String List.\nImport ListNotations.\nOpen Scope string_scope.\nOpen Scope Z_scope.\n' + CONFORMS


def q(s: str) -> str:
    return '"' + s.replace('"', '""') + '"'


class Dumper:
    def __init__(self):
        self.tok_ids: dict[int, int] = {}
        self.store_ids: dict[int, int] = {}
        self.keep = []          # keep objects alive so id() stays unique

    def tid(self, t) -> int:
        k = id(t)
        if k not in self.tok_ids:
            self.tok_ids[k] = len(self.tok_ids) + 1
            self.keep.append(t)
        return self.tok_ids[k]

    def sid(self, s) -> int:
        k = id(s)
        if k not in self.store_ids:
            self.store_ids[k] = len(self.store_ids)
            self.keep.append(s)
        return self.store_ids[k]

    def tk(self, t) -> str:
        return f'(mktk {self.tid(t)} {q(t.RULE)} {q(t.raw_text)})'

    def toks(self, m) -> str:
        return '[' + '; '.join(self.tk(t) for t in m.tokens) + ']'

    def node(self, m) -> str:
        from autobean_refactor import models
        from autobean_refactor.models import base
        from autobean_refactor.models.internal.repeated import Repeated
        if isinstance(m, base.RawTokenModel):
            return f'(Leaf {self.tk(m)})'
        if isinstance(m, (models.NumberAddExpr, models.NumberMulExpr)):
            items = '; '.join(self.node(v) for _, v in treewalk.node_fields(m))
            return (f'(Tree {q(type(m).__name__)} {self.sid(m.token_store)} {self.toks(m)} '
                    f'[("seq", SSeq [{items}])] [])')
        kids = []
        for k, v in treewalk.node_fields(m):
            if isinstance(v, Repeated):
                items = '; '.join(self.node(x) for x in v.items)
                kids.append(f'({q(k)}, SRep {self.sid(v.token_store)} {self.toks(v)} {self.tk(v.placeholder)} [{items}])')
            else:
                fld = getattr(type(m), k, None)
                from autobean_refactor.models.internal import fields as F
                if isinstance(fld, F.optional_field):
                    kids.append(f'({q(k)}, SOpt {"None" if v is None else "(Some " + self.node(v) + ")"})')
                else:
                    kids.append(f'({q(k)}, SReq {self.node(v)})')
        data = []
        if 'indent_by' in m.__dict__:
            data.append(f'("indent_by", {q(m.__dict__["indent_by"])})')
        return (f'(Tree {q(type(m).__name__)} {self.sid(m.token_store)} {self.toks(m)} '
                f'[{"; ".join(kids)}] [{"; ".join(data)}])')


def wcase(d: 'Dumper', m, whole: bool) -> str:
    store = 'None'
    node = d.node(m)
    if whole:
        store = '(Some [' + '; '.join(d.tk(t) for t in m.token_store) + '])'
    return f'TWf {node} {store}'


def small_doc(rng):
    return gen_docs.ledger(rng, n_dir=rng.choice([1, 1, 2, 3]))


PREAMBLE_OPT = PREAMBLE + 'From AB Require Import TreeEdit.\n'


def opt_sites(root):
    """(path steps as Coq terms, model, public property name, field name) for every optional_node_property of every
    tree model reachable from `root` through required / present optional fields and items of repeated fields
    (the steps TreeEdit.select understands)."""
    from autobean_refactor import models
    from autobean_refactor.models import base
    from autobean_refactor.models.internal.repeated import Repeated
    from autobean_refactor.models.internal import properties as props
    from autobean_refactor.models.internal import fields as F
    out = []

    def rec(m, steps):
        if isinstance(m, base.RawTokenModel) or isinstance(m, (models.NumberAddExpr, models.NumberMulExpr, Repeated)):
            return
        fields = treewalk.node_fields(m)
        names = {k for k, _ in fields}
        seen = set()
        for cls in type(m).__mro__:
            for pname, attr in vars(cls).items():
                if pname in seen or not isinstance(attr, props.optional_node_property):
                    continue
                seen.add(pname)
                if getattr(type(m), pname, None) is not attr:
                    continue
                inner = getattr(attr, '_inner_field', None)
                fname = getattr(inner, '_attr', None)
                if fname not in names and pname.startswith('raw_') and '_' + pname[4:] in names:
                    fname = '_' + pname[4:]          # generated naming convention (private names may be renamed)
                if (inner is None or isinstance(inner, F.optional_field)) and fname in names:
                    out.append((list(steps), m, pname, fname))
        for k, v in fields:
            if isinstance(v, Repeated):
                for i, it in enumerate(v.items):
                    rec(it, steps + [f'SItem {q(k)} {i}%nat'])
            elif v is not None:
                rec(v, steps + [f'SField {q(k)}'])

    rec(root, [])
    return out


def edit_sites(root):
    """Sites for tree-level edits below `root` (steps TreeEdit.select understands): ('field', steps, model, property,
    field) for required / optional node properties, ('rep', steps, model, property, field) for repeated node
    properties whose wrapper edits the Repeated stored in that field."""
    from autobean_refactor import models
    from autobean_refactor.models import base
    from autobean_refactor.models.internal.repeated import Repeated
    from autobean_refactor.models.internal import properties as props
    out = []

    def rec(m, steps):
        if isinstance(m, base.RawTokenModel) or isinstance(m, (models.NumberAddExpr, models.NumberMulExpr, Repeated)):
            return
        fields = treewalk.node_fields(m)
        names = {k for k, _ in fields}
        seen = set()
        for cls in type(m).__mro__:
            for pname, attr in vars(cls).items():
                if pname in seen or not pname.startswith('raw_'):
                    continue
                seen.add(pname)
                if getattr(type(m), pname, None) is not attr:
                    continue
                fname = getattr(getattr(attr, '_inner_field', None), '_attr', None)
                if fname not in names and '_' + pname[4:] in names:
                    fname = '_' + pname[4:]          # generated naming convention (private names may be renamed)
                if fname not in names:
                    continue
                if isinstance(attr, (props.required_node_property, props.optional_node_property)):
                    out.append(('field', list(steps), m, pname, fname))
                else:
                    try:
                        w = getattr(m, pname)
                    except Exception:  # noqa
                        continue
                    if isinstance(w, props.RepeatedNodeWrapper) and w.repeated is m.__dict__.get(fname):
                        out.append(('rep', list(steps), m, pname, fname))
        for k, v in fields:
            if isinstance(v, Repeated):
                for i, it in enumerate(v.items):
                    rec(it, steps + [f'SItem {q(k)} {i}%nat'])
            elif v is not None:
                rec(v, steps + [f'SField {q(k)}'])

    rec(root, [])
    return out


def item_edits(ctx, r, text, ac, pool, ecases, emetas):
    """Real edits on a freshly parsed document for TreeRun.check_ecase: a required / present optional child or an
    item replaced by a fresh deep copy (TPlug), `raw_xs.insert(i, fresh)` / `append` (TInsert: index 0 of a non-empty
    list, middle, end, empty list), `raw_xs.pop(i)` / `del raw_xs[i]` (TRemove: first of several, middle, last, only
    item). Dumped before/after with one Dumper; the C05 statement is evaluated on the document after every edit."""
    from autobean_refactor.models import base
    doc = gen_docs.parse_ok(text, ac)
    if doc is None:
        return
    for _k in range(4):
        top = r.choice([x for x in doc.raw_directives_with_comments if isinstance(x, base.RawTreeModel)] + [doc])
        sites = edit_sites(top)
        if not sites:
            continue
        for kind, steps, m, pname, fname in sites:
            if kind == 'rep':
                key = (type(m).__name__, pname)
                for it in list(getattr(m, pname))[:2]:
                    if len(pool.setdefault(key, [])) < 4:
                        pool[key].append(copy.deepcopy(it))
        reps = [st for st in sites if st[0] == 'rep']
        flds = [st for st in sites if st[0] == 'field' and getattr(st[2], st[3]) is not None]
        want = r.choice(['plug', 'insert', 'insert', 'remove', 'remove'])
        if want == 'plug' or not reps:
            cands = flds + [st for st in reps if len(getattr(st[2], st[3]))]
            if not cands:
                continue
            kind, steps, m, pname, fname = r.choice(cands)
            if kind == 'field':
                p = steps + [f'SField {q(fname)}']
                act = lambda: setattr(m, pname, copy.deepcopy(getattr(m, pname)))
                where = 'field'
            else:
                w = getattr(m, pname)
                i = r.randrange(len(w))
                p = steps + [f'SItem {q(fname)} {i}%nat']
                act = lambda: w.__setitem__(i, copy.deepcopy(w[i]))
                where = 'item'
            mk = lambda before, p2, after: f'TPlug {before} [{"; ".join(p2)}] {after}'
            meta_kind = 'plug-' + where
        else:
            longer = [st for st in reps if len(getattr(st[2], st[3])) >= 2]
            kind, steps, m, pname, fname = r.choice(longer if longer and r.random() < 0.6 else reps)
            w = getattr(m, pname)
            n = len(w)
            key = (type(m).__name__, pname)
            if want == 'insert' or n == 0:
                if not pool.get(key):
                    continue
                donor = copy.deepcopy(r.choice(pool[key]))
                i = r.choice([0, n, r.randrange(n + 1)] + ([r.randrange(1, n)] * 2 if n >= 2 else []))
                shape = 'empty' if n == 0 else 'first' if i == 0 else 'end' if i == n else 'middle'
                if i == n and r.random() < 0.5:
                    act = lambda: w.append(donor)
                else:
                    act = lambda: w.insert(i, donor)
                mk = lambda before, p2, after: f'TInsert {before} [{"; ".join(p2)}] {q(fname)} {i}%nat {after}'
                meta_kind = 'insert-' + shape
            else:
                i = r.choice([0, n - 1, r.randrange(n)] + ([r.randrange(1, n - 1)] * 2 if n >= 3 else []))
                shape = 'only' if n == 1 else 'first' if i == 0 else 'last' if i == n - 1 else 'middle'
                if r.random() < 0.5:
                    act = lambda: w.pop(i)
                else:
                    act = lambda: w.__delitem__(i)
                mk = lambda before, p2, after: f'TRemove {before} [{"; ".join(p2)}] {q(fname)} {i}%nat {after}'
                meta_kind = 'remove-' + shape
            p = steps
        if r.random() < 0.5 or top is doc:
            root, pp = top, p
        else:
            # the model itself as the root: drop the steps that lead to it
            root, pp = m, p[len(steps):]
        d = Dumper()
        before = d.node(root)
        meta = {'kind': meta_kind, 'text': text, 'auto_claim': ac, 'class': type(m).__name__, 'property': pname, 'path': pp}
        try:
            act()
        except Exception as e:  # noqa
            ctx.dist('tree-edit-refused=' + common.exn_name(e))
            continue
        after = d.node(root)
        ecases.append(mk(before, pp, after))
        emetas.append(meta)
        ctx.case({'tree-edit': meta_kind, 'class': type(m).__name__, 'property': pname, 'text': text})
        probs = treewalk.wf_problems(doc, expect_whole_store=True)
        if probs:
            ctx.monitor_failure('C05:' + meta_kind.split('-')[0] + '-edit',
                                f'after {meta_kind} on {type(m).__name__}.{pname}: {probs[0]}', dict(meta, problems=probs[:3]))
            return


GLUED_ITEM_TEXTS = [
    # (ledger, public property of the first directive): an item written right against the next one; popping it keeps
    # the blanks in front of it (RepeatedNodeWrapper._del_tokens, fixes/repeated-remove-keeps-separator-when-glued.patch)
    ('2000-01-01 custom "x" 1 "s"2 3\n', 'raw_values'),
    ('2000-01-01 custom "x" 1  "s"2 "t"3\n', 'raw_values'),
    ('2000-01-01 custom "x" 1 "s"(2) "t" 3\n', 'raw_values'),
    ('2000-01-01 * "a" #a ^l#b ^m\n', 'raw_tags_links'),
    ('2000-01-01 * "a" #a\t^l#b ^m^n\n', 'raw_tags_links'),
    ('2000-01-01 note Assets:A "n" #a ^l#b\n', 'raw_tags_links'),
]


def glued_item_removals(ctx, r, ecases, emetas):
    """`raw_xs.pop(i)` / `del raw_xs[i]` for every i on ledgers in which an item touches the next one (`"s"2`,
    `^l#b`): TRemove cases for TreeRun.check_ecase2 with the directive and with the file as the root."""
    for text, pname in GLUED_ITEM_TEXTS:
        probe = gen_docs.parse_ok(text, False)
        if probe is None:
            ctx.dist('tree-edit-glued-unparsed')
            continue
        n = len(getattr(probe.raw_directives_with_comments[0], pname))
        for i in range(n):
            doc = gen_docs.parse_ok(text, False)
            top = doc.raw_directives_with_comments[0]
            from_file = r.random() < 0.5
            root = doc if from_file else top
            sites = [st for st in edit_sites(root) if st[0] == 'rep' and st[2] is top and st[3] == pname]
            if not sites:
                continue
            kind, steps, m, _pn, fname = sites[0]
            w = getattr(m, pname)
            shape = 'only' if n == 1 else 'first' if i == 0 else 'last' if i == n - 1 else 'middle'
            d = Dumper()
            before = d.node(root)
            meta = {'kind': 'remove-' + shape, 'text': text, 'auto_claim': False, 'class': type(m).__name__,
                    'property': pname, 'path': steps, 'index': i, 'glued': True}
            try:
                if r.random() < 0.5:
                    w.pop(i)
                else:
                    del w[i]
            except Exception as e:  # noqa
                ctx.dist('tree-edit-refused=' + common.exn_name(e))
                continue
            after = d.node(root)
            ecases.append(f'TRemove {before} [{"; ".join(steps)}] {q(fname)} {i}%nat {after}')
            emetas.append(meta)
            ctx.case({'tree-edit': 'remove-' + shape + '-glued', 'class': type(m).__name__, 'property': pname, 'text': text})
            ctx.dist('tree-edit-glued-remove')
            probs = treewalk.wf_problems(doc, expect_whole_store=True)
            if probs:
                ctx.monitor_failure('C05:remove-edit', f'after remove-{shape} on {type(m).__name__}.{pname}: {probs[0]}',
                                    dict(meta, problems=probs[:3]))


def optional_edits(ctx, r, text, ac, pool, ocases, ometas):
    """Real optional-field edits (`m.raw_x = None`, `m.raw_x = fresh value`) on a freshly parsed document, each dumped
    before/after with one Dumper for TreeRun.check_ocase; the C05 statement is evaluated on the whole document after
    every edit (monitor)."""
    from autobean_refactor.models import base
    doc = gen_docs.parse_ok(text, ac)
    if doc is None:
        return
    tops = [x for x in doc.raw_directives_with_comments if isinstance(x, base.RawTreeModel)]
    if not tops:
        return
    for _k in range(2):
        top = r.choice(tops)
        sites = opt_sites(top)
        if not sites:
            continue
        for steps, m, pname, fname in sites:
            v = getattr(m, pname)
            if v is not None and len(pool.setdefault((type(m).__name__, pname), [])) < 4:
                pool[(type(m).__name__, pname)].append(copy.deepcopy(v))
        steps, m, pname, fname = r.choice(sites)
        key = (type(m).__name__, pname)
        present = getattr(m, pname) is not None
        if not present and not pool.get(key):
            cands = [st for st in sites if getattr(st[1], st[2]) is not None or pool.get((type(st[1]).__name__, st[2]))]
            if not cands:
                continue
            steps, m, pname, fname = r.choice(cands)
            key = (type(m).__name__, pname)
            present = getattr(m, pname) is not None
        # two edits at this site: remove then re-create (with a deep copy), or create (donor from the pool) then remove
        saved = copy.deepcopy(getattr(m, pname)) if present else None
        for action in (('remove', 'create') if present else ('create', 'remove')):
            if r.random() < 0.5:
                root, p = top, steps
            else:
                root, p = m, []
            d = Dumper()
            before = d.node(root)
            meta = {'kind': 'opt-' + action, 'text': text, 'auto_claim': ac, 'class': type(m).__name__, 'property': pname,
                    'path': p}
            try:
                if action == 'remove':
                    setattr(m, pname, None)
                else:
                    setattr(m, pname, saved if saved is not None else copy.deepcopy(r.choice(pool[key])))
                    saved = None
            except Exception as e:  # noqa
                ctx.dist('optional-edit-refused=' + common.exn_name(e))
                break
            after = d.node(root)
            ctor = 'TRemoveOpt' if action == 'remove' else 'TCreateOpt'
            ocases.append(f'{ctor} {before} [{"; ".join(p)}] {q(fname)} {after}')
            ometas.append(meta)
            ctx.case({'optional-edit': action, 'class': type(m).__name__, 'property': pname, 'text': text})
            probs = treewalk.wf_problems(doc, expect_whole_store=True)
            if probs:
                ctx.monitor_failure('C05:optional-field-' + action,
                                    f'after {type(m).__name__}.{pname} {action}: {probs[0]}', dict(meta, problems=probs[:3]))
                return


def run(ctx: common.Ctx, prop: str):
    from autobean_refactor import models
    from autobean_refactor.models import base
    from autobean_refactor.models.internal.repeated import Repeated
    from autobean_refactor.models.internal import properties as props
    from harness import edits
    cases, metas = [], []
    wcases, wmetas = [], []
    ocases, ometas, opt_pool = [], [], {}
    ecases, emetas, item_pool = [], [], {}
    n_docs = ctx.scale(60, 500)
    sd.set_load_factor(1000)
    if prop == 'C05':
        glued_item_removals(ctx, random.Random(ctx.rng.randrange(1 << 30)), ecases, emetas)
    for _ in range(n_docs):
        text = small_doc(ctx.rng)
        ac = ctx.rng.random() < 0.7
        a, b = gen_docs.parse_ok(text, ac), gen_docs.parse_ok(text, ac)
        if a is None:
            continue
        r = random.Random(ctx.rng.randrange(1 << 30))
        na = [(p, m) for p, m in treewalk.walk(a) if isinstance(m, base.RawTreeModel) and not isinstance(m, Repeated)]
        nb = [(p, m) for p, m in treewalk.walk(b) if isinstance(m, base.RawTreeModel) and not isinstance(m, Repeated)]
        if prop in ('C20', 'C06', 'C15'):
            # equality: twin pairs, cross pairs, perturbed twins (a token text, indent_by, a removed/added child)
            for _k in range(3):
                i = r.randrange(len(na))
                (p, x), (_, y) = na[i], nb[i]
                d = Dumper()
                cases.append(f'TEq {d.node(x)} {d.node(y)} {common.coq_bool(x == y)}')
                metas.append({'kind': 'eq-twin', 'text': text, 'path': p})
            (p, x), (qq, y) = r.choice(na), r.choice(nb)
            d = Dumper()
            cases.append(f'TEq {d.node(x)} {d.node(y)} {common.coq_bool(x == y)}')
            metas.append({'kind': 'eq-cross', 'text': text, 'a': p, 'b': qq})
            # perturb b
            i = r.randrange(len(nb))
            (p, x), (_, y) = na[i], nb[i]
            what = None
            if 'indent_by' in y.__dict__ and r.random() < 0.5:
                y.indent_by = y.indent_by + ' '
                what = 'indent_by'
            else:
                e = edits.random_edit(r, b)
                what = repr(e)
                nb = [(p2, m) for p2, m in treewalk.walk(b) if isinstance(m, base.RawTreeModel) and not isinstance(m, Repeated)]
            # compare whole documents and the perturbed node's ancestors
            for (p1, x1), (p2, y1) in zip(na[:1], nb[:1]):
                d = Dumper()
                try:
                    impl = (x1 == y1)
                except Exception:
                    continue
                cases.append(f'TEq {d.node(x1)} {d.node(y1)} {common.coq_bool(impl)}')
                metas.append({'kind': 'eq-perturbed', 'text': text, 'perturbation': what})
                if what == 'indent_by' and impl:
                    ctx.monitor_failure('C20:indent_by-ignored', f'{p}: changing indent_by of a nested model left the documents equal',
                                        {'text': text, 'path': p})
        if prop == 'C05':
            # the verified checker wf_b (TreeWF.wf_b_sound) on implementation states: parsed, sub-node, after edits
            d = Dumper()
            wcases.append(wcase(d, a, True)); wmetas.append({'kind': 'wf-parsed', 'text': text})
            p_, x_ = r.choice(na)
            d = Dumper()
            wcases.append(wcase(d, x_, False)); wmetas.append({'kind': 'wf-subnode', 'text': text, 'path': p_})
            hist = []
            for _e in range(r.choice([1, 2, 4])):
                e = edits.random_edit(r, b)
                if e is not None:
                    hist.append(repr(e))
            d = Dumper()
            wcases.append(wcase(d, b, True)); wmetas.append({'kind': 'wf-after-edits', 'text': text, 'history': hist})
            nb = [(p2, m) for p2, m in treewalk.walk(b) if isinstance(m, base.RawTreeModel) and not isinstance(m, Repeated)]
            optional_edits(ctx, r, text, ac, opt_pool, ocases, ometas)
            item_edits(ctx, r, text, ac, item_pool, ecases, emetas)
        if prop in ('C05', 'C01', 'C15'):
            for _k in range(4):
                p, x = r.choice(na)
                if isinstance(x, models.File):
                    continue
                d = Dumper()
                term = d.node(x)
                cases.append(f'TBorder {term} {d.tid(x.first_token)} {d.tid(x.last_token)}')
                metas.append({'kind': 'border', 'text': text, 'path': p})
            # reattach via pop()
            ws = []
            for p, m in na:
                for name, pr in edits.class_props(type(m)).items():
                    if name.startswith('raw_'):
                        w = getattr(m, name)
                        if isinstance(w, props.RepeatedNodeWrapper) and len(w):
                            ws.append((p + '.' + name, w))
            if ws:
                name, w = r.choice(ws)
                i = r.randrange(len(w))
                item = w[i]
                if isinstance(item, base.RawTreeModel):
                    d = Dumper()
                    before = d.node(item)
                    try:
                        popped = w.pop(i)
                    except Exception:
                        popped = None
                    if popped is not None:
                        after = d.node(popped)
                        cases.append(f'TReattach {before} {d.sid(popped.token_store)} {after}')
                        metas.append({'kind': 'reattach-pop', 'text': text, 'wrapper': name, 'index': i})
                        d2 = Dumper()
                        wcases.append(wcase(d2, popped, True)); wmetas.append({'kind': 'wf-popped', 'text': text, 'wrapper': name, 'index': i})
        if prop in ('C11',):
            for _k in range(3):
                p, x = r.choice(na)
                d = Dumper()
                try:
                    c = copy.deepcopy(x)
                except Exception:
                    continue
                d.sid(c.token_store)        # the copy's store is store 0 of this case
                term_c = d.node(c)
                term_a = d.node(x)
                olds = list(x.token_store.iter(x.first_token, x.last_token))
                news = list(c.token_store)
                if len(olds) != len(news):
                    continue
                idmap = '[' + '; '.join(f'({d.tid(o)}, {d.tid(n)})' for o, n in zip(olds, news)) + ']'
                cases.append(f'TCopy {term_a} {term_c} {idmap}')
                metas.append({'kind': 'deepcopy', 'text': text, 'path': p})
                d2 = Dumper()
                wcases.append(wcase(d2, c, True)); wmetas.append({'kind': 'wf-deepcopy', 'text': text, 'path': p})
    if prop == 'C15':
        # constructed models: the verified WF checker on from_value results and assembled files
        from autobean_refactor import models as M
        r = random.Random(ctx.rng.randrange(1 << 30))
        for _ in range(ctx.scale(40, 300)):
            m = r.choice([edits.make_directive, edits.make_posting, lambda rr: edits.make_meta_item(rr),
                          lambda rr: M.File.from_value([edits.make_directive(rr) for _ in range(rr.choice([1, 2, 3]))])])(r)
            d = Dumper()
            wcases.append(wcase(d, m, True)); wmetas.append({'kind': 'wf-constructed', 'class': type(m).__name__, 'text': treewalk.text_of(m)})
    if wcases:
        badw = ctx.run_coq_cases('treewf', PREAMBLE, 'wcase', 'check_wcase', wcases, chunk=20)
        ctx.count('traces_validated_against_impl', len(wcases) - len(badw))
        for k in wmetas:
            ctx.dist('corr=' + k['kind'])
        for i in badw[:3]:
            ctx.fail('corr', 'tree-wf-' + wmetas[i]['kind'],
                     f'the verified well-formedness checker TreeWF.wf_b rejects an implementation state ({wmetas[i]["kind"]})', wmetas[i])
    if ecases:
        bade = ctx.run_coq_cases('treeedit', PREAMBLE_OPT, 'ecase', 'check_ecase2', ecases, chunk=10)
        ctx.count('traces_validated_against_impl', len(ecases) - len(bade))
        names = {'plug': 'plug_validated', 'insert': 'item_insert_validated', 'remove': 'item_remove_validated'}
        for i, k in enumerate(emetas):
            ctx.dist('corr=' + k['kind'])
            if i not in bade:
                ctx.count(names[k['kind'].split('-')[0]])
        for i in bade[:3]:
            ctx.fail('corr', 'tree-' + emetas[i]['kind'],
                     f'TreeEdit.plug/insert_item/remove_item and the implementation disagree on {emetas[i]["kind"]} of '
                     f'{emetas[i]["class"]}.{emetas[i]["property"]}, or a dumped state is not HWF', emetas[i])
    if ocases:
        bado = ctx.run_coq_cases('treeopt', PREAMBLE_OPT, 'ocase', 'check_ocase', ocases, chunk=12)
        n_ok = len(ocases) - len(bado)
        ctx.count('traces_validated_against_impl', n_ok)
        ctx.count('optional_field_edits_validated_against_model', n_ok)
        for i, k in enumerate(ometas):
            ctx.dist('corr=' + k['kind'])
            if i not in bado:
                ctx.count('optional_' + k['kind'][4:] + '_validated')
        for i in bado[:3]:
            ctx.fail('corr', 'tree-' + ometas[i]['kind'],
                     f'TreeEdit.create_opt/remove_opt (pivot from the extracted chains, separators from the field declaration) and '
                     f'the implementation disagree on {ometas[i]["kind"]} of {ometas[i]["class"]}.{ometas[i]["property"]}, '
                     f'or a dumped state is not HWF', ometas[i])
    if not cases:
        return
    bad = ctx.run_coq_cases('tree', PREAMBLE, 'tcase', 'check_case_c', cases, chunk=25)
    ctx.count('traces_validated_against_impl', len(cases) - len(bad))
    for k in metas:
        ctx.dist('corr=' + k['kind'])
    for i in bad[:3]:
        ctx.fail('corr', 'tree-correspondence-' + metas[i]['kind'],
                 f'Tree.v (driven by the descriptors extracted from models/generated) and the implementation disagree on {metas[i]["kind"]}',
                 metas[i])
