"""C03 - adding, removing or replacing a child leaves everything else untouched.

This module also holds the driver shared with C19 (harness/c19.py): seeded editing scripts over every
kind of slot (optional / required / repeated, node level and value level) of generated ledgers, run
on the real implementation; every node-level call is one correspondence case for Repeated.v /
Fields.v (RepeatedRun.check_case), and every call is watched by the two monitors:
  C03 frame : token identity lists before/after differ in one window inside the parent, siblings
              keep their text, changed tokens are the child's or separator-only tokens, and the
              layout of a repeated field (only separators between items) is preserved;
  C19       : after an exception the printed text, the token identity list of every involved store
              (donors included) and a structural dump of the trees equal the snapshot taken before.
"""
from __future__ import annotations

import copy
import datetime
import decimal
import json
import random

from harness import common, gen_docs

PREAMBLE = 'From AB Require Import Prelude PySeq Repeated Fields RepeatedRun.'
POOL_SEED = 424242
SEP_CHARS = ' \t\r\n,'

# signatures
SIG_FRAME = 'C03:frame'              # something outside one window / outside the parent changed
SIG_SIBLING = 'C03:sibling-text'     # a sibling's text changed
SIG_CHANGED = 'C03:changed-token'    # a token that is neither the child's nor a separator appeared/disappeared
SIG_LAYOUT = 'C03:layout'            # items of a repeated field no longer separated by separators only
SIG_VIEW = 'C03:view-addressed-element'   # a value-level call changed something else than the addressed element
SIG_ATOMIC = 'C19:refusal-not-atomic'
SIG_REUSE = 'C19:reuse-accepted'                 # an attached node was accepted
SIG_REUSE_CHILD = 'C19:reuse-accepted:child-spanning-free-parent'   # D15 (known finding)


# ---- private state of wrappers, found by TYPE / public shape rather than by private attribute name ------------
UNOBSERVABLE = [0]      # how often private state could not be found (a harmless rename): that comparison is skipped


def rep_of(w):
    """The Repeated model behind a repeated-field wrapper."""
    from autobean_refactor.models.internal.repeated import Repeated
    v = getattr(w, '_repeated', None)
    if isinstance(v, Repeated):
        return v
    for v in list(getattr(w, '__dict__', {}).values()):
        if isinstance(v, Repeated):
            return v
    UNOBSERVABLE[0] += 1
    return None


def seps_of(w, parent=None, name=None):
    """(separators, separators_before) of a repeated-field wrapper: token tuples. Looked up on the wrapper (old
    private names), else on any object reachable from the wrapper / the descriptor that exposes the PUBLIC field
    properties `separators` and `separators_before`."""
    a, b = getattr(w, '_separators', None), getattr(w, '_separators_before', None)
    if isinstance(a, tuple) and isinstance(b, tuple):
        return a, b
    cands = list(getattr(w, '__dict__', {}).values())
    if parent is not None and name is not None:
        for cls in type(parent).__mro__:
            d = vars(cls).get(name)
            if d is not None:
                cands += list(getattr(d, '__dict__', {}).values())
                for x in list(getattr(d, '__dict__', {}).values()):
                    cands += list(getattr(x, '__dict__', {}).values()) if hasattr(x, '__dict__') else []
                break
    for v in cands:
        try:
            sa, sb = getattr(v, 'separators', None), getattr(v, 'separators_before', None)
        except Exception:
            continue
        if isinstance(sa, tuple) and (sb is None or isinstance(sb, tuple)) and not hasattr(v, 'append'):
            return sa, (sb if sb is not None else sa)
    UNOBSERVABLE[0] += 1
    return None


def _mods():
    from autobean_refactor import models
    from autobean_refactor.models import base
    from autobean_refactor.models.internal import properties as P, fields as F, value_properties as V
    return models, base, P, F, V


# ---- walking the tree -----------------------------------------------------------------------------
def slots_of(m):
    """[(name, kind, descriptor)] node-level slots of a tree model, kind in rep / opt / req."""
    _, base, P, _, _ = _mods()
    from autobean_refactor.models.internal import interleaving_comments as IC
    out, seen = [], set()
    for cls in type(m).__mro__:
        for name, d in vars(cls).items():
            if name in seen:
                continue
            if isinstance(d, (P.repeated_node_property, IC.repeated_node_with_interleaving_comments_property)):
                out.append((name, 'rep', d))
            elif isinstance(d, P.optional_node_property):
                out.append((name, 'opt', d))
            elif isinstance(d, P.required_node_property):
                out.append((name, 'req', d))
            else:
                continue
            seen.add(name)
    return sorted(out, key=lambda x: x[0])


def slot_children(m, name, kind):
    v = getattr(m, name)
    if kind == 'rep':
        return list(v)
    return [v] if v is not None else []


def is_tree(x):
    return hasattr(x, '_token_store')


def walk(root, path=()):
    """yields (path, tree node) depth first; a path is a list of [attr] / [attr, index] steps"""
    yield list(path), root
    for name, kind, _ in slots_of(root):
        try:
            ch = slot_children(root, name, kind)
        except Exception:
            continue
        for i, c in enumerate(ch):
            if is_tree(c):
                step = [name, i] if kind == 'rep' else [name]
                yield from walk(c, tuple(path) + (step,))


def resolve(root, path):
    node = root
    for step in path:
        node = getattr(node, step[0])
        if len(step) > 1:
            node = node[step[1]]
    return node


def node_tokens(n):
    return list(n.tokens)


def node_text(n):
    return ''.join(t.raw_text for t in node_tokens(n))


def dump(n, depth=0):
    """structural dump: class names, identities, field presence, repeated lengths, recursively"""
    if n is None:
        return None
    if not is_tree(n):
        v = None
        try:
            v = repr(getattr(n, 'value', None))
        except Exception as e:
            v = 'ERR:' + type(e).__name__
        return [type(n).__name__, id(n), n.raw_text, v, id(n.token_store) if n.store_handle else None,
                getattr(n, 'claimed', None)]
    out = [type(n).__name__, id(n), id(n._token_store)]
    if depth > 30:
        return out
    for name, kind, _ in slots_of(n):
        try:
            ch = slot_children(n, name, kind)
            out.append([name, len(ch), [dump(c, depth + 1) for c in ch]])
        except Exception as e:
            out.append([name, 'ERR:' + type(e).__name__])
    return out


# ---- donors ---------------------------------------------------------------------------------------
_POOL = None


def pool():
    """A fixed rich ledger (independent of the run's seed) whose nodes serve as donor material."""
    global _POOL
    if _POOL is None:
        rng = random.Random(POOL_SEED)
        roots = []
        while len(roots) < 6:
            f = gen_docs.parse_ok(gen_docs.ledger(rng, n_dir=12))
            if f is not None:
                roots.append(f)
        index = {}
        for k, r in enumerate(roots):
            for path, n in walk(r):
                for name, kind, _ in slots_of(n):
                    try:
                        ch = slot_children(n, name, kind)
                    except Exception:
                        continue
                    for i, c in enumerate(ch):
                        index.setdefault((type(n).__name__, name), []).append(
                            [k, path + ([[name, i]] if kind == 'rep' else [[name]])])
        # children that touch exactly one end of an ancestor's span (attached donors a boundary test must catch)
        edge = {}
        for key, refs in index.items():
            for k, path in refs:
                try:
                    node = resolve(roots[k], path)
                    for j in range(len(path) - 1, 0, -1):
                        anc = resolve(roots[k], path[:j])
                        if not is_tree(anc):
                            continue
                        if (node.first_token is anc.first_token) != (node.last_token is anc.last_token):
                            edge.setdefault(key, []).append([k, path[:j], path[j:]])
                            break
                except Exception:
                    continue
        _POOL = (roots, index, edge)
    return _POOL


def pool_node(ref):
    roots = pool()[0]
    return resolve(roots[ref[0]], ref[1])


def gen_donor(rng, root, parent, name, kind, want_bad):
    """a donor descriptor for slot (parent, name); want_bad: prefer one that must be refused"""
    index = pool()[1]
    key = (type(parent).__name__, name)
    refs = index.get(key, [])
    local = []
    for path, n in walk(root):
        if type(n).__name__ == key[0]:
            try:
                ch = slot_children(n, name, kind)
            except Exception:
                continue
            for i, c in enumerate(ch):
                local.append(path + ([[name, i]] if kind == 'rep' else [[name]]))
    r = rng.random()
    if want_bad:
        if local and r < 0.25:
            # attached nodes that start or end their store (detach must look at both ends)
            st = root.token_store
            edge = [p for p in local if (resolve(root, p).first_token is st.get_first()) !=
                    (resolve(root, p).last_token is st.get_last())]
            if edge:
                return {'k': 'attached_doc', 'path': rng.choice(edge)}
        if local and r < 0.5:
            return {'k': 'attached_doc', 'path': rng.choice(local)}
        if refs and r < 0.65:
            return {'k': 'attached_pool', 'ref': rng.choice(refs)}
        if refs and r < 0.85:
            return {'k': 'child_of_copy', 'ref': rng.choice(refs)}
        if refs:
            return {'k': 'child_span', 'ref': rng.choice(refs)}
        return None
    if not refs and not local:
        return None
    if refs and r < 0.6:
        return {'k': 'copy', 'ref': rng.choice(refs)}
    if local and r < 0.8:
        return {'k': 'copy_doc', 'path': rng.choice(local)}
    if refs and kind == 'rep' and r < 0.9:
        return {'k': 'popped', 'ref': rng.choice(refs)}
    if refs:
        return {'k': 'copy', 'ref': rng.choice(refs)}
    return {'k': 'copy_doc', 'path': rng.choice(local)}


def make_donor(root, d, made):
    """returns (value, donor root used for the snapshot)"""
    k = d['k']
    if k == 'copy':
        v = copy.deepcopy(pool_node(d['ref']))
        return v, v
    if k == 'copy_doc':
        v = copy.deepcopy(resolve(root, d['path']))
        return v, v
    if k == 'attached_doc':
        v = resolve(root, d['path'])
        return v, v
    if k == 'attached_pool':
        v = pool_node(d['ref'])
        return v, v
    if k == 'popped':
        # pop the node out of a private copy of its parent list
        k0, path = d['ref']
        roots = pool()[0]
        parent = copy.deepcopy(resolve(roots[k0], path[:-1]))
        w = getattr(parent, path[-1][0])
        v = w.pop(path[-1][1])
        return v, v
    if k in ('child_span', 'child_span_doc'):
        # D15: a child whose span is the whole store of its free-standing parent
        if k == 'child_span':
            k0, path = d['ref']
            roots = pool()[0]
            parent = copy.deepcopy(resolve(roots[k0], path))
        else:
            parent = copy.deepcopy(resolve(root, d['path']))
        if is_tree(parent):
            for name, kind, _ in slots_of(parent):
                for c in slot_children(parent, name, kind):
                    st = parent.token_store
                    if c.first_token is st.get_first() and c.last_token is st.get_last():
                        return c, parent
        return parent, parent          # no such child: a plain free copy
    if k == 'child_of_copy':
        # a child of a free-standing private copy of its parent: attached (it usually starts or ends the store)
        k0, path = d['ref']
        roots = pool()[0]
        parent = copy.deepcopy(resolve(roots[k0], path[:-1]))
        return resolve(parent, path[-1:]), parent
    if k == 'twin':
        # the corresponding node of a deep copy / second parse of the document: attached, at the same store position
        twin = copy.deepcopy(root) if d.get('how', 'copy') == 'copy' else gen_docs.parse_ok(gen_docs.print_model(root))
        return resolve(twin, d['path']), twin
    if k == 'store_tok':
        v = list(root.token_store)[d['idx']]
        return v, v
    if k == 'edge_pair':
        # two free copies put into one fresh store: the first touches only its start, the second only its end
        from autobean_refactor.models.spacing import Whitespace
        base = _mods()[1]
        v1, v2 = copy.deepcopy(pool_node(d['ref'])), copy.deepcopy(pool_node(d['ref2']))
        store = base.TokenStore.from_tokens([*v1.detach(), Whitespace.from_default(), *v2.detach()])
        v1.reattach(store)
        v2.reattach(store)
        v = (v1, v2)[d['which']]
        return v, v
    if k == 'edge_child':
        k0, anc_path, rel = d['ref']
        parent = copy.deepcopy(resolve(pool()[0][k0], anc_path))
        return resolve(parent, rel), parent
    if k == 'dup':
        return made[d['of']]
    raise ValueError(k)


# ---- capture for the correspondence ---------------------------------------------------------------
class Ids:
    def __init__(self):
        self.m = {}
        self.keep = []

    def get(self, obj):
        i = self.m.get(id(obj))
        if i is None:
            i = len(self.m) + 1
            self.m[id(obj)] = i
            self.keep.append(obj)
        return i

    def known(self, obj):
        return self.m.get(id(obj), -1)


def kind_of(t) -> str:
    n = type(t).__name__
    if n in ('Placeholder', 'DedentMark', 'Eol'):
        return 'KPlaceholder'
    if n in ('Whitespace', 'Indent'):
        return 'KWhitespace'
    if n == 'Newline':
        return 'KNewline'
    if n == 'Comma':
        return 'KComma'
    return 'KOther'


def coq_tok(i, t):
    return f'(mktok {common.coq_z(i)} {kind_of(t)} {common.coq_str(t.raw_text)})'


def coq_sep(t):
    return f'({kind_of(t)}, {common.coq_str(t.raw_text)})'


def donor_store(v):
    if not is_tree(v):
        if not v.store_handle:
            return [v]
        return list(v.token_store)
    return list(v.token_store)


def coq_slice(s):
    o = lambda x: common.coq_opt(None if x is None else common.coq_z(x))
    return f'(mkslc {o(s[0])} {o(s[1])} {o(s[2])})'


def coq_op(op, info):
    k = op['op']
    if k == 'setitem':
        return f'(OSetInt {common.coq_z(op["i"])} {common.coq_bool(bool(info.get("same")))})'
    if k == 'setslice':
        return f'(OSetSlice {coq_slice(op["s"])})'
    if k == 'delitem':
        return f'(ODel (IInt {common.coq_z(op["i"])}))'
    if k == 'delslice':
        return f'(ODel (ISlice {coq_slice(op["s"])}))'
    if k == 'insert':
        return f'(OInsert {common.coq_z(op["i"])})'
    if k == 'append':
        return 'OAppend'
    if k in ('extend', 'iadd'):
        return 'OExtend'
    if k == 'pop':
        return f'(OPop {common.coq_z(op["i"])})'
    if k == 'clear':
        return 'OClear'
    if k == 'drop_many':
        return f'(ODropMany {common.coq_zlist(op["l"])})'
    if k == 'set_opt':
        return (f'(FOpt {info["side"]} {common.coq_z(info["pivot"])} {common.coq_bool(info["same"])} '
                f'{common.coq_bool(info["has_value"])})')
    if k == 'set_req':
        return f'(FReq {common.coq_bool(info["same"])})'
    raise ValueError(k)


def _ref_drop_many(ref, op, vals, sl):
    n = len(ref)
    idx = {i + n if i < 0 else i for i in op['l']}
    if any(not -n <= i < n for i in op['l']):
        raise IndexError
    ref[:] = [x for i, x in enumerate(ref) if i not in idx]


LIST_REF_OPS = {
    'setitem': lambda ref, op, vals, sl: ref.__setitem__(op['i'], vals[0]),
    'setslice': lambda ref, op, vals, sl: ref.__setitem__(sl(op['s']), list(vals)),
    'delitem': lambda ref, op, vals, sl: ref.__delitem__(op['i']),
    'delslice': lambda ref, op, vals, sl: ref.__delitem__(sl(op['s'])),
    'insert': lambda ref, op, vals, sl: ref.insert(op['i'], vals[0]),
    'append': lambda ref, op, vals, sl: ref.append(vals[0]),
    'extend': lambda ref, op, vals, sl: ref.extend(vals),
    'pop': lambda ref, op, vals, sl: ref.pop(op['i']) if op['i'] is not None else ref.pop(),
    'clear': lambda ref, op, vals, sl: ref.clear(),
    'drop_many': _ref_drop_many,
}


# ---- one call on the real implementation -----------------------------------------------------------
def is_sep_text(s: str) -> bool:
    return s.strip(SEP_CHARS) == ''


def call(root, op, want_corr=True):
    """Executes one op descriptor on the real implementation.  Returns a record with the observed
    exception class, the Coq case (or None), and the monitor findings [(sig, what)]."""
    models, base, P, F, V = _mods()
    parent = resolve(root, op['parent'])
    name, kind = op['attr'], op.get('kind')
    findings = []
    made = []
    for d in op.get('donors', []):
        made.append(make_donor(root, d, made))
    values = [v for v, _ in made]
    droots = [r for _, r in made]
    store = parent.token_store
    ids = Ids()
    # ---- snapshot
    T0 = list(store)
    texts0 = [t.raw_text for t in T0]
    pos0 = {id(t): i for i, t in enumerate(T0)}
    pf0, pl0 = pos0.get(id(parent.first_token)), pos0.get(id(parent.last_token))
    ch0 = {}
    for sname, skind, _ in slots_of(parent):
        try:
            for c in slot_children(parent, sname, skind):
                ch0[id(c)] = (sname, c, node_text(c), node_tokens(c))
        except Exception:
            pass
    dstores0 = [(donor_store(v), [t.raw_text for t in donor_store(v)]) for v in values]
    spans = [bool(st) and v.first_token is st[0] and v.last_token is st[-1] for v, (st, _) in zip(values, dstores0)]
    twin = None
    if op.get('twin'):
        twin = copy.deepcopy(root) if op['twin'] == 'copy' else gen_docs.parse_ok(gen_docs.print_model(root))
        droots = droots + [twin]
        twin_T0 = list(twin.token_store)
        twin_x0 = [t.raw_text for t in twin_T0]
    dump0 = json.dumps([dump(root)] + [dump(r) for r in droots], default=str)
    print0 = gen_docs.print_model(root)
    # ---- correspondence: state before
    case = None
    info = {}
    raw_slot = name
    try:
        if want_corr and kind in ('rep', 'opt', 'req'):
            for t in T0:
                ids.get(t)
            cdoc = [coq_tok(ids.get(t), t) for t in T0]
            desc = dict((n, d) for n, _, d in slots_of(parent))[name]
            if kind == 'rep':
                w = getattr(parent, name)
                rep = rep_of(w)
                citems = [(ids.get(it.first_token), ids.get(it.last_token)) for it in rep.items]
                ph = ids.get(rep.placeholder)
                if op['op'] == 'setitem' and values:
                    try:
                        info['same'] = rep.items[op['i']] is values[0]
                    except IndexError:
                        info['same'] = False
                sp = seps_of(w, parent, name)
                seps = [coq_sep(t) for t in sp[0]]
                sepsb = [coq_sep(t) for t in sp[1]]
            else:
                cur = getattr(parent, name)
                citems = [(ids.get(cur.first_token), ids.get(cur.last_token))] if cur is not None else []
                ph = 0
                sepsb = []
                info['same'] = bool(values) and values[0] is cur
                info['has_value'] = bool(values)
                if kind == 'opt':
                    fld = desc._inner_field
                    seps = [coq_sep(t) for t in fld.separators]
                    info['side'] = 'SLeft' if isinstance(fld, F.optional_left_field) else 'SRight'
                    info['pivot'] = ids.get(desc._pivot_property.__get__(parent))
                else:
                    seps = []
            cdonors = []
            for v in values:
                st = donor_store(v)
                cdonors.append('(mkdonor %d %s %d %d)' % (
                    ids.get(v), common.coq_list(coq_tok(ids.get(t), t) for t in st),
                    ids.get(v.first_token), ids.get(v.last_token)))
            fresh = len(ids.m) + 1000
            case = dict(doc=cdoc, items=citems, ph=ph, seps=seps, sepsb=sepsb, donors=cdonors, fresh=fresh)
    except Exception:
        case = None
    # ---- reference for value-level views: the raw list and the positions the view addresses
    vref = None
    if op.get('view'):
        try:
            vw = getattr(parent, name)
            rawl = list(getattr(parent, op['raw']))
            T = vw._raw_type
            conv = {}
            for it in rawl:
                if isinstance(it, T):
                    try:
                        conv[id(it)] = vw._from_raw_type(it)
                    except Exception:
                        pass
            vref = (rawl, [k for k, it in enumerate(rawl) if isinstance(it, T)], T,
                    {id(it): node_text(it) for it in rawl}, conv)
        except Exception:
            vref = None
    pre_cur = None
    if kind == 'cust':
        try:
            pre_cur = getattr(parent, name)
        except Exception:
            pre_cur = None
    # ---- the call
    exn = None
    result = None
    list_ref = None
    try:
        k = op['op']
        if k == 'touch':
            for vn in op['views']:
                w = getattr(parent, vn)
                len(w)
                list(w)
        elif k in ('claim_inter', 'unclaim_inter'):
            w = getattr(parent, name)
            (w.claim_interleaving_comments if k == 'claim_inter' else w.unclaim_interleaving_comments)(
                None if op.get('all') else values)
        elif k == 'spacing':
            src = op['src']
            if src == 'twin':
                toks = tuple(getattr(resolve(twin, op['parent']), name))
            elif src == 'elsewhere':
                toks = tuple(getattr(resolve(root, op['other']), name))
            else:
                from autobean_refactor.models.spacing import Whitespace, Newline
                toks = tuple(Whitespace.from_raw_text(x) if x.strip('\n') else Newline.from_raw_text(x) for x in op['texts'])
            setattr(parent, name, toks)
        elif k in ('set_opt', 'set_req'):
            setattr(parent, name, values[0] if values else None)
        elif k == 'set_value':
            setattr(parent, name, _decode(op['value'], op.get('vtype')))
            raw_slot = op.get('raw', name)
        elif k == 'raw_text':
            tok = getattr(parent, name)
            tok.raw_text = op['value']
        else:
            w = getattr(parent, name)
            raw_slot = op.get('raw', name)
            vals = values if not op.get('plain') else [_decode(x, op.get('vtype')) for x in op['values']]
            sl = (lambda s: slice(s[0], s[1], s[2]))
            if kind == 'rep' and not op.get('view') and k in LIST_REF_OPS:
                # node-level list operation: which items must be there afterwards, by identity (a plain Python list
                # subjected to the same call; computed before the call, compared after a successful one)
                try:
                    ref = list(w)
                    LIST_REF_OPS[k](ref, op, vals, sl)
                    list_ref = ref
                except Exception:
                    list_ref = None     # the plain list refuses too (or the arguments are not list arguments)
            if k == 'setitem':
                w[op['i']] = vals[0]
            elif k == 'setslice':
                w[sl(op['s'])] = vals
            elif k == 'delitem':
                del w[op['i']]
            elif k == 'delslice':
                del w[sl(op['s'])]
            elif k == 'insert':
                w.insert(op['i'], vals[0])
            elif k == 'append':
                w.append(vals[0])
            elif k == 'extend':
                w.extend(vals)
            elif k == 'iadd':
                # owner.attr += values
                setattr(parent, name, w.__iadd__(vals))
            elif k == 'vread':
                v0 = vals[0]
                try:
                    ix = w.index(v0)
                except ValueError:
                    ix = None
                result = [w.count(v0), v0 in w, ix]
            elif k == 'pop':
                result = w.pop(op['i']) if op['i'] is not None else w.pop()
            elif k == 'clear':
                w.clear()
            elif k == 'drop_many':
                w.drop_many(op['l'])
            elif k == 'remove':
                w.remove(vals[0])
            elif k == 'discard':
                w.discard(vals[0])
            elif k == 'map_set':
                w[op['key']] = vals[0]
            elif k == 'map_del':
                del w[op['key']]
            elif k == 'map_pop':
                result = w.pop(op['key'])
            elif k == 'map_setdefault':
                result = w.setdefault(op['key'], vals[0])
            elif k == 'map_popitem':
                result = w.popitem()
            elif k == 'map_update':
                w.update({op['key']: vals[0], op['key2']: vals[1]})
            else:
                raise RuntimeError('unknown op ' + k)
    except Exception as e:  # the refusal (or a crash) under observation
        exn = e
    if exn is None and list_ref is not None:
        try:
            now = list(getattr(parent, name))
            if len(now) != len(list_ref) or any(x is not y for x, y in zip(now, list_ref)):
                findings.append((SIG_VIEW, f'{op["op"]} on {type(parent).__name__}.{name}: the items afterwards are not those a plain list '
                                           f'holds after the same call ({len(now)} items, the list has {len(list_ref)}): an element that '
                                           f'was not addressed was removed, kept or moved'))
        except Exception:
            pass
    # ---- state after
    T1 = list(store)
    rec = {'exn': type(exn).__name__ if exn else None, 'findings': findings, 'case': None,
           'bad_donor': any(d['k'] in ('attached_doc', 'attached_pool', 'twin') or (d['k'] in ('child_of_copy', 'edge_child', 'edge_pair') and not sp)
                            for d, sp in zip(op.get('donors', []), spans)),
           'child_span': any(d['k'] in ('child_span', 'child_span_doc', 'child_of_copy') and v is not r and sp
                             for d, (v, r), sp in zip(op.get('donors', []), made, spans))}
    if case is not None:
        try:
            pos1 = {id(t): i for i, t in enumerate(T1)}
            cdoc1 = ['(%s, %s, %s)' % (common.coq_z(ids.known(t)), kind_of(t), common.coq_str(t.raw_text)) for t in T1]
            if kind == 'rep':
                its = rep_of(getattr(parent, name)).items
            else:
                cur = getattr(parent, name)
                its = [cur] if cur is not None else []
            citems1 = [(pos1.get(id(it.first_token), -1), pos1.get(id(it.last_token), -1)) for it in its]
            cd1 = [common.coq_zlist(ids.known(t) for t in donor_store(v)) for v in values]
            popped = [ids.known(t) for t in node_tokens(result)] if (op['op'] == 'pop' and exn is None) else []
            pr = lambda ps: common.coq_list('(%s, %s)' % (common.coq_z(a), common.coq_z(b)) for a, b in ps)
            rec['case'] = ('(mkcase %s %s %d %s %s %s %s %d %s %s %s %s %s)' % (
                common.coq_list(case['doc']), pr(case['items']), case['ph'], common.coq_list(case['seps']),
                common.coq_list(case['sepsb']), coq_op(op, info), common.coq_list(case['donors']), case['fresh'],
                common.coq_opt(common.exn_name(exn) if exn else None), common.coq_list(cdoc1), pr(citems1),
                common.coq_list(cd1), common.coq_zlist(popped)))
        except Exception:
            rec['case'] = None
    # ---- monitors
    if exn is not None and vref is not None and isinstance(exn, (IndexError, KeyError)) and isinstance(op.get('i'), int) \
            and op['op'] in ('setitem', 'pop', 'delitem') and -len(vref[1]) <= op['i'] < len(vref[1]):
        findings.append((SIG_VIEW, f'{op["op"]} on {type(parent).__name__}.{name}: index {op["i"]} exists '
                                   f'(the view has {len(vref[1])} elements) but the call raised {type(exn).__name__}'))
    if exn is not None:
        what = []
        if [id(t) for t in T1] != [id(t) for t in T0]:
            what.append('token identity list of the document changed')
        if [t.raw_text for t in T0] != texts0:
            what.append('a token text changed')
        for v, (st0, tx0) in zip(values, dstores0):
            st1 = donor_store(v)
            if [id(t) for t in st1] != [id(t) for t in st0] or [t.raw_text for t in st0] != tx0:
                what.append('a donor store changed')
        if twin is not None and ([id(t) for t in twin.token_store] != [id(t) for t in twin_T0]
                                 or [t.raw_text for t in twin_T0] != twin_x0):
            what.append('the other document changed')
        try:
            if gen_docs.print_model(root) != print0:
                what.append('printed text changed')
        except Exception as e:
            what.append('printing fails: ' + type(e).__name__)
        if json.dumps([dump(root)] + [dump(r) for r in droots], default=str) != dump0:
            what.append('tree structure changed')
        if what:
            findings.append((SIG_ATOMIC, f'{op["op"]} on {type(parent).__name__}.{name} raised '
                                         f'{type(exn).__name__} after: ' + '; '.join(sorted(set(what)))))
    else:
        if twin is not None and op['op'] == 'spacing' and op['src'] == 'twin' and \
                {id(t) for t in T1} & {id(t) for t in twin_T0}:
            findings.append((SIG_REUSE, f'{op["op"]} on {type(parent).__name__}.{name} accepted tokens that live in another '
                                        f'document: a token is now in two stores'))
        elif op.get('kind') == 'cmt' or (kind == 'cust' and values and pre_cur is values[0]):
            pass
        elif rec['bad_donor'] and not (op['op'] in ('set_opt', 'set_req') and info.get('same')) \
                and not _is_current(parent, name, kind, values, ch0, op):
            findings.append((SIG_REUSE, f'{op["op"]} on {type(parent).__name__}.{name} accepted a node that is attached elsewhere'))
        elif rec['child_span']:
            findings.append((SIG_REUSE_CHILD, f'{op["op"]} on {type(parent).__name__}.{name} accepted a child of a free-standing parent '
                                              f'({type(values[0]).__name__} spanning the whole store of {type(droots[0]).__name__})'))
        elif not op.get('nomon') and not op.get('loose'):
            _frame_monitor(findings, op, parent, name, raw_slot, T0, T1, texts0, pf0, pl0, ch0, values, result)
            if vref is not None:
                try:
                    _view_monitor(findings, op, parent, name, vref, result)
                except Exception as e:
                    findings.append((SIG_VIEW, f'{op["op"]} on {type(parent).__name__}.{name}: the raw list is unreadable afterwards ({type(e).__name__})'))
        # the document as a whole (also after comment calls, which the frame monitor does not judge): still a tree of its
        # tokens, cached views still the filtered raw lists, positions still those of the text (harness/health.py) - what
        # the NEXT call through any view / node relies on. Not demanded after an accepted known-finding donor.
        if not findings and not rec['child_span'] and not rec['bad_donor']:
            from harness import health
            hp = health.problems(root)
            if hp:
                findings.append(({'wf': SIG_FRAME, 'views': SIG_VIEW, 'positions': SIG_FRAME}[hp[0][0]],
                                 f'{op["op"]} on {type(parent).__name__}.{name}: afterwards {hp[0][1]}'))
    return rec


def _decode(v, vtype):
    if v is None or vtype is None:
        return v
    if vtype == 'decimal':
        return decimal.Decimal(v)
    if vtype == 'date':
        return datetime.date.fromisoformat(v)
    return v


def _view_monitor(findings, op, parent, name, vref, result=None):
    """a value-level call changes exactly the element(s) it addresses: reference = the raw list before the
    call and the positions of the view's type in it (recomputed from the list, not from the view's cache)"""
    ref, pos, T, texts = vref[:4]
    cur = list(getattr(parent, op['raw']))
    where = f'{op["op"]} on {type(parent).__name__}.{name}'
    k = op['op']
    n = len(pos)
    refids = [id(x) for x in ref]
    curids = [id(x) for x in cur]
    targets = None            # raw positions the call may touch
    if k in ('setitem', 'pop', 'delitem') and op.get('i') is not None or k == 'pop':
        i = op.get('i')
        i = -1 if i is None else i
        if -n <= i < n:
            targets = [pos[i]]
    elif k in ('setslice', 'delslice'):
        targets = [pos[i] for i in range(n)[slice(*op['s'])]]
    elif k == 'clear':
        targets = list(pos)
    elif k in ('remove', 'discard') and op.get('plain'):
        w = getattr(parent, name)
        v0 = _decode(op['values'][0], op.get('vtype'))
        match = [j for j in pos if id(ref[j]) in vref[4] and vref[4][id(ref[j])] == v0]
        targets = match[:1] if k == 'remove' else match
    elif k in ('remove', 'discard', 'map_del', 'map_pop', 'map_set', 'map_setdefault', 'map_popitem', 'map_update'):
        targets = list(pos)     # some element(s) of the view's type
    elif k in ('insert', 'append', 'extend', 'iadd', 'touch', 'vread'):
        targets = []
    if targets is None:
        return
    tset = set(targets)
    keep = [refids[j] for j in range(len(ref)) if j not in tset]
    surv = [x for x in curids if x in set(refids) and x in set(keep)]
    if surv != keep:
        findings.append((SIG_VIEW, f'{where}: elements other than the addressed one(s) were removed or reordered'))
        return
    for it in cur:
        if id(it) in texts and id(it) in set(keep) and node_text(it) != texts[id(it)]:
            findings.append((SIG_VIEW, f'{where}: an element that was not addressed changed its text ({texts[id(it)]!r} -> {node_text(it)!r})'))
            return
    if k == 'vread' and op.get('plain') and result is not None:
        v0 = _decode(op['values'][0], op.get('vtype'))
        vals_ref = [vref[4].get(id(ref[j])) for j in pos]
        exp = [sum(1 for x in vals_ref if x == v0), any(x == v0 for x in vals_ref),
               next((i for i, x in enumerate(vals_ref) if x == v0), None)]
        if list(result) != exp:
            findings.append((SIG_VIEW, f'{where}: count / contains / index of {v0!r} are {list(result)}, the list says {exp}'))
    if k in ('pop', 'delitem', 'delslice', 'clear', 'remove', 'discard'):
        gone = [refids[j] for j in targets]
        if any(g in set(curids) for g in gone):
            findings.append((SIG_VIEW, f'{where}: the addressed element is still in the list'))
        elif len(cur) != len(ref) - len(targets):
            findings.append((SIG_VIEW, f'{where}: {len(ref) - len(cur)} elements disappeared, {len(targets)} were addressed'))
    if k in ('setitem', 'setslice') and len(cur) != len(ref):
        findings.append((SIG_VIEW, f'{where}: the list changed its length'))
    if k in ('insert', 'append', 'extend', 'iadd'):
        new = [x for x in cur if id(x) not in set(refids)]
        if any(not isinstance(x, T) for x in new) or len(cur) - len(ref) != len(new):
            findings.append((SIG_VIEW, f'{where}: unexpected elements appeared'))


def _is_current(parent, name, kind, values, ch0, op=None):
    """assigning the current child to its own slot (`node is repl`, `xs[i] = xs[i]`) is a no-op, not a reuse"""
    if kind in ('opt', 'req'):
        return values and id(values[0]) in ch0 and ch0[id(values[0])][0] == name
    if kind == 'rep' and op is not None and op['op'] == 'setitem' and values:
        try:
            return getattr(parent, name)[op['i']] is values[0] and id(values[0]) in ch0
        except Exception:
            return False
    return False


def _frame_monitor(findings, op, parent, name, raw_slot, T0, T1, texts0, pf0, pl0, ch0, values, result):
    where = f'{op["op"]} on {type(parent).__name__}.{name}'
    a = 0
    while a < len(T0) and a < len(T1) and T0[a] is T1[a]:
        a += 1
    b = 0
    while b < len(T0) - a and b < len(T1) - a and T0[len(T0) - 1 - b] is T1[len(T1) - 1 - b]:
        b += 1
    W0, W1 = T0[a:len(T0) - b], T1[a:len(T1) - b]
    pos1 = {id(t): i for i, t in enumerate(T1)}
    in_place = set()           # tokens whose text changed (value-level in-place updates)
    for i, t in enumerate(T0):
        if t.raw_text != texts0[i]:
            in_place.add(id(t))
    # children after
    ch1 = {}
    for sname, skind, _ in slots_of(parent):
        try:
            for c in slot_children(parent, sname, skind):
                ch1[id(c)] = (sname, c)
        except Exception as e:
            findings.append((SIG_FRAME, f'{where}: slot {sname} unreadable afterwards ({type(e).__name__})'))
            return
    new_tokens = set()
    for cid, (sname, c) in ch1.items():
        if cid not in ch0:
            new_tokens.update(id(t) for t in node_tokens(c))
    gone_tokens = set()
    for cid, (sname, c, txt, toks) in ch0.items():
        if cid not in ch1:
            gone_tokens.update(id(t) for t in toks)
    # a child of the edited slot that is modified in place (value-level routes) is "the child" too
    for cid, (sname, c, txt, toks) in ch0.items():
        if cid in ch1 and sname == raw_slot and node_text(c) != txt:
            gone_tokens.update(id(t) for t in toks)
            new_tokens.update(id(t) for t in node_tokens(c))
    # 1. one window, inside the parent
    pf1, pl1 = pos1.get(id(parent.first_token)), pos1.get(id(parent.last_token))
    if W0 or W1:
        if pf0 is None or pl0 is None or pf1 is None or pl1 is None:
            findings.append((SIG_FRAME, f'{where}: the parent span is not in the store'))
        elif not (pf0 <= a and len(T0) - b <= pl0 + 1 and pf1 <= a and len(T1) - b <= pl1 + 1):
            findings.append((SIG_FRAME, f'{where}: tokens outside the parent changed (window {a}..-{b}, parent {pf0}..{pl0} -> {pf1}..{pl1})'))
    outside = [t for t in T0[:a] + T0[len(T0) - b:] if id(t) in in_place]
    edited_tok = set()
    for cid, (sname, c, txt, toks) in ch0.items():
        if sname == raw_slot:
            edited_tok.update(id(t) for t in toks)
    if any(id(t) not in edited_tok for t in T0 if id(t) in in_place):
        findings.append((SIG_FRAME, f'{where}: the text of a token outside the edited slot changed'))
    # 2. siblings keep their text
    changed_in_slot = 0
    for cid, (sname, c, txt, toks) in ch0.items():
        if cid in ch1:
            if node_text(c) != txt:
                if sname == raw_slot:
                    changed_in_slot += 1
                else:
                    findings.append((SIG_SIBLING, f'{where}: sibling {sname} changed its text'))
    budget = max(1, len(op.get('values', []) or values))
    if changed_in_slot > budget:
        findings.append((SIG_SIBLING, f'{where}: {changed_in_slot} items of the slot changed their text'))
    # 3. changed tokens are the child's or separator-only
    ids1 = set(pos1)
    ids0 = {id(t) for t in T0}
    for t in W0:
        if id(t) not in ids1 and id(t) not in gone_tokens and not is_sep_text(t.raw_text):
            findings.append((SIG_CHANGED, f'{where}: token {t.raw_text!r} disappeared; it is neither the child nor a separator'))
            break
    for t in W1:
        if id(t) not in ids0 and id(t) not in new_tokens and not is_sep_text(t.raw_text):
            findings.append((SIG_CHANGED, f'{where}: token {t.raw_text!r} appeared; it is neither the child nor a separator'))
            break
    kept0 = [id(t) for t in W0 if id(t) in ids1]
    kept1 = [id(t) for t in W1 if id(t) in ids0]
    if kept0 != kept1:
        findings.append((SIG_FRAME, f'{where}: surviving tokens changed their order'))
    # "directly adjacent": a call that edits one place has one window without any surviving visible token in it, i.e.
    # every separator that appears / disappears is contiguous with the child (calls that edit several places -
    # extended slices, drop_many, non-contiguous view operations, a mapping update with two keys (an existing key is
    # rewritten where it stands, a missing one is appended after the last item) - are exempt: their window spans the places)
    k = op['op']
    multi = (k == 'drop_many' or (k in ('setslice', 'delslice') and op.get('s') and op['s'][2] not in (None, 1))
             or (op.get('kind') == 'val' and k in ('setslice', 'delslice', 'clear', 'discard', 'extend', 'iadd', 'map_update')))
    if not multi:
        stray = [t for t in W1 if id(t) in ids0 and not is_sep_text(t.raw_text) and id(t) not in new_tokens]
        if stray:
            findings.append((SIG_CHANGED, f'{where}: separators changed away from the child: the changed region also spans '
                                          f'the untouched token {stray[0].raw_text!r}'))
    # 4. layout of repeated slots of the parent
    _, _, P, _, _ = _mods()
    _pos0 = {id(t): n for n, t in enumerate(T0)}
    for sname, skind, _ in slots_of(parent):
        if skind != 'rep':
            continue
        w = getattr(parent, sname)
        rp, sp = rep_of(w), seps_of(w, parent, sname)
        if rp is None or sp is None:
            continue        # private state renamed: this layout comparison is skipped (counted), behaviour still checked
        items = rp.items
        need_text = any(t.raw_text for t in sp[0])
        for x, y in zip(items, items[1:]):
            i, j = pos1.get(id(x.last_token)), pos1.get(id(y.first_token))
            if i is None or j is None or j <= i:
                findings.append((SIG_LAYOUT, f'{where}: items of {sname} are not ordered disjoint spans'))
                break
            gap = T1[i + 1:j]
            # written without a blank in the input (`"s"2`, `^l#b`) and still neighbours: nothing to preserve there
            i0, j0 = _pos0.get(id(x.last_token)), _pos0.get(id(y.first_token))
            glued_before = (i0 is not None and j0 is not None and i0 < j0 and not any(t.raw_text for t in T0[i0 + 1:j0])
                            and all(is_sep_text(t.raw_text) for t in T0[i0 + 1:j0]))
            if any(not is_sep_text(t.raw_text) for t in gap) or \
                    (need_text and not any(t.raw_text for t in gap) and not glued_before):
                findings.append((SIG_LAYOUT, f'{where}: items of {sname} are separated by {"".join(t.raw_text for t in gap)!r}'))
                break


# ---- generating scripts ---------------------------------------------------------------------------
def rand_index(rng, n):
    return rng.choice([0, -1, n - 1, n, -n, -n - 1, n + 2, rng.randint(-n - 2, n + 2), rng.randint(0, max(0, n))])


def rand_slice(rng, n):
    if n >= 2 and rng.random() < 0.12:
        # a reversed slice with BOTH bounds explicit and non-negative (xs[hi:lo:-1]): the exclusive lower bound stays
        lo = rng.randint(0, n - 2)
        hi = rng.randint(lo + 1, n)
        return [hi, lo, rng.choice([-1, -1, -2])]
    e = lambda: rng.choice([None, None, 0, n, rng.randint(-n - 2, n + 2), rng.randint(0, n + 1)])
    step = rng.choice([None, None, None, 1, 1, 2, -1, -2, 3, 0] if rng.random() < 0.5 else [None, 1])
    return [e(), e(), step]


VALUE_LISTS = {'tags': ['t1', 'new-tag', 'x/y'], 'links': ['l1', 'new-link'], 'currencies': ['XYZ', 'AB', 'JPY']}
RAW_OF = {'tags': 'raw_tags_links', 'links': 'raw_tags_links', 'currencies': 'raw_currencies',
          'meta': 'raw_meta_with_comments', 'raw_meta': 'raw_meta_with_comments'}
BAD_RAW_TEXT = {'Date': ['zzz', '2021-02-30', '2021-13-01', '20210101'], 'Number': ['abc', 'x', '1..2', ''],
                'Bool': ['maybe'], 'EscapedString': ['no quotes'], 'BlockComment': ['no semicolon'],
                'InlineComment': ['x'], 'MetaKey': ['nokey'], 'Tag': ['notag'], 'Link': ['nolink'], 'Null': ['NOPE']}

VIEWS = {'raw_tags_links': ['tags', 'links'], 'raw_currencies': ['currencies'],
         'raw_postings_with_comments': ['raw_postings', 'postings'], 'raw_meta_with_comments': ['raw_meta', 'meta'],
         'raw_values': ['values'], 'raw_directives_with_comments': ['raw_directives', 'directives']}
PLAIN_VALUES = {'tags': ['t1', 'new-tag', 'x/y'], 'links': ['l1', 'new-link'], 'currencies': ['XYZ', 'AB', 'JPY'],
                'values': ['str', 'other', True, False]}
NODE_VIEWS = ('raw_postings', 'postings', 'raw_meta', 'raw_directives', 'directives')


def views_of(parent, raw):
    return [v for v in VIEWS.get(raw, []) if hasattr(type(parent), v)]


def typed_donor(rng, root, parent, raw, T, want_bad):
    """a donor for slot (parent, raw) whose type fits the view type T"""
    for _ in range(8):
        d = gen_donor(rng, root, parent, raw, 'rep', want_bad)
        if d is None:
            return None
        try:
            v, _r = make_donor(root, d, [])
        except Exception:
            continue
        if isinstance(v, T):
            return d
    return None


def edge_batch(rng, root, parent, raw, T=None):
    """a batch of free copies with one attached value that touches exactly one end of its store, at a random position"""
    refs = pool()[1].get((type(parent).__name__, raw), [])
    if T is not None:
        refs = [r for r in refs if isinstance(pool_node(r), T)]
    edge = pool()[2].get((type(parent).__name__, raw), [])
    if not refs:
        return None
    m = rng.choice([1, 2, 2, 3])
    ds = []
    for j in range(m):
        d = typed_donor(rng, root, parent, raw, T or object, False)
        if d is None:
            return None
        ds.append(d)
    if edge and rng.random() < 0.3:
        bad = {'k': 'edge_child', 'ref': rng.choice(edge)}
    else:
        bad = {'k': 'edge_pair', 'ref': rng.choice(refs), 'ref2': rng.choice(refs), 'which': rng.randrange(2)}
    ds[rng.randrange(m)] = bad
    return ds


def gen_view_step(rng, root, path, raw):
    """one call on the repeated field `raw` of the node at `path`: raw level or through one of its views"""
    parent = resolve(root, path)
    vs = views_of(parent, raw)
    if vs and rng.random() < 0.55:
        view = rng.choice(vs)
        w = getattr(parent, view)
        n = len(w)
        base = {'parent': path, 'attr': view, 'kind': 'val', 'raw': raw, 'view': True}
        if view in ('meta',) and rng.random() < 0.5:
            keys = list(w.keys())
            k = rng.choice(['map_set', 'map_del', 'map_pop', 'map_setdefault', 'map_popitem', 'map_update'])
            key = rng.choice(keys + ['missing-key']) if keys else 'missing-key'
            if k == 'map_update':
                return {**base, 'plain': True, 'op': k, 'key': key, 'key2': rng.choice(keys + ['other-key', 'missing-key']) if keys else 'other-key',
                        'values': ['v', 'w']}
            return {**base, 'plain': True, 'op': k, 'key': key, 'values': ['v'] if k in ('map_set', 'map_setdefault') else []}
        if view in NODE_VIEWS or view == 'meta':
            T = w._raw_type
            k = rng.choice(['setitem', 'setslice', 'pop', 'delitem', 'delslice', 'delslice', 'insert', 'append', 'extend',
                            'clear', 'iadd'])
            bad = rng.random() < 0.2
            if k == 'iadd':
                ds = edge_batch(rng, root, parent, raw, T) if rng.random() < 0.4 else []
                if not ds:
                    ds = []
                    for j in range(rng.choice([0, 1, 2])):
                        d = typed_donor(rng, root, parent, raw, T, bad and rng.random() < 0.6)
                        if d is None:
                            return None
                        ds.append(d)
                return {**base, 'op': k, 'donors': ds}
            if k == 'delslice' and n >= 2 and rng.random() < 0.6:
                a = rng.randint(0, n - 2)
                return {**base, 'op': k, 's': [a, rng.randint(a + 2, n), rng.choice([None, 1])], 'donors': []}
            if k in ('setslice', 'extend') and rng.random() < 0.35:
                ds = edge_batch(rng, root, parent, raw, T)
                if ds is not None:
                    s_ = rand_slice(rng, n)
                    if k == 'setslice':
                        try:
                            m = len(range(n)[slice(*s_)])
                        except ValueError:
                            m = 0
                        while len(ds) < m:
                            d = typed_donor(rng, root, parent, raw, T, False)
                            if d is None:
                                break
                            ds.append(d)
                        ds = ds[:m] if m and any(d['k'] == 'edge_child' for d in ds[:m]) else ds
                        return {**base, 'op': k, 's': s_, 'donors': ds}
                    return {**base, 'op': k, 'donors': ds}
            if k in ('setitem', 'insert', 'append'):
                d = typed_donor(rng, root, parent, raw, T, bad)
                if d is None:
                    return None
                o = {**base, 'op': k, 'donors': [d]}
                if k != 'append':
                    o['i'] = rand_index(rng, n)
                return o
            if k in ('setslice', 'extend'):
                s_ = rand_slice(rng, n)
                try:
                    m = len(range(n)[slice(*s_)])
                except ValueError:
                    m = 1
                if k == 'extend':
                    m = rng.choice([0, 1, 2])
                elif rng.random() < 0.25:
                    m += 1                     # size mismatch: must be refused
                ds = []
                for j in range(m):
                    d = typed_donor(rng, root, parent, raw, T, bad and rng.random() < 0.5)
                    if d is None:
                        return None
                    ds.append(d)
                o = {**base, 'op': k, 'donors': ds}
                if k == 'setslice':
                    o['s'] = s_
                return o
            if k in ('pop', 'delitem'):
                return {**base, 'op': k, 'i': rand_index(rng, n), 'donors': []}
            if k == 'delslice':
                return {**base, 'op': k, 's': rand_slice(rng, n), 'donors': []}
            return {**base, 'op': k, 'donors': []}
        vals = PLAIN_VALUES[view]
        k = rng.choice(['append', 'insert', 'pop', 'delitem', 'delslice', 'delslice', 'setitem', 'setitem', 'setslice', 'extend',
                        'remove', 'remove', 'discard', 'vread', 'iadd'])
        base = {**base, 'plain': True, 'op': k}
        if k in ('append', 'remove', 'discard', 'vread'):
            existing = [x for x in list(w) if isinstance(x, (str, bool))]
            # values that also occur as the OTHER kind on the same raw list (a link and a tag of the same name)
            other = []
            for ov in vs:
                if ov != view and ov in PLAIN_VALUES:
                    other += [x for x in list(getattr(parent, ov)) if isinstance(x, str)]
            pick = rng.choice(other) if other and rng.random() < 0.45 else rng.choice(vals + existing)
            return {**base, 'values': [pick]}
        if k == 'iadd':
            return {**base, 'values': [rng.choice(vals) for _ in range(rng.randint(0, 2))]}
        if k == 'delslice' and n >= 2 and rng.random() < 0.6:
            a = rng.randint(0, n - 2)
            return {**base, 's': [a, rng.randint(a + 2, n), rng.choice([None, 1])], 'values': []}
        if k in ('insert', 'setitem'):
            return {**base, 'i': rand_index(rng, n), 'values': [rng.choice(vals)]}
        if k in ('pop', 'delitem'):
            return {**base, 'i': rand_index(rng, n), 'values': []}
        if k == 'delslice':
            return {**base, 's': rand_slice(rng, n), 'values': []}
        if k == 'setslice':
            s_ = rand_slice(rng, n)
            try:
                m = len(range(n)[slice(*s_)])
            except ValueError:
                m = 1
            m = m if rng.random() < 0.7 else m + 1
            return {**base, 's': s_, 'values': [rng.choice(vals) for _ in range(m)]}
        return {**base, 'values': [rng.choice(vals) for _ in range(rng.randint(0, 3))]}
    # raw level on the same field
    w = getattr(parent, raw)
    n = len(w)
    base = {'parent': path, 'attr': raw, 'kind': 'rep'}
    k = rng.choice(['setitem', 'setslice', 'setslice', 'delitem', 'delslice', 'insert', 'append', 'extend', 'pop',
                    'revslice', 'revslice', 'revslice', 'iadd', 'mix'])
    bad = rng.random() < 0.15
    if k == 'mix':
        # put an element of another kind between the view's elements (a standalone comment, a link among tags)
        if any(type(x).__name__ == 'BlockComment' for x in root.raw_directives_with_comments) and \
                raw in ('raw_postings_with_comments', 'raw_meta_with_comments', 'raw_directives_with_comments') and n >= 1:
            j = next(i for i, x in enumerate(root.raw_directives_with_comments) if type(x).__name__ == 'BlockComment')
            return {**base, 'op': 'insert', 'i': rng.randint(1, n), 'donors': [{'k': 'copy_doc', 'path': [['raw_directives_with_comments', j]]}]}
        k = 'insert'
    if k == 'iadd':
        ds = []
        for j in range(rng.choice([0, 1, 2])):
            d = gen_donor(rng, root, parent, raw, 'rep', bad and rng.random() < 0.5)
            if d is None:
                return None
            ds.append(d)
        return {**base, 'op': 'iadd', 'donors': ds}
    if k == 'revslice':
        # xs[a:b] = [v, ...] with b < a (range(n)[a:b] is empty: a pure insertion at a), early in the list
        if n < 2:
            k = 'insert'
        else:
            a = rng.randint(1, min(n - 1, 3))
            ds = []
            for j in range(rng.choice([1, 1, 2])):
                d = gen_donor(rng, root, parent, raw, 'rep', False)
                if d is None:
                    return None
                ds.append(d)
            return {**base, 'op': 'setslice', 's': [a, rng.randint(0, a - 1), rng.choice([None, 1])], 'donors': ds}
    if k in ('setslice', 'extend') and rng.random() < 0.3:
        ds = edge_batch(rng, root, parent, raw)
        if ds is not None:
            o = {**base, 'op': k, 'donors': ds}
            if k == 'setslice':
                o['s'] = rand_slice(rng, n)[:2] + [rng.choice([None, 1])]
            return o
    if k in ('setitem', 'insert', 'append'):
        d = gen_donor(rng, root, parent, raw, 'rep', bad)
        if d is None:
            return None
        o = {**base, 'op': k, 'donors': [d]}
        if k != 'append':
            o['i'] = rand_index(rng, n)
        return o
    if k in ('setslice', 'extend'):
        # step-1 slices with stop < start included (range(n)[3:1])
        a, b = rng.randint(0, n + 1), rng.randint(0, n + 1)
        if rng.random() < 0.4 and n >= 2:
            a = rng.randint(1, n - 1)
            b = rng.randint(0, a - 1)              # range(n)[a:b] with b < a: an insertion at a
        s_ = [a, b, rng.choice([None, 1])] if rng.random() < 0.7 else rand_slice(rng, n)
        ds = []
        for j in range(rng.choice([0, 1, 1, 2])):
            d = gen_donor(rng, root, parent, raw, 'rep', bad and rng.random() < 0.5)
            if d is None:
                return None
            ds.append(d)
        o = {**base, 'op': k, 'donors': ds}
        if k == 'setslice':
            o['s'] = s_
        return o
    if k in ('delitem', 'pop'):
        return {**base, 'op': k, 'i': rand_index(rng, n), 'donors': []}
    return {**base, 'op': k, 's': rand_slice(rng, n), 'donors': []}


def view_targets(root):
    out = []
    for path, n in walk(root):
        for name, kind, _ in slots_of(n):
            if kind == 'rep' and views_of(n, name):
                out.append((path, name))
    return out


# ---- cost specs: illegal combinations must be refused with nothing changed --------------------------
COST_FORMS = ['{{500.00}}', '{500.00}', '{{500.00 USD}}', '{500.00 USD}', '{1 # 2 USD}', '{USD}', '{{USD}}', '{}', '{{}}',
              '{2020-01-01}', '{"lbl"}', '{{3 # 4 EUR}}', '{*}', '{1.5, 2020-01-01}']


def cost_ledger(rng):
    lines = []
    for d in range(rng.choice([1, 2])):
        lines.append('2000-01-0%d * "t"\n' % (d + 1))
        for j in range(rng.choice([1, 2, 3])):
            lines.append('    Assets:A%d  10 HOOL %s\n' % (j, rng.choice(COST_FORMS)))
        lines.append('    Assets:Cash\n')
    return ''.join(lines)


def gen_cost_op(rng, root):
    specs = []
    for path, n in walk(root):
        if type(n).__name__ == 'CostSpec':
            specs.append(path)
    if not specs:
        return None
    path = rng.choice(specs)
    prop = rng.choice(['number_per', 'number_per', 'number_total', 'number_total', 'currency'])
    if prop == 'currency':
        return {'parent': path, 'attr': prop, 'kind': 'val', 'op': 'set_value', 'nomon': True,
                'value': rng.choice([None, 'EUR', 'USD'])}
    return {'parent': path, 'attr': prop, 'kind': 'val', 'op': 'set_value', 'nomon': True, 'vtype': 'decimal',
            'value': rng.choice([None, '3', '7.25'])}


def gen_comment_op(rng, root):
    """claim / unclaim interleaving comments: everything, or a batch mixing comments that really are (claimable /
    claimed) interleaving comments of the list with comments that are not (foreign copies, comments of another
    document, someone's leading / trailing comment, already unclaimed ones)"""
    cands = []
    for path, n in walk(root):
        for name, kind, _ in slots_of(n):
            if kind == 'rep' and hasattr(getattr(n, name), 'claim_interleaving_comments'):
                cands.append((path, name))
    if not cands:
        return None
    # prefer lists that contain comments
    rich = [c for c in cands if any(type(x).__name__ == 'BlockComment' for x in getattr(resolve(root, c[0]), c[1]))]
    path, name = rng.choice(rich) if rich and rng.random() < 0.8 else rng.choice(cands)
    parent = resolve(root, path)
    w = getattr(parent, name)
    base = {'parent': path, 'attr': name, 'kind': 'cmt', 'nomon': True}
    r = rng.random()
    if r < 0.2:
        return {**base, 'op': rng.choice(['claim_inter', 'unclaim_inter']), 'all': True, 'donors': []}
    kind = rng.choice(['claim_inter', 'unclaim_inter', 'unclaim_inter'])
    toks = list(root.token_store)
    pos = {id(t): i for i, t in enumerate(toks)}
    real, wrong = [], []
    for i, c in enumerate(w):
        if type(c).__name__ == 'BlockComment':
            (real if kind == 'unclaim_inter' else wrong).append({'k': 'attached_doc', 'path': path + [[name, i]]})
    a, b = pos.get(id(parent.first_token)), pos.get(id(parent.last_token))
    owned = set()
    for p2, n2 in walk(root):
        for nm, kd, _ in slots_of(n2):
            try:
                for c in slot_children(n2, nm, kd):
                    if type(c).__name__ == 'BlockComment':
                        owned.add(id(c))
                        if nm in ('raw_leading_comment', 'raw_trailing_comment'):
                            wrong.append({'k': 'attached_doc', 'path': p2 + [[nm]]})
            except Exception:
                pass
    if a is not None and b is not None:
        for i in range(a, b + 1):
            t = toks[i]
            if type(t).__name__ == 'BlockComment' and id(t) not in owned:
                (real if kind == 'claim_inter' else wrong).append({'k': 'store_tok', 'idx': i})
    refs = [r_ for key, rs in pool()[1].items() for r_ in rs if key[1] in ('raw_leading_comment', 'raw_trailing_comment')]
    if refs:
        wrong.append({'k': rng.choice(['copy', 'attached_pool']), 'ref': rng.choice(refs)})
    if not wrong and not real:
        return None
    ds = []
    for d in rng.sample(real, min(len(real), rng.choice([1, 1, 2, 3]))):
        ds.append(d)
    nwrong = rng.choice([1, 1, 1, 2]) if rng.random() < 0.8 else 0
    for d in rng.sample(wrong, min(len(wrong), nwrong)):
        ds.insert(rng.randint(0, len(ds)), d)
    if not ds:
        return None
    return {**base, 'op': kind, 'donors': ds}


def gen_spacing_op(rng, root):
    """raw_spacing_before/after = tokens: fresh ones, the tokens of the same place in a copy / second parse of the
    document (they live in another store, at the same position), or spacing tokens from elsewhere in the document"""
    nodes = [(p_, n) for p_, n in walk(root) if hasattr(type(n), 'raw_spacing_after') and p_]
    if not nodes:
        return None
    for _ in range(10):
        path, n = rng.choice(nodes)
        attr = rng.choice(['raw_spacing_after', 'raw_spacing_before'])
        try:
            cur = getattr(n, attr)
        except Exception:
            continue
        if not cur and rng.random() < 0.7:
            continue
        base = {'parent': path, 'attr': attr, 'kind': 'spc', 'op': 'spacing', 'nomon': True}
        r = rng.random()
        if r < 0.55:
            return {**base, 'src': 'twin', 'twin': rng.choice(['copy', 'copy', 'parse'])}
        if r < 0.75:
            other = rng.choice(nodes)[0]
            if other != path:
                return {**base, 'src': 'elsewhere', 'other': other}
        return {**base, 'src': 'fresh', 'texts': rng.choice([[' '], ['  '], ['\t'], [' ', '\n'], []])}
    return None


def gen_payee_op(rng, root):
    """Transaction.raw_payee / raw_narration = node (free or attached): a refusal must not leave the implied narration"""
    txns = [(p_, n) for p_, n in walk(root) if type(n).__name__ == 'Transaction']
    if not txns:
        return None
    path, t = rng.choice(txns)
    strs = []
    for p2, n2 in walk(root):
        for nm, kd, _ in slots_of(n2):
            try:
                for i, c in enumerate(slot_children(n2, nm, kd)):
                    if type(c).__name__ == 'EscapedString':
                        strs.append(p2 + ([[nm, i]] if kd == 'rep' else [[nm]]))
            except Exception:
                pass
    refs = [r_ for key, rs in pool()[1].items() for r_ in rs if key[1] in ('raw_string0', 'raw_string1', 'raw_booking', 'raw_name')]
    attr = rng.choice(['raw_payee', 'raw_payee', 'raw_narration'])
    r = rng.random()
    if strs and r < 0.45:
        d = {'k': 'attached_doc', 'path': rng.choice(strs)}
    elif refs and r < 0.7:
        d = {'k': 'attached_pool', 'ref': rng.choice(refs)}
    elif refs and r < 0.9:
        d = {'k': 'copy', 'ref': rng.choice(refs)}
    else:
        return {'parent': path, 'attr': attr, 'kind': 'cust', 'op': 'set_opt', 'donors': [], 'nomon': True}
    return {'parent': path, 'attr': attr, 'kind': 'cust', 'op': 'set_opt', 'donors': [d], 'nomon': True}


def gen_op(rng, root):
    """one random op descriptor on the current tree (or None)"""
    _, _, P, _, V = _mods()
    nodes = list(walk(root))
    for _ in range(30):
        path, parent = rng.choice(nodes)
        r = rng.random()
        # value level --------------------------------------------------------------------------
        if r < 0.22:
            cands = [a for a in ('tags', 'links', 'currencies', 'meta') if hasattr(type(parent), a)]
            opt_vals = [n for n in ('booking', 'inline_comment', 'leading_comment', 'trailing_comment')
                        if isinstance(getattr(type(parent), n, None), (V.optional_string_property, V.optional_indented_string_property))]
            if not cands and not opt_vals:
                continue
            if opt_vals and (not cands or rng.random() < 0.35):
                a = rng.choice(opt_vals)
                val = rng.choice([None, 'note', 'STRICT', 'x y'])
                return {'parent': path, 'attr': a, 'kind': 'val', 'op': 'set_value', 'value': val, 'raw': 'raw_' + a}
            a = rng.choice(cands)
            w = getattr(parent, a)
            n = len(w)
            if a == 'meta':
                keys = list(w.keys())
                k = rng.choice(['map_set', 'map_del', 'map_pop', 'pop', 'delitem', 'map_setdefault', 'map_popitem', 'map_update'])
                key = rng.choice(keys + ['missing-key', 'zz']) if keys else 'missing-key'
                base = {'parent': path, 'attr': a, 'kind': 'val', 'raw': RAW_OF[a], 'plain': True}
                if k in ('map_set', 'map_setdefault'):
                    return {**base, 'op': k, 'key': key, 'values': [rng.choice(['v', 'Assets:Cash'])]}
                if k == 'map_update':
                    return {**base, 'op': k, 'key': key, 'key2': rng.choice(keys + ['other-key']) if keys else 'other-key', 'values': ['v', 'w']}
                if k == 'map_popitem':
                    return {**base, 'op': k, 'values': []}
                if k in ('map_del', 'map_pop'):
                    return {**base, 'op': k, 'key': key, 'values': []}
                return {**base, 'op': k, 'i': rand_index(rng, n), 'values': []}
            vals = VALUE_LISTS[a]
            k = rng.choice(['append', 'insert', 'pop', 'delitem', 'delslice', 'setitem', 'setslice', 'extend', 'clear',
                            'remove', 'discard'])
            base = {'parent': path, 'attr': a, 'kind': 'val', 'raw': RAW_OF[a], 'plain': True, 'op': k}
            if k in ('append', 'remove', 'discard'):
                existing = list(w)
                return {**base, 'values': [rng.choice(vals + existing)]}
            if k in ('insert', 'setitem'):
                return {**base, 'i': rand_index(rng, n), 'values': [rng.choice(vals)]}
            if k in ('pop', 'delitem'):
                return {**base, 'i': rand_index(rng, n), 'values': []}
            if k == 'delslice':
                return {**base, 's': rand_slice(rng, n), 'values': []}
            if k == 'setslice':
                s = rand_slice(rng, n)
                try:
                    m = len(range(n)[slice(*s)])
                except ValueError:
                    m = 1
                m = m if rng.random() < 0.7 else m + 1
                return {**base, 's': s, 'values': [rng.choice(vals) for _ in range(m)]}
            if k == 'extend':
                return {**base, 'values': [rng.choice(vals) for _ in range(rng.randint(0, 3))]}
            return {**base, 'values': []}
        if r < 0.24:
            o = gen_comment_op(rng, root)
            if o is not None:
                return o
        if r < 0.26:
            o = gen_spacing_op(rng, root) if rng.random() < 0.7 else gen_payee_op(rng, root)
            if o is not None:
                return o
        # raw_text of a value token (refusals) ---------------------------------------------------
        if r < 0.285:
            toks = [(n, k) for n, k, _ in slots_of(parent) if k in ('opt', 'req')]
            rng.shuffle(toks)
            for n, k in toks:
                c = getattr(parent, n)
                if c is not None and not is_tree(c) and type(c).__name__ in BAD_RAW_TEXT:
                    return {'parent': path, 'attr': n, 'kind': 'tok', 'op': 'raw_text',
                            'value': rng.choice(BAD_RAW_TEXT[type(c).__name__])}
            continue
        # node level ---------------------------------------------------------------------------
        sl = slots_of(parent)
        if not sl:
            continue
        reps = [x for x in sl if x[1] == 'rep']
        opts = [x for x in sl if x[1] == 'opt']
        rr = rng.random()
        name, kind, _ = rng.choice(reps) if (reps and rr < 0.6) else rng.choice(opts) if (opts and rr < 0.85) else rng.choice(sl)
        bad = rng.random() < 0.2
        donor = lambda want_bad=False: gen_donor(rng, root, parent, name, kind, want_bad)
        base = {'parent': path, 'attr': name, 'kind': kind}
        if kind == 'req':
            d = donor(bad)
            if rng.random() < 0.08:
                d = {'k': 'attached_doc', 'path': path + [[name]]}      # the current child itself
            elif rng.random() < 0.07:
                d = {'k': 'twin', 'path': path + [[name]], 'how': rng.choice(['copy', 'copy', 'parse'])}
            if d is None:
                continue
            return {**base, 'op': 'set_req', 'donors': [d]}
        if kind == 'opt':
            cur = getattr(parent, name)
            if rng.random() < (0.45 if cur is not None else 0.1):
                return {**base, 'op': 'set_opt', 'donors': []}
            d = donor(bad)
            if cur is not None and rng.random() < 0.08:
                d = {'k': 'attached_doc', 'path': path + [[name]]}
            elif cur is not None and rng.random() < 0.07:
                d = {'k': 'twin', 'path': path + [[name]], 'how': rng.choice(['copy', 'copy', 'parse'])}
            if d is None:
                continue
            return {**base, 'op': 'set_opt', 'donors': [d]}
        w = getattr(parent, name)
        n = len(w)
        k = rng.choice(['setitem', 'setslice', 'setslice', 'delitem', 'delslice', 'insert', 'insert', 'append', 'extend',
                        'extend', 'pop', 'clear', 'drop_many'])
        if name == 'raw_directives_with_comments' and k == 'clear' and rng.random() < 0.7:
            continue

        def batch(m):
            ds = []
            for j in range(m):
                d = donor(bad and rng.random() < 0.5)
                if d is None:
                    return None
                ds.append(d)
            if ds and bad and rng.random() < 0.3 and not any(d['k'].startswith('attached') for d in ds):
                ds.append({'k': 'dup', 'of': rng.randrange(len(ds))})
            return ds
        if k in ('setitem', 'insert', 'append'):
            ds = batch(1)
            if not ds:
                continue
            ds = ds[:1]
            o = {**base, 'op': k, 'donors': ds}
            if k != 'append':
                o['i'] = rand_index(rng, n)
            if k == 'setitem' and n and rng.random() < 0.12:
                j = rng.randrange(n)
                o['i'] = rng.choice([j, j - n])
                # the very node that is already there (a no-op), or its twin in a copy of the document (refused)
                o['donors'] = [{'k': 'attached_doc', 'path': path + [[name, j]]} if rng.random() < 0.5 else
                               {'k': 'twin', 'path': path + [[name, j]], 'how': 'copy'}]
            return o
        if k in ('setslice', 'extend') and rng.random() < 0.12:
            ds = edge_batch(rng, root, parent, name)
            if ds is not None:
                o = {**base, 'op': k, 'donors': ds}
                if k == 'setslice':
                    o['s'] = rand_slice(rng, n)[:2] + [rng.choice([None, 1])]
                return o
        if k == 'setslice':
            s = rand_slice(rng, n)
            try:
                m = len(range(n)[slice(*s)])
            except ValueError:
                m = 1
            if s[2] in (None, 1) or rng.random() < 0.25:
                m = rng.choice([0, 1, 1, 2, 2, 3])
            ds = batch(m)
            if ds is None:
                continue
            return {**base, 'op': k, 's': s, 'donors': ds}
        if k == 'extend':
            ds = batch(rng.choice([0, 1, 2, 2, 3]))
            if ds is None:
                continue
            return {**base, 'op': k, 'donors': ds}
        if k in ('delitem', 'pop'):
            return {**base, 'op': k, 'i': rand_index(rng, n), 'donors': []}
        if k == 'delslice':
            return {**base, 'op': k, 's': rand_slice(rng, n), 'donors': []}
        if k == 'drop_many':
            l = [i for i in range(n) if rng.random() < 0.5]
            rng.shuffle(l)
            if l and rng.random() < 0.4:
                l = [i - n if rng.random() < 0.4 else i for i in l]          # counted from the end
                if rng.random() < 0.5:
                    l.insert(rng.randrange(len(l) + 1), rng.choice(l))       # the same position twice
            if rng.random() < 0.15:
                l.insert(rng.randrange(len(l) + 1), rng.choice([n, n + 1, -n - 1]))    # must be refused up front
            return {**base, 'op': k, 'l': l, 'donors': []}
        return {**base, 'op': k, 'donors': []}
    return None


def op_class(op, rec):
    ds = ','.join(sorted(d['k'] for d in op.get('donors', [])))
    return f'{op.get("kind")}:{op["op"]}:{ds}:{rec["exn"]}'


# ---- driver ---------------------------------------------------------------------------------------
def set_lf(lf):
    """token-store load factor: small values make block splits / merges / rebalancing happen in small documents"""
    from harness import store_driver
    store_driver.set_load_factor(lf)


def replay_script(text, script, lf=1000):
    """re-executes a witness; returns all monitor findings"""
    try:
        set_lf(1000)
        pool()
        set_lf(lf)
        return _replay_script(text, script)
    finally:
        set_lf(1000)


def _replay_script(text, script):
    root = gen_docs.parse_ok(text)
    if root is not None:
        from harness import health
        health.prime(root)
    out = []
    if root is None:
        return [('replay', 'the document no longer parses')], []
    cases = []
    for op in script:
        rec = call(root, op)
        out += rec['findings']
        if rec['case']:
            cases.append(rec['case'])
    return out, cases


def shrink_script(text, script, sig, lf=1000):
    """drop ops that are not needed to reproduce signature `sig` at the last op"""
    cur = list(script)
    i = 0
    while i < len(cur) - 1 and len(cur) > 1:
        cand = cur[:i] + cur[i + 1:]
        try:
            f, _ = replay_script(text, cand, lf)
            if any(s == sig for s, _ in f):
                cur = cand
                continue
        except Exception:
            pass
        i += 1
    return cur


CMT = ('2000-01-01 * "c"\n    ; ic1\n    kk: 1\n    ; ic2\n    jj: 2\n    ; ic3\n    Assets:A  1 USD\n    ; ic4\n'
       '    Assets:B  2 USD\n    ; ic5\n    Assets:C\n\n; float1\n\n2000-01-05 open Assets:X\n\n; float2\n\n'
       '2000-01-06 open Assets:Y\n\n; float3\n\n')
RICH = ('2000-01-01 * "p" "n" #t1 ^l1 #t2 ^l2 #t3\n    k1: 1\n    k2: "v"\n    k3: TRUE\n    Assets:A  1 USD\n'
        '    Assets:B  2 USD\n    Assets:C  -3 USD\n2000-01-02 open Assets:A  USD, EUR, GBP, CAD\n'
        '2000-01-03 custom "budget" "a" 1 TRUE Assets:A\n')
RICH2 = ('; head\n\n2000-01-01 * "p" "n" ^trip #food #trip ^x #y\n    k1: 1\n    k2: "v"\n    k3: TRUE\n    Assets:A  1 USD\n'
         '    Assets:B  2 USD\n    Assets:C  -3 USD\n\n; float1\n\n2000-01-02 open Assets:A  USD, EUR\n\n; float2\n\n'
         '2000-01-03 close Assets:A\n2000-01-04 custom "b" "a" 1 TRUE "a"\n')
_OPEN2 = '2000-01-01 open Assets:Foo  AAA, BBB\n2000-01-02 open Assets:Bar  CCC\n'
_CUR = lambda d, i: [['raw_directives_with_comments', d], ['raw_currencies', i]]
_RC = {'parent': [['raw_directives_with_comments', 0]], 'attr': 'raw_currencies', 'kind': 'rep'}
# fixed scripts that run first (the defects found while building this check; they must stay repaired)
CORPUS = [
    (_OPEN2, [{**_RC, 'op': 'setslice', 's': [0, 1, None],
               'donors': [{'k': 'copy_doc', 'path': _CUR(1, 0)}, {'k': 'copy_doc', 'path': _CUR(0, 1)}]}]),     # D3
    (_OPEN2, [{**_RC, 'op': 'insert', 'i': -1, 'donors': [{'k': 'copy_doc', 'path': _CUR(1, 0)}]}]),         # D4
    (_OPEN2, [{**_RC, 'op': 'setslice', 's': [0, 2, None], 'donors': [{'k': 'attached_doc', 'path': _CUR(1, 0)}]}]),  # D6
    (_OPEN2, [{**_RC, 'op': 'extend', 'donors': [{'k': 'copy_doc', 'path': _CUR(1, 0)},
                                                 {'k': 'attached_doc', 'path': _CUR(1, 0)}]}]),            # D6
    (_OPEN2, [{'parent': [['raw_directives_with_comments', 0]], 'attr': 'raw_date', 'kind': 'tok', 'op': 'raw_text',
               'value': 'zzz'}]),                                                                            # D6
    ('2000-01-01 balance Assets:Cash 1 + 2 USD\n2000-01-02 balance Assets:Cash 3 USD\n',
     [{'parent': [['raw_directives_with_comments', 1], ['raw_number']], 'attr': 'raw_number_add_expr', 'kind': 'req',
       'op': 'set_req', 'donors': [{'k': 'child_span_doc', 'path': [['raw_directives_with_comments', 0], ['raw_number']]}]}]),  # D15
]
# views read first, then raw xs[i:j] = [v] with j < i (an insertion at i > 0), then a value-level edit at / after i
_TX = [['raw_directives_with_comments', 0]]
_TOUCH = lambda raw, views: {'parent': _TX, 'attr': raw, 'kind': 'val', 'op': 'touch', 'raw': raw, 'views': views}
_REV = lambda raw, a, b, j: {'parent': _TX, 'attr': raw, 'kind': 'rep', 'op': 'setslice', 's': [a, b, None],
                            'donors': [{'k': 'copy_doc', 'path': _TX + [[raw, j]]}]}
_VW = lambda view, raw, **kw: {'parent': _TX, 'attr': view, 'kind': 'val', 'raw': raw, 'view': True, 'plain': True, **kw}
CORPUS += [
    (RICH, [_TOUCH('raw_tags_links', ['tags', 'links']), _REV('raw_tags_links', 3, 1, 1),
            _VW('tags', 'raw_tags_links', op='setitem', i=2, values=['zzz'])]),
    (RICH, [_TOUCH('raw_tags_links', ['tags', 'links']), _REV('raw_tags_links', 2, 0, 1),
            _VW('tags', 'raw_tags_links', op='pop', i=1, values=[])]),
    (RICH, [_TOUCH('raw_tags_links', ['tags', 'links']), _REV('raw_tags_links', 1, 0, 0),
            _VW('links', 'raw_tags_links', op='delitem', i=-1, values=[])]),
    (RICH, [_TOUCH('raw_postings_with_comments', ['raw_postings']), _REV('raw_postings_with_comments', 2, 1, 0),
            {'parent': _TX, 'attr': 'raw_postings', 'kind': 'val', 'raw': 'raw_postings_with_comments', 'view': True,
             'op': 'pop', 'i': 2, 'donors': []}]),
]
# optional children written right against a neighbour (no blank where the grammar needs none): removing the child must
# neither take a token of the neighbour with it nor leave the two neighbours glued together
def _RM(path, attr):
    return {'parent': path, 'attr': attr, 'kind': 'opt', 'op': 'set_opt', 'donors': []}


_D0 = [['raw_directives_with_comments', 0]]
_P0 = _D0 + [['raw_postings_with_comments', 0]]
CORPUS += [
    ('2000-01-01 open Assets:A USD "STRICT";note\n', [_RM(_D0, 'raw_inline_comment')]),
    ('2000-01-01 open Assets:A USD"STRICT" ;note\n', [_RM(_D0, 'raw_booking')]),
    ('2000-01-01 *\n  Assets:A 1 USD{2 EUR}@3 EUR;note\n', [_RM(_P0, 'raw_inline_comment')]),
    ('2000-01-01 *\n  Assets:A 1 USD{2 EUR}@3 EUR;note\n', [_RM(_P0, 'raw_price')]),
    ('2000-01-01 *\n  Assets:A 1 USD{2 EUR}@3 EUR;note\n', [_RM(_P0, 'raw_cost')]),
    ('2000-01-01 *\n  Assets:A 1 USD{2 EUR}@3 EUR;note\n', [_RM(_P0, 'raw_cost'), _RM(_P0, 'raw_price'), _RM(_P0, 'raw_inline_comment')]),
    ('2000-01-01 *\n  !Assets:Foo 10 USD\n', [_RM(_P0, 'raw_flag')]),
    ('2000-01-01 *\n  ! Assets:Foo 10 USD\n', [_RM(_P0, 'raw_flag')]),
    ('2000-01-01 *\n    Assets:Cash 10CAD\n', [_RM(_P0, 'raw_number')]),
    ('2000-01-01 *\n    Assets:Cash 10CAD\n', [_RM(_P0, 'raw_currency')]),
    ('2000-01-01 *\n    Assets:Cash 10 CAD@@5 USD\n', [_RM(_P0, 'raw_currency'), _RM(_P0, 'raw_number')]),
    ('2000-01-01 * "p""n"#t\n  Assets:A\n', [_RM(_D0, 'raw_payee')]),
    ('2000-01-01 balance Assets:A 1~0.1 USD\n', [_RM(_D0, 'raw_tolerance')]),
    ('2000-01-01 *\n    Assets:Cash  10 + 2CAD\n', [_RM(_P0, 'raw_number')]),
    ('2000-01-01 *\n    Assets:Cash  1 USD {2 EUR} @ 3 EUR;note\n', [_RM(_P0, 'raw_price')]),
    ('2000-01-01 *\n    Assets:Cash  1 USD {2 EUR, 2000-01-01}@ 3 EUR\n', [_RM(_P0, 'raw_cost')]),
    ('2000-01-01 balance Assets:A 1 ~ 0.1 + 0.2USD\n', [_RM(_D0, 'raw_tolerance')]),
]
# items of a repeated field written right against the NEXT item (`1 "s"2`, `^l#b`): removing the item in front of a
# glued one keeps the blanks that stood in front of it (_del_tokens, else-branch; was the finding
# C06:list-item-removed-next-to-glued-item); commas and the first-item branch are as before
def _RV(attr, op, **kw):
    return {'parent': _D0, 'attr': attr, 'kind': 'rep', 'op': op, 'donors': [], **kw}


_GL_CUSTOM = '2000-01-01 custom "x" 1 "s"2 3\n'
_GL_CUSTOM2 = '2000-01-01 custom "x" 1  "s"2 "t"TRUE 3\n'
_GL_TAGS = '2000-01-01 * "n" #a ^l#b ^m\n  Assets:A\n'
for _t, _a, _n in ((_GL_CUSTOM, 'raw_values', 4), (_GL_CUSTOM2, 'raw_values', 6), (_GL_TAGS, 'raw_tags_links', 4),
                   ('2000-01-01 open Assets:A USD,EUR ,CAD;c\n', 'raw_currencies', 3),
                   # the glued neighbour is the LAST item of the list (the keep-the-blanks rule must not stop one short)
                   ('2000-01-01 custom "x" 1 "s"2\n', 'raw_values', 3), ('2000-01-01 custom "x" 1 2 "s"TRUE\n', 'raw_values', 4),
                   ('2000-01-01 * "n" #a ^l#b\n  Assets:A\n', 'raw_tags_links', 3)):
    CORPUS += [(_t, [_RV(_a, 'pop', i=_i)]) for _i in range(_n)]
    CORPUS += [(_t, [_RV(_a, 'delitem', i=_i - _n)]) for _i in range(_n)]
    CORPUS += [(_t, [_RV(_a, 'delslice', s=[1, 2, None])]), (_t, [_RV(_a, 'delslice', s=[1, 3, None])]),
               (_t, [_RV(_a, 'delslice', s=[0, 2, None])]), (_t, [_RV(_a, 'delslice', s=[1, None, None])]),
               (_t, [_RV(_a, 'delslice', s=[1, None, 2])]), (_t, [_RV(_a, 'drop_many', l=[1])]),
               (_t, [_RV(_a, 'drop_many', l=[_n - 2, 1])]), (_t, [_RV(_a, 'pop', i=1), _RV(_a, 'pop', i=1)]),
               (_t, [_RV(_a, 'pop', i=-2), _RV(_a, 'pop', i=1)])]
# views over MIXED raw lists (other-kind elements / standalone comments between the addressed elements): slice deletes
# and assignments, remove / discard / index / count / in with a value that also occurs as the other kind
_T2 = [['raw_directives_with_comments', 1]]
_V2 = lambda P, view, raw, **kw: {'parent': P, 'attr': view, 'kind': 'val', 'raw': raw, 'view': True, **kw}
_CM = lambda P, raw, i: {'parent': P, 'attr': raw, 'kind': 'rep', 'op': 'insert', 'i': i,
                         'donors': [{'k': 'copy_doc', 'path': [['raw_directives_with_comments', 0]]}]}
_TCH = lambda P, raw, views: {'parent': P, 'attr': raw, 'kind': 'val', 'op': 'touch', 'raw': raw, 'views': views}
CORPUS += [
    (RICH2, [_TCH(_T2, 'raw_tags_links', ['tags', 'links']),
             _V2(_T2, 'tags', 'raw_tags_links', plain=True, op='delslice', s=[1, 3, None], values=[])]),
    (RICH2, [_V2(_T2, 'links', 'raw_tags_links', plain=True, op='delslice', s=[0, 2, 1], values=[])]),
    (RICH2, [_V2(_T2, 'tags', 'raw_tags_links', plain=True, op='remove', values=['trip'])]),
    (RICH2, [_V2(_T2, 'tags', 'raw_tags_links', plain=True, op='vread', values=['x']),
             _V2(_T2, 'links', 'raw_tags_links', plain=True, op='vread', values=['trip']),
             _V2(_T2, 'tags', 'raw_tags_links', plain=True, op='discard', values=['x']),
             _V2(_T2, 'links', 'raw_tags_links', plain=True, op='discard', values=['trip'])]),
    (RICH2, [_V2([], 'raw_directives', 'raw_directives_with_comments', op='delslice', s=[0, 2, None], donors=[])]),
    (RICH2, [_V2([], 'directives', 'raw_directives_with_comments', op='delslice', s=[1, 3, 1], donors=[])]),
    (RICH2, [_CM(_T2, 'raw_postings_with_comments', 1), _TCH(_T2, 'raw_postings_with_comments', ['raw_postings']),
             _V2(_T2, 'raw_postings', 'raw_postings_with_comments', op='delslice', s=[0, 2, None], donors=[])]),
    (RICH2, [_CM(_T2, 'raw_meta_with_comments', 1),
             _V2(_T2, 'raw_meta', 'raw_meta_with_comments', op='delslice', s=[0, 2, None], donors=[])]),
    (RICH2, [_CM(_T2, 'raw_meta_with_comments', 2),
             _V2(_T2, 'meta', 'raw_meta_with_comments', op='delslice', s=[1, 3, None], donors=[])]),
    (RICH2, [_V2(_T2, 'tags', 'raw_tags_links', plain=True, op='iadd', values=['n1', 'n2']),
             {'parent': _T2, 'attr': 'raw_tags_links', 'kind': 'rep', 'op': 'iadd',
              'donors': [{'k': 'copy_doc', 'path': _T2 + [['raw_tags_links', 0]]}, {'k': 'attached_doc', 'path': _T2 + [['raw_tags_links', 1]]}]}]),
]
# illegal cost combinations: refused with the braces untouched
_CS = [['raw_directives_with_comments', 0], ['raw_postings_with_comments', 0], ['raw_cost']]
for _form, _prop in (('{{500.00}}', 'number_per'), ('{500.00}', 'number_total'), ('{{500.00, 2020-01-01}}', 'number_per'),
                     ('{1 # 2 USD}', 'currency')):
    CORPUS.append(('2000-01-01 * "t"\n    Assets:A  10 HOOL %s\n    Assets:Cash\n' % _form,
                   [{'parent': _CS, 'attr': _prop, 'kind': 'val', 'op': 'set_value', 'nomon': True,
                     'vtype': None if _prop == 'currency' else 'decimal', 'value': None if _prop == 'currency' else '3'}]))


# token-store stress under small load factors: grow one region of the document, then shrink the region next to it,
# so that blocks split, merge and rebalance while items are inserted and removed (every call is framed)
_STRESS_TEXT = ''.join('2000-01-%02d open Assets:A%02d  USD, EUR\n' % (i % 28 + 1, i) for i in range(16))
_F = {'parent': [], 'attr': 'raw_directives_with_comments', 'kind': 'rep'}
_INS = lambda i: {**_F, 'op': 'insert', 'i': i, 'donors': [{'k': 'copy_doc', 'path': [['raw_directives_with_comments', 0]]}]}
_POP = lambda i: {**_F, 'op': 'pop', 'i': i, 'donors': []}
_STRESS = ([_INS(3)] * 4 + [_POP(9)] * 5 + [_INS(1)] * 3 + [_POP(2)] * 6 + [_INS(6)] * 3 + [_POP(-2)] * 4
           + [{**_F, 'op': 'delslice', 's': [2, 6, None], 'donors': []}, _INS(0), _INS(0), _POP(4), _POP(4), _POP(1)])
CORPUS += [(_STRESS_TEXT, _STRESS, lf) for lf in (2, 3, 4, 5)]

# a mapping update with an existing and a missing key edits two places (the first item's value where it stands, a new
# item behind the last one): the item between them lies in the changed window and is untouched - a legitimate edit
# (the monitor once held it against the code: false alarm of the machinery, DESIGN §19 session 6)
_BAL = [['raw_directives_with_comments', 0]]
CORPUS += [('2000-01-01 balance Assets:Bank:Checking 12.50\tHOOL\n      note:  -4 USD  \n      foo-bar:\tNULL\n\n2000-01-02 open Assets:A\n',
            [{'parent': _BAL, 'attr': 'meta', 'kind': 'val', 'raw': 'raw_meta_with_comments', 'plain': True, 'op': 'map_update',
              'key': 'missing-key', 'key2': 'note', 'values': ['v', 'w']}], lf) for lf in (3, 1000)]


def run_slots(ctx: common.Ctx, props, n_docs: int, n_ops: int):
    """props: which monitor signatures belong to the calling property ('C03' and/or 'C19')"""
    try:
        return _run_slots(ctx, props, n_docs, n_ops)
    finally:
        if UNOBSERVABLE[0]:
            ctx.count('private_state_unobservable', UNOBSERVABLE[0])
            ctx.notes.append('private wrapper state (separators / Repeated) was not found under the known names or shapes: '
                             'those comparisons were skipped; behaviour (tokens, texts, exceptions) is still compared')
            UNOBSERVABLE[0] = 0


def _run_slots(ctx: common.Ctx, props, n_docs: int, n_ops: int):
    rng = ctx.rng
    cases, case_meta = [], []
    reported = set()
    for entry in CORPUS:
        text, script = entry[0], entry[1]
        clf = entry[2] if len(entry) > 2 else 1000
        try:
            findings, cs = replay_script(text, script, clf)
        except Exception as e:
            import traceback
            tb = traceback.extract_tb(e.__traceback__)
            if tb and tb[-1].filename.startswith(str(common.VERIF) + '/'):
                # the HARNESS could not observe the run (it read private state that is no longer there): that is a
                # broken tie, never a counter-example
                ctx.fail('tie', 'harness-observation', f'corpus script could not be observed ({type(e).__name__}: {e} at '
                                                       f'{tb[-1].filename}:{tb[-1].lineno})', {'text': text, 'script': script})
                continue
            findings, cs = [('C03:frame', 'corpus script crashed: ' + type(e).__name__),
                            ('C19:refusal-not-atomic', 'corpus script crashed: ' + type(e).__name__)], []
        ctx.dist('corpus')
        ctx.case({'corpus': script[-1]['op'], 'attr': script[-1]['attr']})
        for c in cs[-6:]:
            cases.append(c)
            case_meta.append((text, script, clf))
        for sig, what in findings:
            if sig.split(':')[0] in props:
                reported.add(sig)
                ctx.monitor_failure(sig, what, {'text': text, 'script': script, 'lf': clf})
    set_lf(1000)
    pool()
    for di in range(n_docs):
        lf = rng.choice([2, 3, 4, 5, 6, 10, 1000, 1000])
        set_lf(lf)
        mode = rng.choice(['general', 'general', 'general', 'general', 'views', 'views', 'views', 'cost', 'cost', 'cmt'])
        text = cost_ledger(rng) if mode == 'cost' else gen_docs.ledger(rng, n_dir=rng.choice([1, 2, 3, 4, 6]))
        if mode == 'views' and rng.random() < 0.8:
            text = (RICH2 if rng.random() < 0.5 else RICH) + text
        if mode == 'cmt':
            text = CMT + text
        root = gen_docs.parse_ok(text)
        if root is None:
            continue
        from harness import health
        health.prime(root)          # every value / filtered view is cached before the script runs
        target = None
        if mode == 'views':
            tg = view_targets(root)
            if not tg:
                mode = 'general'
            else:
                target = rng.choice(tg)
        ctx.dist('docs:' + mode)
        script = []
        loose = False
        for oi in range(n_ops if mode != 'views' else rng.randint(4, 7)):
            try:
                if mode == 'views' and oi == 0:
                    op = {'parent': target[0], 'attr': target[1], 'kind': 'val', 'op': 'touch', 'raw': target[1],
                          'views': views_of(resolve(root, target[0]), target[1])}
                elif mode == 'views':
                    op = gen_view_step(rng, root, target[0], target[1])
                elif mode == 'cost':
                    op = gen_cost_op(rng, root) if rng.random() < 0.8 else gen_op(rng, root)
                elif mode == 'cmt':
                    op = gen_comment_op(rng, root) if rng.random() < 0.7 else gen_op(rng, root)
                else:
                    op = gen_op(rng, root)
            except Exception:
                op = None
            if op is None:
                break
            if loose:
                op['loose'] = True     # comments were un-claimed: no longer a normally parsed document (C03 does not apply)
            script.append(op)
            try:
                rec = call(root, op)
            except Exception as e:
                # the harness could not even observe the call (tree unusable): stop this document
                ctx.dist('harness_skip:' + type(e).__name__)
                # the tree or its store cannot even be read around this call: the previous call broke the document
                unreadable = None
                try:
                    gen_docs.print_model(root)
                    for _p, _n in walk(root):
                        node_tokens(_n)
                except Exception as e2:
                    unreadable = e2
                if len(script) > 1 and unreadable is not None:
                    e = unreadable
                    sig = SIG_FRAME if 'C03' in props else SIG_ATOMIC
                    ctx.monitor_failure(sig, f'the document cannot be read any more after {script[-2]["op"]} on {script[-2]["attr"]} '
                                             f'({type(e).__name__})', {'text': text, 'script': list(script), 'lf': lf})
                break
            if op['op'] in ('unclaim_inter', 'spacing') and rec['exn'] is None:
                loose = True
            cls = op_class(op, rec)
            ctx.dist(cls)
            ctx.case({'doc': di, 'op': cls}, nontrivial=True)
            if rec['case'] and len(rec['case']) < 120000:
                cases.append(rec['case'])
                case_meta.append((text, list(script), lf))
            for sig, what in rec['findings']:
                if sig.split(':')[0] not in props:
                    continue
                if sig in reported and ctx.counters.get('failures_monitor', 0) > 6:
                    continue
                reported.add(sig)
                small = script
                if len(script) > 1 and sum(1 for f in ctx.failures if f.signature == sig) < 1:
                    try:
                        small = shrink_script(text, script, sig, lf)
                        set_lf(lf)
                    except Exception:
                        small = script
                        set_lf(lf)
                ctx.monitor_failure(sig, what, {'text': text, 'script': small, 'lf': lf})
            if rec['findings']:
                break            # a violated property may have left the tree unusable
            if len(list(root.token_store)) > 400:
                break
    set_lf(1000)
    bad0 = ctx.run_coq_cases('slots', PREAMBLE, 'case', 'check_both', cases, chunk=12)
    # check_both = model agrees AND the layout invariant (hypothesis of the theorems) holds on the state before
    bad = []
    if bad0:
        sub = ctx.run_coq_cases('slots_re', PREAMBLE, 'case', 'check_case', [cases[i] for i in bad0], chunk=12)
        bad = [bad0[k] for k in sub]
        nolay = [i for i in bad0 if i not in bad]
        ctx.count('layout_hypothesis_false', len(nolay))
        for i in nolay[:3]:
            op = case_meta[i][1][-1]
            ctx.notes.append(f'layout_b false before {op["op"]} on {op["attr"]} (theorems do not apply to this state): '
                             + json.dumps({'text': case_meta[i][0], 'script': case_meta[i][1]})[:600])
    ctx.count('layout_hypothesis_checked', len(cases))
    ctx.count('traces_validated_against_impl', len(cases) - len(bad))
    for i in bad[:3]:
        text, script = case_meta[i][0], case_meta[i][1]
        lf_i = case_meta[i][2] if len(case_meta[i]) > 2 else 1000
        op = script[-1]
        ctx.fail('corr', 'slots:' + op['op'],
                 f'Repeated.v/Fields.v disagree with the implementation on {op["op"]} of {op["attr"]}',
                 {'text': text, 'script': script, 'lf': lf_i})
    if len(bad) > 3:
        ctx.count('failures_corr', len(bad) - 3)


RULE = ('seeded editing scripts over generated ledgers (1-6 directives): every node-level slot kind '
        '(optional left/right, required, repeated) and value-level route (tags, links, currencies, meta mapping, '
        'optional strings, raw_text of value tokens); every index form (int, negative, out of range, slice, '
        'extended slice, empty, zero step); donors: deep copies of pool nodes and of nodes of the document, popped '
        'nodes, attached nodes of the document / of another document, the current child itself, duplicates in a '
        'batch, children spanning a free-standing parent, attached values touching exactly one end of their store at '
        'every batch position (raw lists and filtered views); histories that first read every view of a repeated '
        'field (tags, links, currencies, raw_postings, raw_meta, meta, values, raw_directives) and then mix raw-level '
        'and value-level calls (incl. xs[a:b] = vs with b < a) with the addressed-element oracle; refusal probes: '
        'illegal cost combinations on every cost form, claim/unclaim of comments that are not there, unrepresentable '
        'raw texts, missing indices / keys and size-mismatched slices on every view kind; '
        'a case is distinct by (document, slot kind, operation, '
        'donor kinds, exception class)')


def run(ctx: common.Ctx):
    ctx.rule = RULE
    ctx.assumptions += [
        'the token store is the plain list Repeated.v operates on (that is C07/C02: Store refines the list)',
        'first_token/last_token of nodes are read from the implementation for each case (the generated pivot / '
        'first / last chains are C05/C15 territory)',
        'value-level routes (views, meta mapping, optional_*_property) are compositions of the modelled node-level '
        'mutators; they are watched by the monitors, not modelled here (C09/C10 model them)',
        'CPython slice/range semantics as modelled in PySeq.v (validated by C10 against CPython)']
    ctx.require_coq(['properties/C03'], extra_targets=['RepeatedRun'])
    run_slots(ctx, ('C03',), ctx.scale(210, 1500), 8)


def search(ctx: common.Ctx):
    run_slots(ctx, ('C03',), ctx.scale(50, 300), 8)


def replay(ctx, path, props=('C03',)):
    data = json.loads(open(path).read())
    f = data.get('failure') or (data.get('what_no_longer_checks') or [{}])[0]
    w = f.get('witness') or {}
    if 'script' not in w:
        print(json.dumps(f, indent=1)[:3000])
        return 1
    findings, cases = replay_script(w['text'], w['script'], w.get('lf', 1000))
    for sig, what in findings:
        print('monitor:', sig, what)
    bad = ctx.run_coq_cases('replay', PREAMBLE, 'case', 'check_case', cases, chunk=12) if cases else []
    print('model/implementation agree' if not bad else f'model/implementation DISAGREE on steps {bad}')
    return 1 if (findings or bad) else 0
