"""Seeded random *syntax-preserving* edits on a parsed document, through every layer of the public API
(token values, value-level properties, optional/required node properties, repeated wrappers and their
filtered/string/mapping views, cost / payee / narration, deep-copy-and-insert, pop-and-reinsert,
comment claims). Used by the C05 (well-formedness), C06 (re-parse), C11 (copy independence) and C20
(equality) checks. Every choice comes from the rng passed in."""
from __future__ import annotations

import copy
import datetime
import decimal
import random
from typing import Any, Callable, Optional

from autobean_refactor import models
from autobean_refactor.models import base, internal
from autobean_refactor.models.internal import properties as props
from autobean_refactor.models.internal import value_properties as vprops
from autobean_refactor.models import meta_item_internal
from harness import treewalk

D = decimal.Decimal


def s_string(r):
    return r.choice(['x', 'hello', '', 'a "q" b', 'two\nlines', 'back\\slash', 'ünï', 'semi;colon'])


def s_account(r):
    return r.choice(['Assets:New', 'Expenses:A:B-C', 'Income:X1', 'Liabilities:Y'])


def s_currency(r):
    return r.choice(['USD', 'JPY', 'ABC.D', 'X-Y', 'CHF'])


def s_date(r):
    return datetime.date(r.choice([1987, 2001, 2024]), r.randrange(1, 13), r.randrange(1, 29))


def s_number(r):
    return D(r.choice(['0', '1', '12.5', '1000', '3.14159', '0.001']))


def s_decimal(r):
    return D(r.choice(['0', '1', '-12.5', '1000', '-3', '0.5']))


def s_tag(r):
    return r.choice(['t1', 'new-tag', 'a.b'])


def s_link(r):
    return r.choice(['l1', 'new-link'])


def s_key(r):
    return r.choice(['nk', 'new-key', 'k9', 'foo-bar', 'key'])


def s_inline(r):
    return r.choice(['c', 'a comment', '', 'x ; y'])


def s_block(r):
    return r.choice(['c', 'line1\nline2', '', 'a\n\nb'])


def s_meta_value(r):
    return r.choice([None, 'str', D('4.2'), datetime.date(2020, 1, 2), True, False, 'Assets:Foo'])


TOKEN_SAMPLERS: dict[str, Callable] = {
    'EscapedString': s_string, 'Account': s_account, 'Currency': s_currency, 'Date': s_date,
    'Number': s_number, 'Tag': s_tag, 'Link': s_link, 'MetaKey': s_key, 'InlineComment': s_inline,
    'BlockComment': s_block, 'Bool': lambda r: r.random() < 0.5,
    'PostingFlag': lambda r: r.choice(['!', '*', '?']), 'TransactionFlag': lambda r: r.choice(['*', '!', '?']),
    'NumberExpr': s_decimal, 'Tolerance': s_number,
}


def sample_for(cls, r):
    """An in-domain value for a raw model class (by name), or None when unknown."""
    f = TOKEN_SAMPLERS.get(cls.__name__)
    return None if f is None else ('ok', f(r))


def make_node(cls, r) -> Optional[base.RawModel]:
    s = sample_for(cls, r)
    if s is None or not hasattr(cls, 'from_value'):
        return None
    try:
        return cls.from_value(s[1])
    except Exception:
        return None


def make_directive(r) -> base.RawModel:
    k = r.randrange(6)
    if k == 0:
        return models.Open.from_value(s_date(r), s_account(r), [s_currency(r) for _ in range(r.randrange(3))],
                                      booking=r.choice([None, 'STRICT']), inline_comment=r.choice([None, 'ic']))
    if k == 1:
        return models.Close.from_value(s_date(r), s_account(r), meta={'kk': 'v'} if r.random() < 0.3 else None)
    if k == 2:
        return models.Balance.from_value(s_date(r), s_account(r), s_decimal(r), r.choice([None, D('0.01')]),
                                         s_currency(r))
    if k == 3:
        return models.Note.from_value(s_date(r), s_account(r), s_string(r), tags=[s_tag(r)] if r.random() < 0.5 else [])
    if k == 4:
        ps = [models.Posting.from_value(s_account(r), s_decimal(r), s_currency(r)) for _ in range(r.randrange(3))]
        return models.Transaction.from_value(s_date(r), r.choice([None, 'payee']), r.choice([None, 'narr', 'n\n2']), ps,
                                             tags=[s_tag(r)] if r.random() < 0.3 else [],
                                             leading_comment=r.choice([None, None, 'lead']))
    return models.Price.from_value(s_date(r), s_currency(r), models.Amount.from_value(s_decimal(r), s_currency(r)))


def make_posting(r) -> base.RawModel:
    k = r.randrange(4)
    if k == 0:
        return models.Posting.from_value(s_account(r), None, None)
    if k == 1:
        return models.Posting.from_value(s_account(r), s_decimal(r), s_currency(r), flag=r.choice([None, '!']))
    if k == 2:
        return models.Posting.from_value(s_account(r), s_decimal(r), s_currency(r),
                                         price=models.UnitPrice.from_value(s_number(r), s_currency(r)))
    return models.Posting.from_value(s_account(r), s_decimal(r), s_currency(r), inline_comment='pc',
                                     meta={'pk': D(1)})


def make_meta_item(r, indent='    ') -> base.RawModel:
    return models.MetaItem.from_value(s_key(r), s_meta_value(r), indent=indent)


# -------------------------------------------------------------------------------------------------
def class_props(cls) -> dict[str, Any]:
    out = {}
    for c in reversed(cls.__mro__):
        for k, v in vars(c).items():
            if isinstance(v, internal.base_ro_property) and not k.startswith('__'):
                out[k] = v
    return out


def rand_index(r, n: int):
    c = r.random()
    if n == 0 or c < 0.15:
        return r.choice([0, -1, n, n + 2, -n - 1])
    if c < 0.7:
        return r.randrange(n)
    return -r.randrange(1, n + 1)


def rand_slice(r, n: int):
    def b():
        return r.choice([None, None, r.randrange(-n - 1, n + 2)])
    step = r.choice([None, None, 1, 1, 2, -1, -2, 3])
    return slice(b(), b(), step)


class Edit:
    """One applied edit: description (replayable from the seed), whether it raised."""

    def __init__(self, desc: str):
        self.desc = desc
        self.exc: Optional[BaseException] = None

    def __repr__(self):
        return self.desc + (f' -> {type(self.exc).__name__}' if self.exc else '')


def _list_edit(r, w, make: Callable[[], Any], name: str, *, allow_remove_value=None, owner=None) -> Edit:
    """Random MutableSequence operation on wrapper w with donors from make(). owner = (model, attribute) the
    wrapper was read from (for `model.attr += values` and whole-field assignment)."""
    n = len(w)
    op = r.choice(['append', 'insert', 'pop', 'del', 'set', 'delslice', 'setslice', 'extend', 'clear', 'popinsert',
                   'setfront', 'insert0', 'setrev', 'setext', 'iadd', 'whole']
                  if n else ['append', 'insert', 'extend', 'extend', 'iadd'])
    if op in ('iadd', 'whole') and owner is None:
        op = 'extend'
    if op == 'whole' and not (type(w) is props.RepeatedNodeWrapper):
        op = 'setext'       # whole-field assignment: plain raw node lists only
    if op == 'setext':          # extended slices that cover the whole list / one end of it, sizes matching
        s = r.choice([slice(None, None, -1), slice(None, None, -1), slice(None, None, 2), slice(1, None, -1),
                      slice(None, None, -2), slice(n - 1, None, -1), slice(0, n, 1)])
        k = len(range(n)[s])
        e = Edit(f'{name}[{s.start}:{s.stop}:{s.step}] = [new]*{k}')
        vs = [make() for _ in range(k)]
        try:
            w[s] = vs
        except Exception as x:
            e.exc = x
        return e
    if op == 'iadd':            # model.attr += values: __iadd__ and then the assignment of the result
        k = r.randrange(0, 3)
        e = Edit(f'{name} += [new]*{k}')
        vs = [make() for _ in range(k)]
        try:
            setattr(owner[0], owner[1], w.__iadd__(vs))
        except Exception as x:
            e.exc = x
        return e
    if op == 'whole':           # model.raw_xs = <free-standing wrapper> (a changed deep copy of the current one)
        e = Edit(f'{name} = changed deepcopy({name})')
        try:
            dc = copy.deepcopy(w)
            c = r.random()
            if c < 0.4 and len(dc):
                dc.pop(r.randrange(len(dc)))
            elif c < 0.8:
                dc.insert(r.randrange(len(dc) + 1), make())
            setattr(owner[0], owner[1], dc)
        except Exception as x:
            e.exc = x
        return e
    if op == 'append':
        e = Edit(f'{name}.append(new)')
        v = make()
        try:
            w.append(v)
        except Exception as x:
            e.exc = x
    elif op == 'insert':
        i = rand_index(r, n)
        e = Edit(f'{name}.insert({i}, new)')
        v = make()
        try:
            w.insert(i, v)
        except Exception as x:
            e.exc = x
    elif op == 'pop':
        i = rand_index(r, n)
        e = Edit(f'{name}.pop({i})')
        try:
            w.pop(i)
        except Exception as x:
            e.exc = x
    elif op == 'del':
        i = rand_index(r, n)
        e = Edit(f'del {name}[{i}]')
        try:
            del w[i]
        except Exception as x:
            e.exc = x
    elif op == 'set':
        i = rand_index(r, n)
        e = Edit(f'{name}[{i}] = new')
        v = make()
        try:
            w[i] = v
        except Exception as x:
            e.exc = x
    elif op == 'delslice':
        s = rand_slice(r, n)
        e = Edit(f'del {name}[{s.start}:{s.stop}:{s.step}]')
        try:
            del w[s]
        except Exception as x:
            e.exc = x
    elif op == 'setslice':
        s = rand_slice(r, n)
        k = len(range(n)[s]) if r.random() < 0.7 else r.randrange(0, 3)
        e = Edit(f'{name}[{s.start}:{s.stop}:{s.step}] = [new]*{k}')
        vs = [make() for _ in range(k)]
        try:
            w[s] = vs
        except Exception as x:
            e.exc = x
    elif op == 'setfront':      # several values at the front, old items staying behind
        b = r.choice([0, 0, 1, min(2, n)])
        k = r.choice([2, 2, 3])
        e = Edit(f'{name}[0:{b}] = [new]*{k}')
        vs = [make() for _ in range(k)]
        try:
            w[0:b] = vs
        except Exception as x:
            e.exc = x
    elif op == 'setrev':        # reversed bounds: xs[i:j] = vs with j < i is an insertion at i
        i = r.randrange(1, n + 1)
        j = r.randrange(0, i)
        k = r.choice([0, 1, 1, 2])
        e = Edit(f'{name}[{i}:{j}] = [new]*{k}')
        vs = [make() for _ in range(k)]
        try:
            w[i:j] = vs
        except Exception as x:
            e.exc = x
    elif op == 'insert0':
        e = Edit(f'{name}.insert(0, new)')
        v = make()
        try:
            w.insert(0, v)
        except Exception as x:
            e.exc = x
    elif op == 'extend':
        k = r.randrange(0, 3)
        e = Edit(f'{name}.extend([new]*{k})')
        vs = [make() for _ in range(k)]
        try:
            w.extend(vs)
        except Exception as x:
            e.exc = x
    elif op == 'clear':
        e = Edit(f'{name}.clear()')
        try:
            w.clear()
        except Exception as x:
            e.exc = x
    else:  # pop and reinsert elsewhere (a popped node is a self-contained donor)
        i = r.randrange(n)
        j = rand_index(r, n - 1)
        e = Edit(f'{name}.insert({j}, {name}.pop({i}))')
        try:
            v = w.pop(i)
            w.insert(j, v)
        except Exception as x:
            e.exc = x
    return e


def toggle_names(r: random.Random, m) -> Optional[set]:
    """Two or three optional value properties of m (toggling the same few fields repeatedly)."""
    names = [k for k, pr in class_props(type(m)).items()
             if isinstance(pr, (vprops.optional_string_property, vprops.optional_decimal_property,
                                vprops.optional_date_property)) and not k.startswith('_')
             and 'string' not in k and 'comment' not in k.replace('inline_comment', '')]
    names += [k for k, pr in class_props(type(m)).items()
              if isinstance(pr, props.custom_property) and pr._fset is not props._default_fset
              and k in ('number_per', 'number_total', 'currency', 'payee', 'narration')]
    if len(names) < 2:
        return None
    # a window of neighbours in declaration order: adjacent optional fields share pivots
    k = min(len(names), r.choice([2, 2, 3]))
    i = r.randrange(0, len(names) - k + 1)
    return set(names[i:i + k])


def pick_focus(r: random.Random, root):
    """A model with several optional / repeated properties, to be edited repeatedly (focused histories: the
    second and third edit of one model is where cached pivots, stale views and stale spans show up)."""
    cands = [m for _, m in treewalk.walk(root) if isinstance(m, base.RawTreeModel) and not isinstance(m, internal.Repeated)
             and type(m).__name__ in ('Posting', 'Transaction', 'Open', 'Balance', 'Note', 'Document', 'Custom', 'CostSpec',
                                      'MetaItem', 'Plugin', 'Pushmeta', 'Close', 'Price', 'Event', 'Pad', 'Commodity')]
    return r.choice(cands) if cands else None


def random_edit(r: random.Random, root, *, allow_comments: bool = True, focus=None, only=None) -> Optional[Edit]:
    """Applies one random syntax-preserving edit somewhere in `root` (or, with `focus`, on that model: its own
    properties, not its descendants'). Returns None if nothing applicable."""
    nodes = [(p, m) for p, m in treewalk.walk(root)]
    trees = [(p, m) for p, m in nodes if isinstance(m, base.RawTreeModel)
             and not isinstance(m, internal.Repeated)]
    toks = [(p, m) for p, m in nodes if isinstance(m, base.RawTokenModel)]
    if focus is not None:
        trees = [(p, m) for p, m in trees if m is focus]
        toks = []
    if not trees:
        return None
    for _ in range(30):
        kind = r.random()
        if kind < 0.06 and focus is None:
            # --- in-place arithmetic on a number expression attached inside the document
            import operator
            exprs = [(p, m) for p, m in nodes if isinstance(m, models.NumberExpr)]
            if exprs:
                p, n = r.choice(exprs)
                opn, fn = r.choice([('+=', operator.iadd), ('-=', operator.isub), ('*=', operator.imul), ('/=', operator.itruediv)])
                v = r.choice([2, D('2.5'), -3, D('-0.5'), 10])
                desc = repr(v)
                if r.random() < 0.45:
                    # a free-standing expression as the right operand: sums / products / signs / parentheses, which
                    # the operator has to wrap or splice term by term
                    NE = models.NumberExpr
                    mk = r.choice([
                        ('NE(1) + 0.50', lambda: NE.from_value(D(1)) + D('0.50')),
                        ('NE(7) - 2 - 1', lambda: NE.from_value(D(7)) - D(2) - D(1)),
                        ('NE(2) * 3', lambda: NE.from_value(D(2)) * D(3)),
                        ('NE(8) / 4 * 2', lambda: NE.from_value(D(8)) / D(4) * D(2)),
                        ('-NE(3)', lambda: -NE.from_value(D(3))),
                        ('-(NE(3) + 1)', lambda: -(NE.from_value(D(3)) + D(1))),
                        ('NE(-2)', lambda: NE.from_value(D(-2))),
                        ('(NE(1) + 2) * 3', lambda: (NE.from_value(D(1)) + D(2)) * D(3)),
                        ('NE(1) * 2 + NE(3) * 4', lambda: NE.from_value(D(1)) * D(2) + NE.from_value(D(3)) * D(4)),
                    ])
                    desc = mk[0]
                    try:
                        v = mk[1]()
                    except Exception:
                        v = D(2)
                        desc = repr(v)
                e = Edit(f'{p} {opn} {desc}')
                try:
                    fn(n, v)
                except Exception as x:
                    e.exc = x
                return e
        if 0.13 <= kind < 0.17 and focus is None:
            # --- spacing accessors, syntax preserving: write the current value back (must change nothing), or
            #     replace blanks inside a line by other blanks
            p_, m_ = r.choice(nodes)
            if hasattr(type(m_), 'spacing_before') and getattr(m_, 'token_store', None) is not None:
                side = r.choice(['spacing_before', 'spacing_after', 'raw_spacing_before', 'raw_spacing_after'])
                try:
                    cur = getattr(m_, side)
                except Exception:
                    cur = None
                if cur is not None:
                    if side.startswith('raw_'):
                        e = Edit(f'{p_}.{side} = {p_}.{side}')
                        new_v = tuple(cur)
                    elif cur and set(cur) <= {' ', '\t'} and r.random() < 0.6:
                        new_v = r.choice([' ', '  ', '\t', '     '])
                        e = Edit(f'{p_}.{side} = {new_v!r} (was {cur!r})')
                    else:
                        new_v = cur
                        e = Edit(f'{p_}.{side} = {p_}.{side} ({cur!r})')
                    try:
                        setattr(m_, side, new_v)
                    except Exception as x:
                        e.exc = x
                    return e
        if 0.06 <= kind < 0.09 and focus is None:
            # --- a node that is still attached elsewhere (at the edge of a free-standing parsed model's store) offered
            #     as a value: must be refused and change nothing; if it is accepted the trees are checked afterwards
            global _EDGE_PARSER
            try:
                _EDGE_PARSER
            except NameError:
                from autobean_refactor import parser as parser_lib
                _EDGE_PARSER = parser_lib.Parser()
            donor_root = _EDGE_PARSER.parse('2001-02-03 * "edge" #dt\n  Assets:Edge  5 USD', models.Transaction)
            cands = []
            for p_, m_ in trees:
                if hasattr(type(m_), 'raw_date') and getattr(m_, 'raw_date', None) is not None:
                    cands.append((p_, m_, 'raw_date', donor_root.raw_date))
                if isinstance(m_, models.Transaction):
                    cands.append((p_, m_, 'raw_postings.append', donor_root.raw_postings[-1]))
            if cands:
                p_, m_, how, donor = r.choice(cands)
                e = Edit(f'{p_}.{how} <- node still attached at the edge of another model\'s store')
                before = treewalk.text_of(donor_root)
                try:
                    if how == 'raw_date':
                        m_.raw_date = donor
                    else:
                        m_.raw_postings.append(donor)
                    e.exc = None
                    e.desc += ' [ACCEPTED]'
                    probs = treewalk.wf_problems(donor_root)
                    if treewalk.text_of(donor_root) != before or probs:
                        e.desc += f' [donor tree damaged: {probs[:1] or "text changed"}]'
                        e.damaged_donor = True
                except Exception as x:
                    e.exc = x
                return e
        if 0.09 <= kind < 0.13 and allow_comments and focus is None:
            # --- comment attribution calls and standalone comment entries (with a fitting indent)
            ws = []
            for p_, m_ in trees:
                for name_ in class_props(type(m_)):
                    if name_.endswith('_with_comments'):
                        try:
                            ws.append((p_, m_, name_, getattr(m_, name_)))
                        except Exception:
                            pass
            owners = [(p_, m_) for p_, m_ in trees if hasattr(m_, 'claim_leading_comment')]
            c = r.random()
            if c < 0.35 and ws:
                p_, m_, name_, w_ = r.choice(ws)
                how = r.choice(['unclaim_all', 'claim_all', 'unclaim_then_claim', 'append_comment', 'insert_comment', 'pop_comment'])
                e = Edit(f'{p_}.{name_}.{how}')
                try:
                    items = [x for x in w_ if isinstance(x, models.BlockComment)]
                    first_model = next((x for x in w_ if not isinstance(x, models.BlockComment)), None)
                    ind = ''
                    if first_model is not None and hasattr(first_model, 'raw_indent'):
                        ind = first_model.raw_indent.value
                    elif not isinstance(m_, models.File):
                        ind = getattr(m_, 'indent_by', '    ')
                        if isinstance(m_, models.Posting):
                            ind = m_.indent + ind
                    if how == 'unclaim_all':
                        w_.unclaim_interleaving_comments()
                    elif how == 'claim_all':
                        w_.claim_interleaving_comments()
                    elif how == 'unclaim_then_claim':
                        w_.claim_interleaving_comments(w_.unclaim_interleaving_comments())
                    elif how == 'append_comment':
                        w_.append(models.BlockComment.from_value(r.choice(['cc', 'c1\nc2']), indent=ind))
                    elif how == 'insert_comment':
                        w_.insert(rand_index(r, len(w_)), models.BlockComment.from_value('ci', indent=ind))
                    elif items:
                        w_.pop(next(i for i, x in enumerate(w_) if x is items[-1]))
                except Exception as x:
                    e.exc = x
                return e
            if owners:
                p_, m_ = r.choice(owners)
                how = r.choice(['claim_leading_comment', 'claim_trailing_comment', 'unclaim_leading_comment', 'unclaim_trailing_comment'])
                e = Edit(f'{p_}.{how}()')
                try:
                    getattr(m_, how)()
                except Exception as x:
                    e.exc = x
                return e
        if kind < 0.24 and toks:
            # --- token value
            p, t = r.choice(toks)
            s = sample_for(type(t), r)
            if s is None or not hasattr(t, 'value'):
                continue
            if isinstance(t, models.BlockComment) and not t.claimed:
                continue
            e = Edit(f'{p}.value = {s[1]!r}')
            try:
                t.value = s[1]
            except Exception as x:
                e.exc = x
            return e
        p, m = r.choice(trees)
        cp = class_props(type(m))
        if not cp:
            continue
        name, prop = r.choice(sorted(cp.items()))
        if only is not None and name not in only:
            continue
        if name.startswith('_') or 'string0' in name or 'string1' in name or 'string2' in name:
            continue        # string0/1/2 are the storage behind payee/narration (the documented API)
        full = f'{p}.{name}'
        try:
            cur = getattr(m, name)
        except Exception:
            continue
        # --- meta mapping
        if isinstance(cur, meta_item_internal.RepeatedMetaItemWrapper):
            c = r.random()
            keys = list(cur.keys())
            if c < 0.45:
                k = r.choice(keys) if keys and r.random() < 0.5 else s_key(r)
                v = s_meta_value(r)
                e = Edit(f'{full}[{k!r}] = {v!r}')
                try:
                    cur[k] = v
                except Exception as x:
                    e.exc = x
                return e
            if c < 0.6:
                k = r.choice(keys) if keys and r.random() < 0.8 else 'missing-key'
                e = Edit(f'del {full}[{k!r}]')
                try:
                    del cur[k]
                except Exception as x:
                    e.exc = x
                return e
            if c < 0.75:
                k = r.choice(keys) if keys and r.random() < 0.8 else 'missing-key'
                e = Edit(f'{full}.pop({k!r}, None)')
                try:
                    cur.pop(k, None)
                except Exception as x:
                    e.exc = x
                return e
            indent = cur._get_indent()
            return _list_edit(r, cur, lambda: make_meta_item(r, indent), full, owner=(m, name))
        if isinstance(cur, meta_item_internal.RepeatedRawMetaItemWrapper):
            indent = '    '
            first = next(iter(cur), None)
            if first is not None:
                indent = first.indent
            elif isinstance(m, models.Posting):
                indent = m.indent + '    '
            return _list_edit(r, cur, lambda: make_meta_item(r, indent), full, owner=(m, name))
        # --- string views (tags, links, currencies …)
        if isinstance(cur, vprops.RepeatedValueWrapper) and not isinstance(cur, vprops.RepeatedFilteredNodeWrapper):
            rt = cur._raw_type if isinstance(cur._raw_type, type) else cur._raw_type[0]
            samp = TOKEN_SAMPLERS.get(rt.__name__)
            if samp is None:
                continue
            return _list_edit(r, cur, lambda: samp(r), full, owner=(m, name))
        # --- node lists (filtered or raw)
        if isinstance(cur, (vprops.RepeatedFilteredNodeWrapper, props.RepeatedNodeWrapper)):
            if isinstance(cur, vprops.RepeatedFilteredNodeWrapper):
                rt = cur._raw_type if isinstance(cur._raw_type, tuple) else (cur._raw_type,)
            else:
                rt = tuple({type(x) for x in cur}) or ()
            names = {t.__name__ for t in rt}
            if isinstance(m, models.File):
                mk = lambda: make_directive(r)
            elif names & {'Posting'} or name in ('postings', 'raw_postings', 'raw_postings_with_comments'):
                mk = lambda: make_posting(r)
            elif names & {'MetaItem'}:
                mk = lambda: make_meta_item(r)
            else:
                cands = [t for t in rt if t.__name__ in TOKEN_SAMPLERS and hasattr(t, 'from_value')
                         and t is not models.BlockComment]       # a raw comment needs a fitting indent: value-level routes only
                if not cands:
                    continue
                mk = lambda: make_node(r.choice(cands), r)
            if not allow_comments and 'with_comments' in name:
                continue
            return _list_edit(r, cur, mk, full, owner=(m, name))
        # --- optional value properties
        if isinstance(prop, (vprops.optional_string_property, vprops.optional_decimal_property,
                             vprops.optional_date_property, vprops.optional_indented_string_property)):
            inner = prop._inner_type
            samp = TOKEN_SAMPLERS.get(inner.__name__)
            if samp is None:
                continue
            if inner is models.BlockComment and not allow_comments:
                continue
            v = None if r.random() < 0.3 else samp(r)
            e = Edit(f'{full} = {v!r}')
            try:
                setattr(m, name, v)
            except Exception as x:
                e.exc = x
            return e
        if isinstance(prop, vprops.required_value_property):
            raw = prop._inner_property.__get__(m)
            samp = TOKEN_SAMPLERS.get(type(raw).__name__)
            if samp is None:
                continue
            v = samp(r)
            e = Edit(f'{full} = {v!r}')
            try:
                setattr(m, name, v)
            except Exception as x:
                e.exc = x
            return e
        # --- node properties: replace by a fresh node / a deep copy of a same-class node elsewhere / None
        if isinstance(prop, (props.optional_node_property, props.required_node_property)):
            if cur is not None and isinstance(cur, models.BlockComment) and not allow_comments:
                continue
            want = type(cur) if cur is not None else None
            optional = isinstance(prop, props.optional_node_property)
            donors = [x for _, x in nodes if want is not None and type(x) is want and x is not cur]
            c = r.random()
            if optional and cur is not None and c < 0.3:
                e = Edit(f'{full} = None')
                try:
                    setattr(m, name, None)
                except Exception as x:
                    e.exc = x
                return e
            if cur is None or isinstance(cur, models.BlockComment):
                continue        # creating needs the slot's type; comments need a fitting indent: value-level route
            if donors and c < 0.7:
                d = copy.deepcopy(r.choice(donors))
                e = Edit(f'{full} = deepcopy(same-class node {treewalk.text_of(d)!r})')
            else:
                d = make_node(want, r)
                if d is None:
                    continue
                e = Edit(f'{full} = {want.__name__}.from_value(..)')
            try:
                setattr(m, name, d)
            except Exception as x:
                e.exc = x
            return e
        # --- custom properties with setters taking plain values (cost number_per…, payee, narration)
        if isinstance(prop, props.custom_property) and prop._fset is not props._default_fset:
            if isinstance(cur, (D, type(None))) and name.startswith('number'):
                v = r.choice([None, s_number(r)])
            elif name in ('payee', 'narration'):
                v = r.choice([None, s_string(r)])
            elif isinstance(cur, str) or (cur is None and name == 'currency'):
                v = r.choice([None, s_currency(r), s_currency(r)]) if name == 'currency' else s_string(r)
            elif isinstance(cur, datetime.date):
                v = s_date(r)
            else:
                continue
            e = Edit(f'{full} = {v!r}')
            try:
                setattr(m, name, v)
            except Exception as x:
                e.exc = x
            return e
    return None
