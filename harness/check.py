"""Entry point: ./check Cxx [--tier quick|thorough] [--replay file]"""
import argparse
import importlib
import os
import sys
import traceback

sys.path.insert(0, '/verif')
from harness import common


def main() -> int:
    ap = argparse.ArgumentParser()
    ap.add_argument('prop')
    ap.add_argument('--tier', default=os.environ.get('VERIF_TIER', 'quick'), choices=['quick', 'thorough'])
    ap.add_argument('--replay', default=None)
    ap.add_argument('--seed', type=int, default=int(os.environ.get('VERIF_SEED', '20260929')))
    a = ap.parse_args()
    prop = a.prop.upper()
    ctx = common.Ctx(prop, a.tier, a.seed)
    try:
        mod = importlib.import_module(f'harness.{prop.lower()}')
    except ModuleNotFoundError as e:
        print(f'no check for {prop}: {e}')
        return 2
    try:
        if a.replay:
            return mod.replay(ctx, a.replay)
        mod.run(ctx)
        if ctx.broken() and not ctx.concrete() and hasattr(mod, 'search'):
            # a proof obligation, the tie or the correspondence broke: look for a concrete failing input
            ctx.deep = True
            mod.search(ctx)
    except Exception as e:  # the harness itself crashed: report, never pass silently
        traceback.print_exc()
        ctx.fail('tie', 'harness-crash', f'harness crashed: {type(e).__name__}: {e}',
                 {'traceback': traceback.format_exc()[-3000:]})
    return common.finish(ctx)


if __name__ == '__main__':
    sys.exit(main())
