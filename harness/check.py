"""Entry point: ./check Cxx [--tier quick|thorough] [--replay file]"""
import argparse
import importlib
import os
import sys
import traceback

sys.path.insert(0, '/verif')
from harness import common


def shake_load_factor(ctx) -> None:
    """Document-level checks parse small ledgers; with the default load factor (1000 tokens per block) the token
    store under them never leaves its single-block fast paths. Every parse therefore first draws a load factor
    from {2, 3, 4, 6, 1000} (seeded), so splits, merges and re-balancing happen under every property's edits.
    (The store invariant does not depend on the load factor, so it may change between operations.)"""
    import random
    from autobean_refactor import parser as parser_lib
    from harness import store_driver as sd
    rng = random.Random(ctx.seed * 7919 + 13)
    orig = parser_lib.Parser.parse

    def parse(self, text, target, **kw):
        if not getattr(sd, 'LF_PINNED', False):
            sd.set_load_factor(rng.choice([2, 2, 3, 4, 6, 1000]))
        return orig(self, text, target, **kw)

    parser_lib.Parser.parse = parse
    ctx.notes.append('token_store load factor drawn from {2,3,4,6,1000} before every parse')


def main() -> int:
    ap = argparse.ArgumentParser()
    ap.add_argument('prop')
    ap.add_argument('--tier', default=os.environ.get('VERIF_TIER', 'quick'), choices=['quick', 'thorough'])
    ap.add_argument('--replay', default=None)
    ap.add_argument('--seed', type=int, default=int(os.environ.get('VERIF_SEED', '20260929')))
    a = ap.parse_args()
    prop = a.prop.upper()
    ctx = common.Ctx(prop, a.tier, a.seed)
    try:
        mod = importlib.import_module(f'harness.{prop.lower()}')
    except ModuleNotFoundError as e:
        print(f'no check for {prop}: {e}')
        return 2
    if prop not in ('C07', 'C08', 'C02'):
        shake_load_factor(ctx)
    try:
        if a.replay:
            return mod.replay(ctx, a.replay)
        mod.run(ctx)
        if ctx.broken() and not ctx.concrete() and hasattr(mod, 'search'):
            # a proof obligation, the tie or the correspondence broke: look for a concrete failing input
            ctx.deep = True
            mod.search(ctx)
    except Exception as e:  # the harness itself crashed: report, never pass silently
        traceback.print_exc()
        ctx.fail('tie', 'harness-crash', f'harness crashed: {type(e).__name__}: {e}',
                 {'traceback': traceback.format_exc()[-3000:]})
    return common.finish(ctx)


if __name__ == '__main__':
    sys.exit(main())
