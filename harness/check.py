"""Entry point: ./check Cxx [--tier quick|thorough] [--replay file]"""
import argparse
import importlib
import os
import sys
import traceback

sys.path.insert(0, os.environ.get('VERIF_ROOT', '/verif'))
from harness import common


def shake_load_factor(ctx) -> None:
    """Document-level checks parse small ledgers; with the default load factor (1000 tokens per block) the token
    store under them never leaves its single-block fast paths. Every parse therefore first draws a load factor
    from {2, 3, 4, 6, 1000} (seeded), so splits, merges and re-balancing happen under every property's edits.
    (The store invariant does not depend on the load factor, so it may change between operations.)"""
    import random
    from autobean_refactor import parser as parser_lib
    from harness import store_driver as sd
    rng = random.Random(ctx.seed * 7919 + 13)
    orig = parser_lib.Parser.parse

    def parse(self, text, target, **kw):
        if not getattr(sd, 'LF_PINNED', False):
            sd.set_load_factor(rng.choice([2, 2, 3, 4, 6, 1000]))
        return orig(self, text, target, **kw)

    parser_lib.Parser.parse = parse
    ctx.notes.append('token_store load factor drawn from {2,3,4,6,1000} before every parse')


def anchored_files(prop: str) -> list[str]:
    import glob
    import json
    for line in open(os.path.join(os.environ.get('VERIF_ROOT', '/verif'), 'properties.jsonl')):
        p = json.loads(line)
        if p['id'] == prop:
            out = []
            for pat in p['anchors']['files']:
                out.extend(sorted(glob.glob(str(common.REPO / pat))))
            return [f for f in out if f.endswith('.py') and not f.endswith('_test.py')]
    return []


def start_impl_coverage(ctx):
    """How much of the code the property is anchored in do this run's inputs (correspondence + monitors) execute?
    Measured with coverage.py (branch mode) on the real implementation while the check runs, reported in the
    evidence (coverage.impl_coverage): generator quality bounds the correspondence, so it is measured, not
    assumed. Reporting only - never a verdict. On in the thorough tier; VERIF_IMPL_COVERAGE=1/0 forces it on/off."""
    # default: thorough tier only (tracing slows the Python side of a check by a factor of 2-3)
    if os.environ.get('VERIF_IMPL_COVERAGE', '1' if ctx.tier == 'thorough' else '0') != '1':
        return None
    try:
        import coverage
        files = anchored_files(ctx.prop)
        if not files:
            return None
        cov = coverage.Coverage(branch=True, data_file=None, include=files, config_file=False)
        cov.start()
        return cov
    except Exception as e:       # measurement is optional
        ctx.notes.append(f'implementation coverage not measured: {type(e).__name__}: {e}')
        return None


def ranges(xs: list[int]) -> str:
    out, i = [], 0
    while i < len(xs):
        j = i
        while j + 1 < len(xs) and xs[j + 1] == xs[j] + 1:
            j += 1
        out.append(str(xs[i]) if i == j else f'{xs[i]}-{xs[j]}')
        i = j + 1
    return ','.join(out)


def stop_impl_coverage(ctx, cov) -> None:
    if cov is None:
        return
    try:
        cov.stop()
        rep = {}
        tot_l = tot_lm = tot_b = tot_bm = 0
        for f in anchored_files(ctx.prop):
            try:
                a = cov._analyze(f)
            except Exception:
                continue
            nums = a.numbers
            gen = '/models/generated/' in f
            tot_l += nums.n_statements; tot_lm += nums.n_missing
            tot_b += nums.n_branches; tot_bm += nums.n_missing_branches
            if gen:
                continue          # 34 generated files: only in the totals
            rep[os.path.relpath(f, common.REPO)] = {
                'statements': nums.n_statements, 'executed': nums.n_statements - nums.n_missing,
                'branches': nums.n_branches, 'branches_taken': nums.n_branches - nums.n_missing_branches,
                'missing_lines': ranges(sorted(a.missing))}
        ctx.impl_coverage = {
            'tool': 'coverage.py (branch mode) on the anchored files of this property while this check ran',
            'statements': tot_l, 'statements_executed': tot_l - tot_lm,
            'branches': tot_b, 'branches_taken': tot_b - tot_bm,
            'per_file': rep}
    except Exception as e:
        ctx.notes.append(f'implementation coverage not reported: {type(e).__name__}: {e}')


def main() -> int:
    ap = argparse.ArgumentParser()
    ap.add_argument('prop')
    ap.add_argument('--tier', default=os.environ.get('VERIF_TIER', 'quick'), choices=['quick', 'thorough'])
    ap.add_argument('--replay', default=None)
    ap.add_argument('--seed', type=int, default=int(os.environ.get('VERIF_SEED', '20260929')))
    a = ap.parse_args()
    prop = a.prop.upper()
    ctx = common.Ctx(prop, a.tier, a.seed)
    cov = None if a.replay else start_impl_coverage(ctx)     # before the package under test is imported
    try:
        mod = importlib.import_module(f'harness.{prop.lower()}')
    except ModuleNotFoundError as e:
        print(f'no check for {prop}: {e}')
        return 2
    if prop not in ('C07', 'C08', 'C02'):
        shake_load_factor(ctx)
    try:
        if a.replay:
            return mod.replay(ctx, a.replay)
        mod.run(ctx)
        stop_impl_coverage(ctx, cov)
        cov = None
        if ctx.broken() and not ctx.concrete() and hasattr(mod, 'search'):
            # a proof obligation, the tie or the correspondence broke: look for a concrete failing input
            ctx.deep = True
            mod.search(ctx)
    except Exception as e:  # the harness itself crashed: report, never pass silently
        traceback.print_exc()
        ctx.fail('tie', 'harness-crash', f'harness crashed: {type(e).__name__}: {e}',
                 {'traceback': traceback.format_exc()[-3000:]})
    return common.finish(ctx)


if __name__ == '__main__':
    sys.exit(main())
